import numpy as np, random, warnings, sys
warnings.simplefilter("ignore")
import dask_array as da
from dask_array._core_utils import normalize_chunks
random.seed(int(sys.argv[1]) if len(sys.argv)>1 else 0)
def rchunks(shape):
    out=[]
    for s in shape:
        k=random.random()
        if k<0.2: out.append(-1)
        elif k<0.5: out.append(random.choice([1,2,3,5,7]))
        else:
            # explicit tuple
            cuts=sorted(random.sample(range(1,s), min(s-1, random.randint(0,3)))) if s>1 else []
            b=[0]+cuts+[s]; out.append(tuple(y-x for x,y in zip(b,b[1:])))
    return tuple(out)
a = np.arange(6*8.).reshape(6,8); b = np.arange(6*8.).reshape(6,8)*2; v=np.arange(8.)
def progs():
    x = lambda: da.from_array(a, chunks=rchunks(a.shape)); y = lambda: da.from_array(b, chunks=rchunks(b.shape)); w=lambda: da.from_array(v, chunks=rchunks(v.shape))
    return {
     "elem": (lambda: x()+y()*2, a+b*2),
     "bcast": (lambda: x()+w(), a+v),
     "T": (lambda: (x()+1).T, (a+1).T),
     "concat0": (lambda: da.concatenate([x(), y()+1], axis=0), np.concatenate([a,b+1],axis=0)),
     "concat1": (lambda: da.concatenate([x()*2, y(), x()], axis=1), np.concatenate([a*2,b,a],axis=1)),
     "stack": (lambda: da.stack([x(), y()], axis=1), np.stack([a,b],axis=1)),
     "expand": (lambda: da.expand_dims(x()+1, 1), np.expand_dims(a+1,1)),
     "slice": (lambda: (x()+1)[1:5, 2:], (a+1)[1:5,2:]),
     "sliceT": (lambda: x()[::2].T, a[::2].T),
     "fa": (lambda: x(), a),
     "fasl": (lambda: x()[1:, :5], a[1:,:5]),
     "rr": (lambda: x().rechunk(rchunks(a.shape))*1, a),
     "sum": (lambda: (x()+y()).sum(axis=0), (a+b).sum(axis=0)),
     "cumsum": (lambda: x().cumsum(axis=1), a.cumsum(axis=1)),
     "where": (lambda: da.where(x()>10, y(), 0.0), np.where(a>10,b,0.0)),
     "ones": (lambda: da.ones((6,8), chunks=rchunks((6,8)))*3, np.ones((6,8))*3),
    }
bad=0; n=0
for name,(mk,ref) in progs().items():
    for t in range(60):
        spec = rchunks(ref.shape)
        try:
            z = mk().rechunk(spec)
            want_chunks = normalize_chunks(spec, ref.shape)
            got = z.compute(); n+=1
            ok = z.chunks == want_chunks and got.shape==ref.shape and np.allclose(got, ref)
            # per-block sizes
            if ok and random.random()<0.3:
                for idx in np.ndindex(*z.numblocks):
                    blk = z.blocks[idx].compute()
                    if blk.shape != tuple(c[i] for c,i in zip(z.chunks, idx)): ok=False; break
            if not ok:
                bad+=1; print("MISMATCH", name, spec, z.chunks, want_chunks)
            # chained
            z2 = (z+1).rechunk(rchunks(ref.shape))[tuple(slice(random.choice([None,1]), None) for _ in ref.shape)]
            sl = tuple(slice(s.start, None) for s in [slice(None)]*0)
        except Exception as e:
            bad+=1; print("RAISE", name, spec, type(e).__name__, str(e)[:100])
        if bad>10: break
print("cases", n, "bad", bad)

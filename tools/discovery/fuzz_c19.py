import numpy as np, random, warnings, sys
warnings.simplefilter("ignore")
import dask_array as da
sw=np.lib.stride_tricks.sliding_window_view
seed=int(sys.argv[1]) if len(sys.argv)>1 else 0
random.seed(seed); rs=np.random.RandomState(seed); bad=0
def rchunks(shape): return tuple(random.choice([1,2,3,5,s]) for s in shape)
RED=['sum','mean','max','min','var','std','prod','any','all']
NRED=['nansum','nanmean','nanmax','nanmin']
def window_step(d,n):
    ax=random.randrange(n.ndim)
    if n.shape[ax]<2: return d,n,None
    w=random.randint(2,min(n.shape[ax],9))
    k=random.random()
    if k<0.7:
        red=random.choice(RED)
        if red=='prod': d=da.clip(d,-1.2,1.2); n=np.clip(n,-1.2,1.2)
        if red in('any','all'): return getattr(da.sliding_window_view(d>0,w,axis=ax),red)(axis=-1), getattr(sw(n>0,w,axis=ax),red)(axis=-1), f'{red}{w}@{ax}'
        return getattr(da.sliding_window_view(d,w,axis=ax),red)(axis=-1), getattr(sw(n,w,axis=ax),red)(axis=-1), f'{red}{w}@{ax}'
    if k<0.85:
        red=random.choice(NRED); dn=da.where(d>3,np.nan,d); nn=np.where(n>3,np.nan,n)
        return getattr(da,red)(da.sliding_window_view(dn,w,axis=ax),axis=-1), getattr(np,red)(sw(nn,w,axis=ax),axis=-1), f'{red}{w}@{ax}'
    # keepdims / plain view
    return da.sliding_window_view(d,w,axis=ax).sum(axis=-1,keepdims=True)[...,0], sw(n,w,axis=ax).sum(axis=-1), f'sumkd{w}@{ax}'
def other_step(d,n):
    k=random.random()
    if n.ndim==0 or 0 in n.shape: return d,n,None
    if k<0.2:
        idx=tuple(random.choice([slice(None), slice(1,None), slice(None,-1), slice(None,None,2), slice(None,None,-1)]+([random.randrange(s)] if n.ndim>1 else [])) for s in n.shape); return d[idx],n[idx],f'slice{idx}'
    if k<0.3: return d.rechunk(rchunks(n.shape)),n,'rechunk'
    if k<0.4 and n.ndim>=2: return d.T,n.T,'T'
    if k<0.5: return d*2-1,n*2-1,'elem'
    if k<0.6:
        ax=random.randrange(n.ndim); return d.cumsum(axis=ax),n.cumsum(axis=ax),f'cumsum{ax}'
    if k<0.68:
        ax=random.randrange(n.ndim); return da.cumsum(d,axis=ax,method='blelloch'),n.cumsum(axis=ax),f'cumsumB{ax}'
    if k<0.76 and all(s>2 for s in n.shape):
        ax=random.randrange(n.ndim); m=random.choice([1,2]); return da.diff(d,n=m,axis=ax),np.diff(n,n=m,axis=ax),f'diff{m}@{ax}'
    if k<0.9 and all(s>=3 for s in n.shape):
        ax=random.randrange(n.ndim); dep=random.choice([1,2]); b=random.choice(['reflect','nearest','periodic',0.0])
        if min(d.chunks[ax])<dep: return d,n,None
        f=lambda blk: blk+np.roll(blk,1,axis=ax)+np.roll(blk,-dep,axis=ax)
        pm={'reflect':'symmetric','nearest':'edge','periodic':'wrap'}
        pad=[(0,0)]*n.ndim; pad[ax]=(dep,dep)
        ap=np.pad(n,pad,mode=pm[b]) if b in pm else np.pad(n,pad,constant_values=b)
        sl=[slice(None)]*n.ndim; sl[ax]=slice(dep,-dep)
        return da.map_overlap(f,d,depth={ax:dep},boundary={ax:b},dtype=float), f(ap)[tuple(sl)], f'overlap{dep}{b}@{ax}'
    if all(s>=3 for s in n.shape) and n.ndim==1 and all(c>=2 for c in d.chunks[0]): return da.gradient(d,axis=0),np.gradient(n,axis=0),'gradient'
    return d,n,None
for p in range(int(sys.argv[2]) if len(sys.argv)>2 else 300):
    shape=random.choice([(20,),(12,),(9,7),(6,10),(4,6,5)])
    a=rs.randint(-4,9,size=shape).astype(float)
    d=da.from_array(a,chunks=rchunks(shape)); n=a; log=[d.chunks]
    try:
        for s in range(random.randint(1,4)):
            d2,n2,l=(window_step if random.random()<0.55 else other_step)(d,n)
            if l is None: continue
            d,n=d2,n2; log.append(l)
        g=np.asarray(d.compute())
        if g.shape!=np.shape(n) or not np.allclose(g,n,equal_nan=True): bad+=1; print('MISMATCH',seed,p,log)
    except Exception as e:
        bad+=1; print('RAISE',seed,p,type(e).__name__,str(e)[:100],log)
print('bad',bad)

"""C25 - one clause: store's per-block target slices come from a pinned layout; the kernel's only write is out[index] under a paired lock."""

from __future__ import annotations

import ast

from ..model import body_walk, const_value, dotted, idents_in, norm, unparse
from ..purity import AliasAnalysis
from ..report import RuleResult
from .c20 import r20_7
from .common import cfg_of, need, site

PROP = "C25"

EXPLANATION = (
    "Decides the structural clauses of C25. R25.1 (instances of the payload-layout rule R20.7): both ArraySliceDep payloads in "
    "da.store - the per-block target slices for writing and for loading back - are built from a layout-pinned source "
    "(s = s.freeze_chunks(); results of persist(...)); R25.2 in the store kernel load_store_chunk every write goes to "
    "out[index] where index is the per-block slice (fused with region only through fuse_slice(region, index) / region), "
    "it happens only under `x is not None`, and load_chunk passes x=None (writes nothing); R25.3 lock.acquire() is paired "
    "with a release in a finally on every exit, in load_store_chunk and in the getter. Region/offset arithmetic "
    "(fuse_slice) is not decided. R25.7 COVER the npy-stack writer and reader agree on their tables: every key the reader takes "
    "from the info record is written by to_npy_stack, the info file and the per-block files are named by the same templates on "
    "both sides (f-string, %-format, str() concatenation and .format spellings normalised), the writer rechunks every non-stack "
    "axis to one block and records exactly that layout and axis. The values inside the .npy files are NumPy's business."
)
ASSUMPTIONS = ["the target's __setitem__ writes exactly the addressed region (third-party stores)", "fuse_slice composes region and block slice exactly (C13, not decided)"]
TRUSTED = ["CPython ast", "sa.cfg (try/finally modelling)", "sa.purity"]
STORE = "dask_array.io._store:store"


def r25_1(ctx):
    return r20_7(ctx, only={STORE}, rule="R25.1", prop=PROP)


def r25_2(ctx):
    rr = RuleResult("R25.2", "PURE", "load_store_chunk writes only out[index] (index = block slice, optionally fused with region), only when x is not None; load_chunk passes x=None", min_instances=3)
    m = ctx.repo.mod("dask_array.io._store")
    f = m.func("load_store_chunk")
    cfg = cfg_of(ctx, f)
    aa = AliasAnalysis(f.node)
    writes = [w for w in aa.writes if "out" in w.targets]
    need(writes, "load_store_chunk no longer writes into `out`")
    seen = set()
    for w in writes:
        key = getattr(w.stmt, "lineno", 0)
        if key in seen:
            continue
        seen.add(key)
        c = site(f, w.stmt)
        ok = isinstance(w.node, ast.Subscript) and unparse(w.node.value) == "out" and unparse(w.node.slice) == "index"
        g = cfg.guards(w.stmt) if w.stmt in cfg.parent else []
        guarded = any(pol and "x is not None" in unparse(t) for t, pol in g)
        rr.inst(c, how=w.how, guarded_by_x_is_not_None=guarded)
        if not ok:
            ctx.finding(rr, c, f"the store kernel writes the target other than through out[index] ({w.how}): positions outside the block's region can be touched", func=f, node=w.stmt)
        if not guarded:
            ctx.finding(rr, c, "the target is written without the `x is not None` guard (the load-back path would write)", func=f, node=w.stmt)
    # index is only ever (re)bound to fuse_slice(region, index) [when both are set] or region [when index is empty];
    # an if/else statement and a conditional expression are the same thing
    from ..refguards import _conjuncts, _nnf
    from .common import chain_conjuncts

    def cases(value, conj):
        if isinstance(value, ast.IfExp):
            t = {unparse(x) for x in _conjuncts(_nnf(value.test))}
            nt = {unparse(x) for x in _conjuncts(_nnf(value.test, False))}
            return cases(value.body, conj | t) + cases(value.orelse, conj | nt)
        return [(unparse(value), conj)]

    want = {"fuse_slice(region, index)": {"region", "index"}, "region": {"region", "not index"}}
    for n in body_walk(f.node):
        if isinstance(n, ast.Assign) and any(unparse(t) == "index" for t in n.targets):
            base = chain_conjuncts(cfg, n, f.node, f.module)
            for v, conj in cases(n.value, set(base)):
                rr.inst(site(f, n) + f"::{v}", index_rebound_to=v, under=sorted(conj))
                if v not in want:
                    ctx.finding(rr, site(f, n), f"index is rebound to {v}: the written region is no longer the block slice composed with the requested region", func=f, node=n)
                elif conj != want[v]:
                    ctx.finding(rr, site(f, n), f"index = {v} happens under {sorted(conj)}, expected {sorted(want[v])}", func=f, node=n)
    lc = m.func("load_chunk")
    calls = [n for n in body_walk(lc.node) if isinstance(n, ast.Call) and dotted(n.func) == "load_store_chunk"]
    need(calls, "load_chunk no longer delegates to load_store_chunk")
    for c_ in calls:
        first = unparse(c_.args[0]) if c_.args else next((unparse(k.value) for k in c_.keywords if k.arg == "x"), "?")
        rr.inst(site(lc, c_)[:140], x=first)
        if first != "None":
            ctx.finding(rr, site(lc, c_)[:140], f"load_chunk passes x={first} to the store kernel: loading back would write", func=lc, node=c_)
    return rr


def r25_3(ctx, sites=None, rule="R25.3", prop=PROP):
    repo = ctx.repo
    rr = RuleResult(rule, "PASS", "every lock.acquire() is followed by a try/finally that releases on every exit", min_instances=2 if sites is None else len(sites))
    sites = sites or [(repo.mod("dask_array.io._store").func("load_store_chunk")), (repo.mod("dask_array._core_utils").func("getter"))]
    for f in sites:
        cfg = cfg_of(ctx, f)
        acq = [s for s in cfg.stmts() if any(isinstance(c, ast.Call) and isinstance(c.func, ast.Attribute) and c.func.attr == "acquire" and unparse(c.func.value) == "lock" for c in ast.walk(s)) and not isinstance(s, (ast.If, ast.Try))]
        need(acq, f"lock.acquire() in {f.qualname}")

        def releases(n):
            return isinstance(n, ast.stmt) and not isinstance(n, (ast.If, ast.Try, ast.For, ast.While, ast.With)) and any(
                isinstance(c, ast.Call) and isinstance(c.func, ast.Attribute) and c.func.attr == "release" and unparse(c.func.value) == "lock" for c in ast.walk(n))

        for a in acq:
            c = site(f, a)
            # correlated branches: the acquire happens under `if <t>`; an `if <t>` later on takes the same
            # branch as long as nothing rebinds the names in <t>
            held_under = [(unparse(t), pol) for t, pol in cfg.guards(a)]
            rebound = {n.id for n in ast.walk(f.node) if isinstance(n, ast.Name) and isinstance(n.ctx, ast.Store)}
            stable = [(t, pol) for t, pol in held_under if not (set(idents_in(ast.parse(t, mode="eval"))) & rebound)]

            def infeasible(x, lbl, y, stable=stable):
                return isinstance(x, ast.If) and any(unparse(x.test) == t and lbl is (not pol) for t, pol in stable)

            rr.inst(c, acquired_under=held_under)
            for exit_ in (cfg.exit, cfg.raise_exit):
                p = cfg.path_avoiding(exit_, blocked=releases, blocked_edge=infeasible, start=a)
                if p is not None and len(p) > 1:
                    ctx.finding(rr, c, f"a path from lock.acquire() leaves {f.qualname} ({'normally' if exit_ is cfg.exit else 'by exception'}) without lock.release(): the next writer deadlocks", func=f, node=a,
                                path=[f"line {getattr(x, 'lineno', 0)}: {norm(x)}" for x in p if isinstance(x, ast.AST)][:8])
    return rr


class _DefFlow:
    """Reaching definitions over the statement CFG: name -> set of definition ids ``<kind>@<line>`` with kind ``L``
    (for-loop target), ``A`` (any other binding) or ``P`` (parameter)."""

    def __init__(self, ctx, f):
        from ..tagflow import Evaluator, TagFlow

        outer = self

        class _Ev(Evaluator):
            def ev(self, e, st):
                return frozenset()

        class _Flow(TagFlow):
            def transfer(self, s, st):
                outer._cur = s
                return super().transfer(s, st)

            def _assign(self, target, tags, st, value=None):
                cur = outer._cur
                kind = "L" if isinstance(cur, (ast.For, ast.AsyncFor)) else "A"
                for n in ast.walk(target):
                    if isinstance(n, ast.Name) and isinstance(n.ctx, ast.Store):
                        st[n.id] = frozenset({f"{kind}@{getattr(cur, 'lineno', 0)}"})

        self._cur = None
        self.flow = _Flow(f.node, _Ev(), init={p: frozenset({"P@0"}) for p in f.params}, cfg=cfg_of(ctx, f))


def stale_loop_uses(ctx, f):
    """[(use node, name, defining loop line)]: loads, inside the body of a for loop, of a name whose EVERY reaching
    definition is the target of a different for loop that does not enclose the use."""
    df = _DefFlow(ctx, f)
    cfg = df.flow.cfg
    loops = {n.lineno: n for n in body_walk(f.node) if isinstance(n, (ast.For, ast.AsyncFor))}
    out = []

    def visit(stmt, n, st):
        if not (isinstance(n, ast.Name) and isinstance(n.ctx, ast.Load)):
            return
        defs = st.get(n.id)
        if not defs or not all(d.startswith("L@") for d in defs):
            return
        encl = [e for e in cfg.enclosing(stmt) if isinstance(e, (ast.For, ast.AsyncFor))]
        if isinstance(stmt, (ast.For, ast.AsyncFor)):
            encl = encl + [stmt] if any(n is x for x in ast.walk(stmt.target)) else encl
        if not encl:
            return  # using the last value after the loop is an idiom; only uses inside ANOTHER loop are judged
        lines = {int(d[2:]) for d in defs}
        if any(e.lineno in lines for e in encl):
            return  # bound by an enclosing loop: the normal case
        # "last value after the loop", used further down inside the SAME enclosing loop iteration, is an idiom
        for ln in lines:
            dl = loops.get(ln)
            if dl is not None and any(o in encl for o in cfg.enclosing(dl) if isinstance(o, (ast.For, ast.AsyncFor))):
                return
        # a comprehension may rebind the name locally
        out.append((n, n.id, sorted(lines)[0]))

    df.flow.visit(visit)
    # drop names that a comprehension inside the same statement binds
    res = []
    for n, name, line in out:
        res.append((n, name, line))
    return res


def r25_5(ctx):
    rr = RuleResult("R25.5", "COVER", "in the store/load-back code every per-array quantity used inside a loop (region, target, slices) is bound by that loop, never left over from an earlier loop", min_instances=1)
    repo = ctx.repo
    for modname in ("dask_array.io._store", "dask_array.io._to_npy_stack"):
        m = repo.module(modname)
        if m is None:
            continue
        for f in m.functions.values():
            nloops = sum(1 for n in body_walk(f.node) if isinstance(n, (ast.For, ast.AsyncFor)))
            if not nloops:
                continue
            uses = stale_loop_uses(ctx, f)
            # comprehension targets shadow: ignore loads that sit inside a comprehension binding that name
            comp = set()
            for c in ast.walk(f.node):
                if isinstance(c, (ast.ListComp, ast.SetComp, ast.DictComp, ast.GeneratorExp)):
                    bound = {t.id for g in c.generators for t in ast.walk(g.target) if isinstance(t, ast.Name)}
                    for x in ast.walk(c):
                        if isinstance(x, ast.Name) and x.id in bound:
                            comp.add(id(x))
            uses = [(n, name, line) for n, name, line in uses if id(n) not in comp]
            rr.inst(f.construct, loops=nloops, stale_uses=len(uses))
            for n, name, line in uses:
                ctx.finding(
                    rr, f"{f.construct}::{name}",
                    f"{f.qualname} uses {name!r} at line {n.lineno} inside a loop, but its only binding is the target of the earlier loop at line {line}: every iteration sees that loop's LAST "
                    f"value (e.g. the last pair's region), so all but the last array are read back / written through the wrong region",
                    func=f, node=n,
                )
    return rr


def r25_6(ctx):
    rr = RuleResult("R25.6", "COVER", "a store node is identified by WHICH target object it writes: its name carries id(target), and the Blockwise token (what parents and dask.compute's finalize node see) covers that name", min_instances=2)
    repo = ctx.repo
    f = repo.mod("dask_array.io._store").functions.get("store")
    need(f is not None, "dask_array/io/_store.py::store")
    calls = [n for n in body_walk(f.node) if isinstance(n, ast.Call) and (dotted(n.func) or "").rsplit(".", 1)[-1] == "map_blocks" and n.args and (dotted(n.args[0]) or "") == "load_store_chunk"]
    need(calls, "the map_blocks(load_store_chunk, ...) call in store")
    for c in calls:
        target = c.args[2] if len(c.args) > 2 else None
        kws = {k.arg: k.value for k in c.keywords if k.arg}
        ident = None
        for key in ("name", "token"):
            v = kws.get(key)
            if v is not None and target is not None:
                from ..dataflow import Defs

                defs = Defs(f.node)
                exprs, seen_n = [v], set()
                for _ in range(3):
                    for e in list(exprs):
                        for nm in [x.id for x in ast.walk(e) if isinstance(x, ast.Name) and x.id not in seen_n and x.id in f.local_names]:
                            seen_n.add(nm)
                            exprs.extend(defs.defs.get(nm, []))
                for e in exprs:
                    for x in ast.walk(e):
                        if isinstance(x, ast.Call) and dotted(x.func) == "id" and x.args and unparse(x.args[0]) == unparse(target):
                            ident = key
        cst = site(f, c)[:120]
        rr.inst(cst, target=unparse(target) if target is not None else None, identity_in=ident)
        if ident is None:
            ctx.finding(
                rr, cst,
                f"the store node for target {unparse(target) if target is not None else '?'} is named/tokenized by content only: two distinct targets that currently hold equal data (two fresh "
                f"np.zeros buffers) give identical nodes, de-duplication by name keeps one, and the other target is never written",
                func=f, node=c,
            )
    from ..namedeps import ALL, token_deps

    bw = repo.find_class("Blockwise")
    td = token_deps(repo, bw)
    ok = ALL in td or "name" in td
    rr.inst(f"{bw.construct}::token covers name", covered=ok)
    if not ok:
        tok = bw.methods.get("__dask_tokenize__")
        ctx.finding(
            rr, f"{bw.construct}::token covers name",
            "Blockwise.__dask_tokenize__ does not cover the `name` operand although Blockwise._name (its keys) does: two store nodes that differ only in their identity-carrying name look identical "
            "to their parents (dask.compute's finalize node), which are then de-duplicated, and one write is dropped",
            func=tok, node=tok.node if tok else None,
        )
    return rr


LOCAL_SCHEDULER_NAMES = {"sync", "synchronous", "single-threaded", "threads", "threading"}  # run tasks in this process against the real target


def r25_4(ctx):
    rr = RuleResult("R25.4", "REF", "store treats only in-process schedulers (sync/threads) as able to write into the caller's in-memory target", min_instances=1)
    repo = ctx.repo
    m = repo.mod("dask_array.io._store")
    f = m.functions.get("_nonlocal_scheduler_active")
    need(f is not None, "dask_array/io/_store.py::_nonlocal_scheduler_active")
    tests = [n for n in body_walk(f.node) if isinstance(n, ast.Compare) and any(isinstance(op, (ast.In, ast.NotIn)) for op in n.ops)]
    need(tests, "membership test on the scheduler name in _nonlocal_scheduler_active")
    for t in tests:
        cont = t.comparators[0]
        names = None
        if isinstance(cont, ast.Name):
            r = repo.resolve_name(cont.id, m, f)
            if r and r[0] == "value":
                v = r[1][0].assigns.get(r[1][1])
                if isinstance(v, ast.Call) and v.args:
                    v = v.args[0]
                names = const_value(v) if v is not None else None
        else:
            names = const_value(cont)
        cst = site(f, t)[:150]
        rr.inst(cst, container=unparse(cont), names=sorted(names) if isinstance(names, (set, frozenset, list, tuple)) else None)
        if not isinstance(names, (set, frozenset, list, tuple)):
            ctx.finding(rr, cst, f"the set of scheduler names treated as local ({unparse(cont)}) is not a literal the checker can read (e.g. dask's named_schedulers, which includes process pools): a process-pool scheduler pickles the target and writes to a copy", func=f, node=t)
            continue
        extra = sorted(set(names) - LOCAL_SCHEDULER_NAMES)
        if extra:
            ctx.finding(rr, cst, f"scheduler name(s) {extra} are treated as local by store, but only {sorted(LOCAL_SCHEDULER_NAMES)} run tasks in the caller's process: writes would land in a pickled copy of the target", func=f, node=t)
    return rr


def _name_template(e):
    """A file-name expression as a template string with ``{}`` for every interpolated value, whatever its spelling
    (f-string, %-format, str() concatenation, .format); None when not recognised."""
    if isinstance(e, ast.Constant) and isinstance(e.value, str):
        return e.value
    if isinstance(e, ast.JoinedStr):
        out = ""
        for v in e.values:
            if isinstance(v, ast.Constant):
                out += str(v.value)
            elif isinstance(v, ast.FormattedValue):
                spec = unparse(v.format_spec) if v.format_spec is not None else ""
                out += "{" + (spec.strip("f'\"") if spec.strip("f'\"") not in ("", "d", "s") else "") + "}"
        return out
    if isinstance(e, ast.BinOp) and isinstance(e.op, ast.Mod) and isinstance(e.left, ast.Constant) and isinstance(e.left.value, str):
        import re

        return re.sub(r"%(\d*)[dsi]", lambda m: "{" + (m.group(1) and (":" + m.group(1)) or "") + "}", e.left.value)
    if isinstance(e, ast.BinOp) and isinstance(e.op, ast.Add):
        l, r = _name_template(e.left), _name_template(e.right)
        return None if l is None or r is None else l + r
    if isinstance(e, ast.Call) and dotted(e.func) == "str" and len(e.args) == 1:
        return "{}"
    if isinstance(e, ast.Call) and isinstance(e.func, ast.Attribute) and e.func.attr == "format" and isinstance(e.func.value, ast.Constant):
        import re

        return re.sub(r"\{[^}:]*(:[^}]*)?\}", lambda m: "{" + ((m.group(1) or "") if (m.group(1) or "") not in (":d", ":s") else "") + "}", e.func.value.value)
    return None


def _join_leaf(e):
    """The file-name part of os.path.join(dirname, <name>)."""
    if isinstance(e, ast.Call) and (dotted(e.func) or "").endswith("path.join") and len(e.args) >= 2:
        return e.args[-1]
    return None


def r25_7(ctx):
    rr = RuleResult("R25.7", "COVER", "the npy-stack writer and reader agree on their tables: every key the reader takes from the info record is written, the info file and the per-block files have the same name templates on both sides, and the writer merges every non-stack axis into one block", min_instances=5)
    repo = ctx.repo
    w = repo.mod("dask_array.io._to_npy_stack").func("to_npy_stack")
    rm = repo.mod("dask_array.io._from_npy_stack")
    rc = rm.cls("FromNpyStack")
    # (a) keys - the record may be written by to_npy_stack itself or by a module-local helper it hands the record to
    from .common import with_helpers

    wfuncs = with_helpers(w, depth=1)

    def dict_keys_of(e, f, depth=2):
        """Constant keys of the dict that expression ``e`` (in function f) denotes: a literal, a local bound to a
        literal, or a parameter whose argument at f's call sites in to_npy_stack is one."""
        if isinstance(e, ast.Dict):
            return {k.value for k in e.keys if isinstance(k, ast.Constant)}
        if isinstance(e, ast.Call) and dotted(e.func) == "dict" and not e.args:
            return {k.arg for k in e.keywords if k.arg}
        if isinstance(e, ast.Name) and depth:
            out = set()
            for n in body_walk(f.node):
                if isinstance(n, ast.Assign) and any(isinstance(t, ast.Name) and t.id == e.id for t in n.targets):
                    out |= dict_keys_of(n.value, f, depth - 1)
            formals = [a.arg for a in f.node.args.args]
            if e.id in formals and f is not w:
                i = formals.index(e.id)
                for n in body_walk(w.node):
                    if isinstance(n, ast.Call) and dotted(n.func) == f.name:
                        a = n.args[i] if i < len(n.args) else next((k.value for k in n.keywords if k.arg == e.id), None)
                        if a is not None:
                            out |= dict_keys_of(a, w, depth - 1)
            return out
        return set()

    written = set()
    for f in wfuncs:
        for n in body_walk(f.node):
            if isinstance(n, ast.Call) and (dotted(n.func) or "").endswith("pickle.dump") and n.args:
                written |= dict_keys_of(n.args[0], f)
    need(written, "to_npy_stack writes an info record (dict handed to pickle.dump)")
    read = {}
    for f in rc.methods.values():
        aliases = {"self._info"}
        for n in body_walk(f.node):
            if isinstance(n, ast.Assign) and unparse(n.value) == "self._info":
                aliases |= {unparse(t) for t in n.targets}
        for n in body_walk(f.node):
            if isinstance(n, ast.Subscript) and unparse(n.value) in aliases and isinstance(n.slice, ast.Constant):
                read.setdefault(n.slice.value, f)
            if isinstance(n, ast.Call) and isinstance(n.func, ast.Attribute) and n.func.attr == "get" and unparse(n.func.value) in aliases and n.args and isinstance(n.args[0], ast.Constant):
                read.setdefault(n.args[0].value, f)
    need(read, "FromNpyStack reads keys of its info record")
    for k, f in sorted(read.items()):
        c = f"{rc.construct}::info[{k!r}]"
        rr.inst(c, written=k in written, read_in=f.qualname)
        if k not in written:
            ctx.finding(rr, c, f"the npy-stack reader takes info[{k!r}] but to_npy_stack writes only {sorted(written)}: reading a written stack back fails or uses a stale default", func=f)
    # (b) file names
    def leafs(fnode, callee_tail):
        out = []
        for n in ast.walk(fnode):
            if isinstance(n, (ast.Call, ast.Tuple)):
                elts = n.args if isinstance(n, ast.Call) else n.elts
                head = n.func if isinstance(n, ast.Call) else (n.elts[0] if n.elts else None)
                if head is not None and (dotted(head) or "").endswith(callee_tail):
                    for a in elts:
                        leaf = _join_leaf(a)
                        if leaf is not None:
                            out.append(leaf)
        return out

    w_info = [l for f in wfuncs for n in ast.walk(f.node) if isinstance(n, ast.Call) and dotted(n.func) == "open" and n.args for l in [_join_leaf(n.args[0])] if l is not None]
    r_info = [l for f in rc.methods.values() for n in ast.walk(f.node) if isinstance(n, ast.Call) and dotted(n.func) == "open" and n.args for l in [_join_leaf(n.args[0])] if l is not None]
    w_blk = [l for f in wfuncs for l in leafs(f.node, "np.save")]
    r_blk = [l for f in rc.methods.values() for l in leafs(f.node, "np.load")]
    need(w_info and r_info and w_blk and r_blk, "npy-stack file-name expressions (open(join(dirname, ...)), np.save / np.load tasks)")
    for what, ws, rs in (("info file", w_info, r_info), ("block file", w_blk, r_blk)):
        wt, rt = {_name_template(x) for x in ws}, {_name_template(x) for x in rs}
        c = f"{w.construct}::{what} name"
        rr.inst(c, writer=sorted(map(str, wt)), reader=sorted(map(str, rt)))
        if None in wt or None in rt:
            ctx.finding(rr, c, f"the {what} name is built in a form the rule does not recognise (writer {[unparse(x) for x in ws]}, reader {[unparse(x) for x in rs]})", func=w)
        elif wt != rt:
            ctx.finding(rr, c, f"the npy-stack writer names the {what} {sorted(wt)} and the reader opens {sorted(rt)}: the round trip cannot find what was written", func=w)
    # (c) one block per non-stack axis: the writer's rechunk target keeps the axis' own chunks and sum()s the others
    tgt = [n for n in body_walk(w.node) if isinstance(n, ast.Assign) and any(unparse(t) == "chunks" for t in n.targets)]
    need(tgt, "to_npy_stack computes its rechunk target `chunks`")
    v = tgt[0].value
    ok = False
    for g in ast.walk(v):
        if isinstance(g, ast.IfExp):
            from ..refguards import _nnf

            t = unparse(_nnf(g.test))
            body, other = (g.body, g.orelse) if t in ("i == axis", "axis == i") else ((g.orelse, g.body) if t in ("i != axis", "axis != i") else (None, None))
            if body is not None and unparse(body) == "c" and "sum(c)" in unparse(other):
                ok = True
    rr.inst(site(w, tgt[0])[:150], merges_other_axes=ok)
    if not ok:
        ctx.finding(rr, site(w, tgt[0])[:150], "to_npy_stack no longer rechunks every non-stack axis to a single block: one file per stack block would hold only part of the slab and the reader's key/file zip misaligns", func=w, node=tgt[0])
    saved = [n for n in body_walk(w.node) if isinstance(n, ast.Call) and dotted(n.func) == "rechunk"]
    rr.inst(w.construct + "::rechunk(x, chunks)", present=bool(saved), info_chunks=next((unparse(vv) for n in body_walk(w.node) if isinstance(n, ast.Dict) for k, vv in zip(n.keys, n.values) if isinstance(k, ast.Constant) and k.value == "chunks"), None))
    if not saved or not any(len(n.args) >= 2 and unparse(n.args[1]) == "chunks" for n in saved):
        ctx.finding(rr, w.construct + "::rechunk(x, chunks)", "the array written by to_npy_stack is not rechunked to the layout recorded in the info record", func=w)
    for n in body_walk(w.node):
        if isinstance(n, ast.Dict):
            for k, vv in zip(n.keys, n.values):
                if isinstance(k, ast.Constant) and k.value == "chunks" and unparse(vv) != "chunks":
                    ctx.finding(rr, w.construct + "::info['chunks']", f"the info record stores chunks={unparse(vv)}, not the layout the blocks are written in", func=w, node=n)
                if isinstance(k, ast.Constant) and k.value == "axis" and unparse(vv) != "axis":
                    ctx.finding(rr, w.construct + "::info['axis']", f"the info record stores axis={unparse(vv)}, not the stack axis", func=w, node=n)
    return rr


RULES = [r25_1, r25_2, r25_3, r25_4, r25_5, r25_6, r25_7]

LEVEL_TEXT = (
    "Static decision of the structural clauses of C25: the per-block target-slice literals of da.store are computed from a "
    "layout-pinned source (the clause whose violation was a genuine defect, fixed in /repo), the store kernel's only "
    "writes are out[index] under the x-is-not-None guard with index composed only through fuse_slice(region, index), and "
    "the lock is released on every exit (CFG with try/finally and exceptional edges). Which values land where "
    "(fuse_slice arithmetic) is not decided. For the npy-stack round trip the writer's and the reader's tables agree (info keys, "
    "file-name templates, one block per non-stack axis, recorded layout = written layout)."
)
LEVEL_NOTE = "Trusted: CPython ast, engine CFG incl. exceptional edges, alias analysis. Assumes third-party targets implement __setitem__ faithfully."
TECHNIQUE = "static analysis: payload-layout must-pass rule + effect analysis of the store kernel + acquire/release pairing on the CFG + writer/reader table agreement (ast)"

import numpy as np, random, warnings, sys
warnings.simplefilter("ignore")
import dask, dask_array as da
seed=int(sys.argv[1]) if len(sys.argv)>1 else 0
random.seed(seed); rs=np.random.RandomState(seed); bad=0
def rslice(s):
    return random.choice([slice(None), slice(1,None), slice(None,-1), slice(None,None,2), slice(None,None,-1), slice(s-1,0,-2), slice(0,0), slice(-2,None)])
for p in range(int(sys.argv[2]) if len(sys.argv)>2 else 200):
    shape = random.choice([(6,), (4,5), (3,4,2)])
    base = (np.arange(float(np.prod(shape))).reshape(shape) % 7) - 2
    n = base.copy()
    d = da.from_array(base, chunks=tuple(random.choice([1,2,3,s]) for s in shape))
    if random.random()<0.5: d = d+0
    snaps=[]; log=[]
    try:
        for step in range(random.randint(1,4)):
            op = random.choice(["slice_daskval","mask_dask","mask_dask_val","intarr","bcast_val","out_ufunc","where_out","neg","derive","row_daskval","list_key","maskaxis"])
            log.append(op)
            if op=="derive":
                snaps.append((d*2, n*2)); snaps.append((d[..., ::-1], n[..., ::-1].copy()))
            elif op=="slice_daskval":
                k = tuple(rslice(s) for s in shape)
                val = rs.randint(0,5,size=n[k].shape).astype(float)
                d[k] = da.from_array(val, chunks=random.choice([1,2,-1])); n[k]=val
            elif op=="row_daskval":
                i = random.randrange(shape[0]); val = rs.randint(0,5,size=n[i].shape).astype(float)
                d[i] = da.from_array(val, chunks=random.choice([1,-1])); n[i]=val
            elif op=="mask_dask":
                m = n>1; d[da.from_array(m, chunks=random.choice([1,2,-1]))] = -7.0; n[m] = -7.0
            elif op=="mask_dask_val":
                m = n>1
                val = rs.randint(0,5,size=n.shape).astype(float)
                dm = da.from_array(m, chunks=random.choice([1,2,-1]))
                d[dm] = da.from_array(val, chunks=2)[dm] if False else -1.5
                n[m] = -1.5
            elif op=="maskaxis":
                m = rs.rand(shape[0])>0.5
                d[da.from_array(m, chunks=random.choice([1,-1]))] = 3.5; n[m]=3.5
            elif op=="intarr":
                idx = rs.randint(0, shape[0], size=2)
                if len(set(idx.tolist()))<2: continue
                d[da.from_array(idx, chunks=1)] = 4.25; n[idx]=4.25
            elif op=="list_key":
                idx = sorted(set(rs.randint(0, shape[0], size=2).tolist()))
                val = rs.randint(0,5,size=n[idx].shape).astype(float)
                d[idx] = da.from_array(val, chunks=1); n[idx]=val
            elif op=="bcast_val":
                k = (slice(1,None),)+tuple(slice(None) for _ in shape[1:])
                val = rs.randint(0,5,size=n[k].shape[1:] or (1,)).astype(float)
                d[k] = da.from_array(val, chunks=1); n[k]=val
            elif op=="out_ufunc":
                o = d
                da.add(d, 1.0, out=o); n = n+1.0
            elif op=="where_out":
                da.multiply(d, 2.0, out=d, where=da.from_array(n>0, chunks=2)); n = np.where(n>0, n*2.0, n)
            elif op=="neg":
                k = tuple(slice(None,None,-1) for _ in shape); val=rs.randint(0,5,size=n.shape).astype(float)
                d[k] = da.from_array(val, chunks=2); n[k]=val
        got = d.compute()
        if got.shape!=n.shape or not np.allclose(got, n): bad+=1; print("MISMATCH target seed", seed, p, shape, d.chunks, log)
        for e, want in snaps:
            g = e.compute()
            if g.shape!=want.shape or not np.allclose(g, want): bad+=1; print("MISMATCH derived seed", seed, p, log); break
        if not np.allclose(base, (np.arange(float(np.prod(shape))).reshape(shape) % 7) - 2): bad+=1; print("SOURCE MUTATED", seed, p, log)
    except Exception as ex:
        bad+=1; print("RAISE seed", seed, p, shape, type(ex).__name__, str(ex)[:120], log)
print("bad", bad)

"""Facts about the installed upstream ``dask`` that the rules assume (DESIGN 2.5 (ii), section 5).

Re-derived from the installed source (parsed, never imported) in the thorough
tier.  A fact that no longer holds means the rules built on it cannot be
trusted: the run ends as ANALYSIS-ERROR (exit 2), not as a pass and not as a
violation of the repository.
"""

from __future__ import annotations

import ast

from ..model import AnalysisError, body_walk, dotted, unparse
from ..report import RuleResult


def _method(repo, cls_name, meth):
    m = repo.module("dask._expr")
    if m is None:
        raise AnalysisError("installed dask/_expr.py could not be located/parsed")
    c = m.classes.get(cls_name)
    if c is None or meth not in c.methods:
        raise AnalysisError(f"upstream anchor vanished: dask._expr.{cls_name}.{meth}")
    return c.methods[meth]


def upstream_facts(ctx):
    rr = RuleResult("U", "ASSUME", "facts about the installed dask.Expr machinery that the rules rely on still hold (parsed from the installed source)", min_instances=7)
    repo = ctx.repo

    def fact(fid, ok, what, f):
        rr.inst(f"dask/_expr.py::{f.qualname}::{fid}", holds=bool(ok), fact=what)
        if not ok:
            raise AnalysisError(f"upstream fact {fid} no longer holds in the installed dask ({f.module.path}): {what}")

    # U1 singleton dedup only without a custom __init__
    f = _method(repo, "SingletonExpr", "__new__")
    src = " ".join(unparse(n.test) for n in body_walk(f.node) if isinstance(n, ast.If))
    rets = [unparse(n.value) for n in body_walk(f.node) if isinstance(n, ast.Return) and n.value is not None]
    fact("U1", "_name in cls._instances" in src and "cls.__init__ == object.__init__" in src and any("cls._instances[" in r for r in rets),
         "SingletonExpr.__new__ hands back the registered instance of the same _name only when cls.__init__ is object.__init__ (R06.3 idiom A, R09.2)", f)
    # U2 only top-level operands are unpacked; _name is evaluated at construction
    f = _method(repo, "Expr", "__new__")
    assigns = [n for n in body_walk(f.node) if isinstance(n, ast.Assign) and any(unparse(t) == "inst.operands" for t in n.targets)]
    top_level = bool(assigns) and isinstance(assigns[0].value, ast.ListComp) and dotted(assigns[0].value.elt.func) == "_unpack_collections" if assigns and isinstance(assigns[0].value, ast.ListComp) and isinstance(assigns[0].value.elt, ast.Call) else False
    evaluates_name = any(isinstance(n, ast.Expr) and unparse(n.value) == "inst._name" for n in body_walk(f.node))
    m = repo.module("dask._expr")
    unpack = m.functions.get("_unpack_collections")
    flat = unpack is not None and not any(isinstance(n, (ast.For, ast.ListComp, ast.DictComp, ast.GeneratorExp, ast.While)) for n in ast.walk(unpack.node))
    fact("U2", top_level and evaluates_name and flat,
         "Expr.__new__ unpacks collections only at the top level of the operand list (not inside containers) and evaluates _name during construction (R11.7, R07.4)", f)
    # U3 attribute stores of parameter names write into operands
    f = _method(repo, "Expr", "__setattr__")
    fact("U3", any(isinstance(n, ast.Assign) and isinstance(n.targets[0], ast.Subscript) and unparse(n.targets[0].value) == "operands" for n in body_walk(f.node)),
         "Expr.__setattr__ writes operands[params.index(name)] (R06.4)", f)
    # U4 lower_once reads and writes the cache it is handed under self._name
    f = _method(repo, "Expr", "lower_once")
    p = [x for x in f.params if x != "self"][0]
    rets = [unparse(n.value) for n in body_walk(f.node) if isinstance(n, ast.Return) and n.value is not None]
    fact("U4", f"{p}[self._name]" in rets and any(r.startswith(f"{p}.setdefault(self._name") for r in rets),
         "Expr.lower_once looks self._name up in, and stores its result into, the mapping it is handed (R06.5, R09.1, R09.2)", f)
    # U5 _reconstruct rebuilds with the token and restores the cache
    f = _method(repo, "Expr", "_reconstruct")
    calls = [unparse(n) for n in body_walk(f.node) if isinstance(n, ast.Call)]
    stores = [n for n in body_walk(f.node) if isinstance(n, ast.Assign) and isinstance(n.targets[0], ast.Subscript) and unparse(n.targets[0].value) == "inst.__dict__"]
    fact("U5", any("_determ_token=token" in c for c in calls) and bool(stores),
         "Expr._reconstruct(type, *operands, token, cache) rebuilds with _determ_token=token and restores cache entries into __dict__ (R07.2)", f)
    # U6 default tokenizer covers the type and all operands and caches
    f = _method(repo, "Expr", "__dask_tokenize__")
    s = ast.get_source_segment(f.module.src, f.node) or ""
    fact("U6", "_tokenize_deterministic(type(self), *self.operands)" in s.replace("\n", " ") and "self._determ_token =" in s,
         "the default Expr.__dask_tokenize__ tokenizes type(self) and every operand and caches the token in _determ_token (R06.1, R07.3)", f)
    # U7 substitute_parameters rebuilds through the constructor
    f = _method(repo, "Expr", "substitute_parameters")
    fact("U7", any(unparse(n.value).startswith("type(self)(*") for n in body_walk(f.node) if isinstance(n, ast.Return) and n.value is not None),
         "Expr.substitute_parameters rebuilds the node with type(self)(*new_operands), keeping untouched operands verbatim (R06.7)", f)
    return rr

import importlib, pkgutil, inspect, sys
import dask_array
from dask_array._expr import ArrayExpr
mods=[]
for m in pkgutil.walk_packages(dask_array.__path__, 'dask_array.'):
    if '.tests' in m.name or m.name.endswith('_rust') : continue
    try:
        importlib.import_module(m.name)
    except Exception as e:
        print('IMPORTFAIL', m.name, type(e).__name__, e)
def subs(c):
    out=set()
    for s in c.__subclasses__():
        out.add(s); out|=subs(s)
    return out
cls=sorted(subs(ArrayExpr), key=lambda c:(c.__module__,c.__qualname__))
hooks=['_name','__dask_tokenize__','_lower','lower_once','_simplify_down','_simplify_up','_layer','_task','_frisky_layer','transfer_bytes','__init__','__new__','_accept_slice','_accept_shuffle','_accept_rechunk','chunks','_meta','dependencies','_requires_grid_preservation','__reduce__','_is_blockwise_fusable','_input_block_id']
print(len(cls))
for c in cls:
    if not c.__module__.startswith('dask_array'): continue
    own=[h for h in hooks if h in c.__dict__]
    print(f"{c.__module__}.{c.__qualname__} ({','.join(b.__name__ for b in c.__bases__)}) params={getattr(c,'_parameters',None)} :: {own}")

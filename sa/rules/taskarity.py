"""Writer/reader agreement between a task and the kernel it calls.

A graph task ``Task(key, f, a1, ..., an, k=v)`` (or the legacy tuple ``(f, a1, ..., an)`` stored as a graph value) is
executed as ``f(a1, ..., an, k=v)`` with every key reference replaced by the computed block.  When ``f`` is a function
defined in this package, the call either fits the ``def`` or raises ``TypeError`` on *every* execution of that task -
nothing about the values matters.  The writer is the ``_layer``/``_task`` body that builds the task, the reader is the
``def`` of the kernel; this rule checks that the two agree on

* the number of positional arguments (required <= given <= accepted, unless the task splats ``*args``), and
* every keyword the task passes (accepted by name or by ``**kwargs``).

Callees that cannot be resolved statically (``self.func``, parameters, lambdas, NumPy functions) are counted and left
undecided; ``operator.*`` callees are judged against the signatures of the verifier's own standard library.
"""

from __future__ import annotations

import ast
import inspect
import operator

from ..model import AnalysisError, FuncInfo, full_walk, unparse
from ..report import RuleResult

# decorators that leave the call signature of the decorated kernel unchanged
SIGNATURE_PRESERVING = {"staticmethod", "derived_from", "wraps", "functools.wraps", "njit", "jit"}

_POSITIVE_EXAMPLE = '''
def kernel(arrays):
    return arrays

def build(key, keys, shape):
    return {key: Task(key, kernel, List(*keys), shape)}
'''


def _is_task_ctor(call: ast.Call) -> bool:
    f = call.func
    return (isinstance(f, ast.Name) and f.id == "Task") or (isinstance(f, ast.Attribute) and f.attr == "Task")


def _graph_value_tuples(func_node):
    """Tuples stored as graph values: dict-literal / dict-comprehension values and ``d[k] = (f, ...)`` stores,
    plus tuples nested directly inside such a tuple (legacy nested tasks)."""
    seeds = []
    for n in full_walk(func_node):
        if isinstance(n, ast.Dict):
            seeds += [v for v in n.values if isinstance(v, ast.Tuple)]
        elif isinstance(n, ast.DictComp) and isinstance(n.value, ast.Tuple):
            seeds.append(n.value)
        elif isinstance(n, ast.Assign) and isinstance(n.value, ast.Tuple) and any(isinstance(t, ast.Subscript) for t in n.targets):
            seeds.append(n.value)
    out, seen = [], set()
    while seeds:
        t = seeds.pop()
        if id(t) in seen:
            continue
        seen.add(id(t))
        out.append(t)
        seeds += [e for e in t.elts[1:] if isinstance(e, ast.Tuple)]
    return out


def _def_arity(fi: FuncInfo):
    a = fi.node.args
    names = [x.arg for x in a.posonlyargs + a.args]
    npos = len(names)
    nreq = npos - len(a.defaults)
    if fi.kind == "classmethod":  # reached through the class: cls is already bound
        names, npos, nreq = names[1:], npos - 1, max(nreq - 1, 0)
    kwonly = [x.arg for x in a.kwonlyargs]
    kwonly_req = [x.arg for x, d in zip(a.kwonlyargs, a.kw_defaults) if d is None]
    return {
        "names": names,
        "posonly": len(a.posonlyargs),
        "required": nreq,
        "accepted": npos,
        "vararg": a.vararg is not None,
        "kwarg": a.kwarg is not None,
        "kwonly": kwonly,
        "kwonly_required": kwonly_req,
    }


def _operator_arity(dotted_name):
    if not dotted_name.startswith("operator."):
        return None
    fn = getattr(operator, dotted_name.split(".", 1)[1], None)
    if fn is None:
        return None
    try:
        sig = inspect.signature(fn)
    except (TypeError, ValueError):
        return None
    ps = list(sig.parameters.values())
    if any(p.kind in (p.VAR_POSITIONAL, p.VAR_KEYWORD) for p in ps):
        return None
    pos = [p for p in ps if p.kind in (p.POSITIONAL_ONLY, p.POSITIONAL_OR_KEYWORD)]
    return {
        "names": [p.name for p in pos if p.kind == p.POSITIONAL_OR_KEYWORD],
        "posonly": sum(1 for p in pos if p.kind == p.POSITIONAL_ONLY),
        "required": sum(1 for p in pos if p.default is p.empty),
        "accepted": len(pos),
        "vararg": False,
        "kwarg": False,
        "kwonly": [],
        "kwonly_required": [],
    }


def _decorators_ok(fi: FuncInfo):
    for d in fi.node.decorator_list:
        target = d.func if isinstance(d, ast.Call) else d
        name = unparse(target)
        if name not in SIGNATURE_PRESERVING and name.split(".")[-1] not in SIGNATURE_PRESERVING:
            return False
    return True


def _ambiguous_binding(repo, fi: FuncInfo):
    """More than one module-level binding of the kernel's name (conditional definitions, reassignment)."""
    m = fi.module
    if "." in fi.qualname:
        return False

    def module_level_defs(body):
        for s in body:
            if isinstance(s, (ast.FunctionDef, ast.AsyncFunctionDef)):
                if s.name == fi.qualname:
                    yield s
            elif isinstance(s, (ast.If, ast.Try, ast.With)):
                for part in ("body", "orelse", "finalbody"):
                    yield from module_level_defs(getattr(s, part, []) or [])
                for h in getattr(s, "handlers", []) or []:
                    yield from module_level_defs(h.body)

    return len(list(module_level_defs(m.tree.body))) > 1 or fi.qualname in m.assigns


def judge(ar, n_given, star, kw_names, kw_star):
    """Return a reason string when a call with ``n_given`` positionals and ``kw_names`` keywords cannot bind."""
    if not star:
        if n_given > ar["accepted"] and not ar["vararg"]:
            return f"passes {n_given} positional argument(s) but the kernel accepts at most {ar['accepted']}"
    bound_by_kw = set()
    for k in kw_names:
        if k == "_data_producer":  # Task's own keyword
            continue
        if k in ar["names"][ar["posonly"]:] or k in ar["kwonly"]:
            bound_by_kw.add(k)
            if not star and k in ar["names"][:n_given]:
                return f"keyword {k!r} is also bound positionally"
        elif not ar["kwarg"]:
            return f"passes keyword {k!r} which the kernel does not accept"
    if not star and not kw_star:
        missing = [p for i, p in enumerate(ar["names"]) if i >= n_given and i < ar["required"] and p not in bound_by_kw]
        if missing:
            return f"passes {n_given} positional argument(s) but the kernel requires {ar['required']} ({', '.join(missing)} unbound)"
        mk = [k for k in ar["kwonly_required"] if k not in bound_by_kw]
        if mk:
            return f"does not pass required keyword-only argument(s) {', '.join(mk)}"
    return None


def _sites(repo, f: FuncInfo):
    """Yield (node, callee_expr, positional_arg_nodes, keywords, form)."""
    for n in full_walk(f.node):
        if isinstance(n, ast.Call) and _is_task_ctor(n) and len(n.args) >= 2 and not isinstance(n.args[0], ast.Starred) and not isinstance(n.args[1], ast.Starred):
            yield n, n.args[1], n.args[2:], n.keywords, "Task"
    for t in _graph_value_tuples(f.node):
        if len(t.elts) >= 1 and isinstance(t.elts[0], (ast.Name, ast.Attribute)):
            yield t, t.elts[0], t.elts[1:], [], "tuple"


def scan_function(repo, f: FuncInfo):
    """Return list of dicts describing every task site in ``f`` (decided or not)."""
    out = []
    for node, callee, pos, kws, form in _sites(repo, f):
        rec = {"node": node, "callee": unparse(callee)[:60], "form": form, "decided": False, "reason": None, "why_undecided": None}
        out.append(rec)
        r = repo.resolve_expr(callee, f.module, f) if isinstance(callee, (ast.Name, ast.Attribute)) else None
        for _ in range(4):  # module-level alias ``name = other`` (bound exactly once)
            if r is None or r[0] != "value":
                break
            am, an = r[1]
            val = am.assigns.get(an)
            n_bind = sum(1 for s in ast.walk(am.tree) if isinstance(s, ast.Name) and s.id == an and isinstance(s.ctx, ast.Store))
            if n_bind != 1 or not isinstance(val, (ast.Name, ast.Attribute)):
                break
            r = repo.resolve_expr(val, am, None)
        if r is None:
            rec["why_undecided"] = "callee is not a statically resolvable name" if form == "Task" else None
            if form == "tuple":
                out.pop()  # an unresolved head makes the tuple a plain tuple as far as we can tell
            continue
        if r[0] == "func":
            fi = r[1]
            if form == "tuple" and fi.kind not in ("function", "staticmethod"):
                out.pop()
                continue
            if not _decorators_ok(fi):
                rec["why_undecided"] = "kernel is decorated by something that may change its signature"
                continue
            if _ambiguous_binding(repo, fi):
                rec["why_undecided"] = "kernel name is bound more than once in its module"
                continue
            ar = _def_arity(fi)
            rec["kernel"] = fi.construct
        elif r[0] == "ext":
            ar = _operator_arity(r[1])
            if ar is None:
                if form == "tuple":
                    out.pop()
                else:
                    rec["why_undecided"] = f"external callee {r[1]} (signature not available to the analysis)"
                continue
            rec["kernel"] = r[1]
        else:
            if form == "tuple":
                out.pop()
            else:
                rec["why_undecided"] = f"callee resolves to a {r[0]}"
            continue
        star = any(isinstance(a, ast.Starred) for a in pos)
        n_given = sum(1 for a in pos if not isinstance(a, ast.Starred))
        kw_names = [k.arg for k in kws if k.arg is not None]
        kw_star = any(k.arg is None for k in kws)
        rec["decided"] = True
        rec["given"] = n_given
        rec["arity"] = (ar["required"], ar["accepted"], ar["vararg"])
        rec["reason"] = judge(ar, n_given, star, kw_names, kw_star)
    return out


def self_check():
    """The matcher must still recognise its own positive example (a two-argument task for a one-parameter kernel)."""
    import os
    import tempfile

    from ..model import Repo

    with tempfile.TemporaryDirectory() as d:
        os.makedirs(os.path.join(d, "dask_array"))
        with open(os.path.join(d, "dask_array", "__init__.py"), "w") as fh:
            fh.write(_POSITIVE_EXAMPLE)
        try:
            repo = Repo(d)
            f = repo.mod("dask_array").func("build")
            recs = scan_function(repo, f)
        except Exception as e:  # pragma: no cover - reported as analysis error
            raise AnalysisError(f"task-arity positive example could not be analysed: {e}")
    bad = [r for r in recs if r["decided"] and r["reason"]]
    if len(bad) != 1:
        raise AnalysisError("task-arity matcher no longer recognises its own positive example")
    return len(bad)


def task_arity_rule(ctx, rule_id, statement, in_scope, min_decided, consequence):
    rr = RuleResult(rule_id, "COVER", statement, min_instances=1)
    rr.inst("positive-example", matched=self_check())
    decided = undecided = 0
    for f in ctx.repo.all_functions():
        if not in_scope(f.module.relpath):
            continue
        for rec in scan_function(ctx.repo, f):
            cst = f"{f.construct}::{rec['form']}({rec['callee']})"
            if not rec["decided"]:
                undecided += 1
                continue
            decided += 1
            rr.inst(cst, kernel=rec["kernel"], positional=rec["given"], kernel_required_accepted_varargs=list(rec["arity"]))
            if rec["reason"]:
                ctx.finding(rr, cst, f"the task calling {rec['callee']} ({rec['kernel']}) {rec['reason']}: {consequence}", func=f, node=rec["node"])
    rr.notes.append(f"{decided} task sites with a statically resolved kernel judged; {undecided} with a dynamic/external callee left undecided")
    if decided < min_decided:
        raise AnalysisError(f"anchor vanished: only {decided} task sites with a resolvable kernel in scope (expected >= {min_decided})")
    return rr


# -- kernels handed to the blockwise family -----------------------------------------------------------------------
# wrapper construct -> (index of the first operand argument, operands come in (array, index) pairs?, names the wrapper binds itself)
BLOCK_WRAPPERS = {
    "dask_array/core/_blockwise_funcs.py::blockwise": (2, True, frozenset()),
    "dask_array/core/_blockwise_funcs.py::elemwise": (1, False, frozenset()),
    "dask_array/_map_blocks.py::map_blocks": (1, False, frozenset({"block_info", "block_id"})),
}


def _wrapper_reserved(fi: FuncInfo):
    a = fi.node.args
    return {x.arg for x in a.kwonlyargs} | {x.arg for x in a.posonlyargs + a.args}


def scan_wrapper_calls(repo, f: FuncInfo):
    out = []
    for c in full_walk(f.node):
        if not isinstance(c, ast.Call) or not isinstance(c.func, (ast.Name, ast.Attribute)) or not c.args:
            continue
        r = repo.resolve_expr(c.func, f.module, f)
        if not r or r[0] != "func" or r[1].construct not in BLOCK_WRAPPERS:
            continue
        w = r[1]
        first, paired, auto = BLOCK_WRAPPERS[w.construct]
        head = c.args[0]
        if isinstance(head, ast.Starred) or len(c.args) < first:
            continue
        k = repo.resolve_expr(head, f.module, f) if isinstance(head, (ast.Name, ast.Attribute)) else None
        if not k or k[0] != "func":
            continue
        fi = k[1]
        rec = {"node": c, "wrapper": w.name, "callee": unparse(head)[:60], "kernel": fi.construct, "decided": False}
        out.append(rec)
        if fi.kind not in ("function", "staticmethod") or not _decorators_ok(fi) or _ambiguous_binding(repo, fi):
            continue
        if any(isinstance(a, ast.Starred) for a in c.args[:first]):
            continue
        rest = c.args[first:]
        star = any(isinstance(a, ast.Starred) for a in rest)
        plain = [a for a in rest if not isinstance(a, ast.Starred)]
        n_given = len(plain) // 2 if paired else len(plain)
        reserved = _wrapper_reserved(w)
        ar = _def_arity(fi)
        kw_names = [x.arg for x in c.keywords if x.arg is not None and x.arg not in reserved]
        kw_names += [a for a in auto if (a in ar["names"] or a in ar["kwonly"]) and a not in kw_names]
        kw_star = any(x.arg is None for x in c.keywords)
        rec.update(decided=True, given=n_given, arity=(ar["required"], ar["accepted"], ar["vararg"]), keywords=kw_names,
                   reason=judge(ar, n_given, star, kw_names, kw_star))
    return out


def wrapper_arity_rule(ctx, rule_id, statement, min_decided, consequence):
    rr = RuleResult(rule_id, "COVER", statement, min_instances=1)
    for w in BLOCK_WRAPPERS:
        rel, name = w.split("::")
        m = ctx.repo.module(rel[:-3].replace("/", "."))
        if m is None or name not in m.functions:
            raise AnalysisError(f"anchor vanished: {w}")
        a = m.functions[name].node.args
        if a.vararg is None or a.kwarg is None:
            raise AnalysisError(f"{w} no longer takes (*args, **kwargs): the binding convention this rule encodes has changed")
    decided = 0
    for f in ctx.repo.all_functions():
        if "/tests/" in f.module.relpath:
            continue
        for rec in scan_wrapper_calls(ctx.repo, f):
            if not rec["decided"]:
                continue
            decided += 1
            cst = f"{f.construct}::{rec['wrapper']}({rec['callee']})"
            rr.inst(cst, kernel=rec["kernel"], blocks=rec["given"], keywords=rec["keywords"], kernel_required_accepted_varargs=list(rec["arity"]))
            if rec["reason"]:
                ctx.finding(rr, cst, f"{rec['wrapper']}() hands {rec['callee']} ({rec['kernel']}) one block per operand and its extra keywords, but the call {rec['reason']}: {consequence}", func=f, node=rec["node"])
    rr.notes.append(f"{decided} blockwise/elemwise/map_blocks calls with a statically resolved kernel judged")
    if decided < min_decided:
        raise AnalysisError(f"anchor vanished: only {decided} blockwise-family calls with a resolvable kernel (expected >= {min_decided})")
    return rr

#!/venv/bin/python
"""(Re)generate /verif/fixtures/ref_guards.json from the current /repo tree.

Run ONLY on a tree whose guards have been confirmed by reading (the reference); the checks never
write this file.  Selection criteria per property are below; every entry carries the human-readable
guard text so that a reviewer can confirm it.
"""
import ast
import json
import os
import sys

HERE = os.path.dirname(os.path.dirname(os.path.abspath(__file__)))
sys.path.insert(0, HERE)
from sa.model import Repo, body_walk, unparse  # noqa: E402
from sa.refguards import FIXTURE, guard_instances  # noqa: E402

repo = Repo()
out = {}


def add(prop, f, kinds, pred=None, extra=None, why=""):
    for g in guard_instances(f, kinds=kinds, extra=extra):
        if pred is not None and not pred(g.stmt, g.exit, g.text):
            continue
        e = {"func": f.fq, **g.to_json(), "why": why}
        if e not in out.setdefault(prop, []):
            out[prop].append(e)


# ---- C28: refusal guards for unknown chunk sizes --------------------------------------------------
import re

NAN_IDENT = re.compile(r"\b(isnan|nan|has_nan|equal_nan)\b")
MSG = ("unknown_chunk_message", "chunk sizes are unknown", "unknown chunk", "chunks are unknown", "compute_chunk_sizes", "unknown chunks", "chunk size or shape is unknown")
C28_EXCLUDE = {
    "svg": "display helper", "nanmin": "value-level NaN handling", "nanmax": "value-level NaN handling", "nanarg_agg": "value-level NaN handling",
    "Array.__setitem__": None,  # handled per guard below
    "merge_percentiles": "value-level", "auto_chunks": "chunk-spec validation (C16)", "normalize_chunks": "chunk-spec validation (C16)",
    "blockdims_from_blockshape": "chunk-spec validation (C16)", "to_zarr": "storage front-end validation",
}


def c28_pred(f):
    def pred(s, ek, text):
        if f.name.endswith("_frisky_layer"):
            return False  # records-path declines belong to C21
        positive = [part for part in text.split(" AND ") if not part.startswith("(not ")]
        mentions = any(NAN_IDENT.search(part) for part in positive)
        msg = unparse(s).lower()
        by_msg = any(w in msg for w in MSG)
        if not (mentions or by_msg):
            return False
        if f.qualname in C28_EXCLUDE and C28_EXCLUDE[f.qualname] is not None:
            return False
        if f.qualname == "Array.__setitem__" and "value" in text and "self.shape" not in text:
            return False  # NaN *values* assigned to integer arrays, not unknown sizes
        return True

    return pred


for m in repo.units:
    for f in m.functions.values():
        if f.parent is not None:
            continue
        add("C28", f, ("raise",), pred=c28_pred(f), why="refuses an operation that needs chunk sizes that are still unknown")
ex = repo.mod("dask_array._expr")
add("C28", ex.func("unify_chunks_expr"), (), extra=lambda s: isinstance(s, ast.Assign) and unparse(s.targets[0]) == "a" and "rechunk" in unparse(s.value),
    why="unification never rechunks a known layout to an unknown one")

# ---- C17: unification policy ----------------------------------------------------------------------
u = ex.func("unify_chunks_expr")
add("C17", u, (), extra=lambda s: isinstance(s, (ast.Assign,)) and unparse(s.targets[0]).split("[")[0] in ("chunkss", "fine", "consolidate", "limit", "a", "changed"),
    why="every store to the unified layout / rechunk of an operand keeps its controlling conditions")
add("C17", u, ("return", "raise", "continue"), why="early exits of unification")
for fn in ("coarse_blockdim",):
    add("C17", ex.func(fn), ("return", "raise"), why="coarsest-layout choice and its fallbacks")
add("C17", repo.mod("dask_array._core_utils").func("common_blockdim"), ("return", "raise"), why="finest common refinement and its refusals")

# ---- C27: estimates ---------------------------------------------------------------------------------
add("C27", ex.func("moved_fraction"), ("return",), why="identity / empty axis / mismatched totals move nothing")
for c in repo.expr_classes():
    f = c.methods.get("transfer_bytes")
    if f is not None:
        add("C27", f, ("return",), why="estimate exits (NaN only under an unknown-size guard, zero for aliases)")
for m in repo.units:
    for f in m.functions.values():
        if f.parent is None and f.cls is None and ("transfer" in f.name or "_stage_" in f.name):
            add("C27", f, ("return",), why="helper of a transfer estimate")

# ---- C02: decline guards of rewrite hooks -------------------------------------------------------------
HOOK_PREFIXES = ("_accept_", "_simplify_down", "_simplify_up", "_pushdown", "_lower", "_slice_pushdown", "_rechunk_pushdown", "_shuffle_pushdown",
                 "_preserve_grid_contract", "_slice_pushdown_culls_block", "_is_blockwise_fusable")
for c in repo.expr_classes():
    for name, f in c.methods.items():
        if name.startswith(HOOK_PREFIXES):
            add("C02", f, ("return None", "return False", "return True", "raise"), why="a rewrite hook declines (returns None/False) under this condition")
bw = repo.mod("dask_array._blockwise")
for fn in ("_remove_conflicting_exprs", "_symbolic_mapping", "is_fusable_blockwise"):
    add("C02", bw.func(fn), ("return", "raise", "continue"), extra=lambda s: isinstance(s, ast.Expr) and "conflicts.add" in unparse(s), why="fusion conflict detection")
for modname, fns in (("dask_array.reductions._reduction", ("_accept_slice_impl",)), ("dask_array.reductions._sliding_window", ("supports_native_sliding_window",)),
                     ("dask_array.io._from_map", ("_merge_from_maps",))):
    for fn in fns:
        m = repo.mod(modname)
        if fn in m.functions:
            add("C02", m.functions[fn], ("return None", "return False", "return True", "raise"), why="helper of a rewrite hook declines under this condition")

# ---- C07: the package's own tokenizer for callables/types (process-independent tokens) ----------------
dm = repo.mod("dask_array._dispatch")
add("C07", dm.func("_importable_ref"), ("return None", "return"), why="a callable/type is tokenized by (module, qualname) reference only when that reference denotes the same object in every process; each decline falls back to pickle-by-value")
for fn in ("_normalize_type", "_normalize_function", "_normalize_builtin", "_normalize_ufunc", "_normalize_array_function_dispatcher", "_normalize_masked_array"):
    if fn in dm.functions:
        add("C07", dm.functions[fn], ("return",), why="registered tokenizer: reference token or the by-value fallback")

# ---- C12: refusals of unsupported / out-of-bounds indices, and the identity shortcut of take ---------------
for modname in ("dask_array.slicing._utils", "dask_array.slicing._basic", "dask_array.slicing._vindex", "dask_array.slicing._bool_index", "dask_array.slicing._blocks", "dask_array._shuffle"):
    m = repo.module(modname)
    if m is None:
        continue
    for f in m.functions.values():
        if f.parent is not None:
            continue
        add("C12", f, ("raise",), pred=lambda s, ek, text: any(k in ek for k in ("IndexError", "NotImplementedError")) or "Index" in unparse(s),
            why="an index that is out of bounds or unsupported raises instead of returning data")
col = repo.mod("dask_array._collection").cls("Array")
for meth in ("__getitem__", "_vindex", "_blocks"):
    if meth in col.methods:
        add("C12", col.methods[meth], ("raise",), why="Array-level refusal of an unsupported index")
add("C12", repo.mod("dask_array.slicing._basic").func("take"), ("return", "raise"), why="take: the identity shortcut returns x only for an exact identity index; unknown sizes are refused")
# the identity shortcut of the shuffle door: ``for group, chunk: if <not the identity run>: break`` ... ``else: return x``
add("C12", repo.mod("dask_array._shuffle").func("_shuffle"), ("return",), extra=lambda s: isinstance(s, ast.Break),
    why="_shuffle returns its input unchanged only when every group is exactly the run of positions of its chunk (the break leaves the identity search)")

# ---- C16: refusals of invalid chunk specifications ------------------------------------------------------
cu = repo.mod("dask_array._core_utils")
for fn in ("normalize_chunks", "auto_chunks", "blockdims_from_blockshape"):
    add("C16", cu.func(fn), ("raise",), why="an invalid chunk specification is refused instead of producing a layout that does not tile the shape")

# ---- C19: validity conditions of the native banded window kernels -------------------------------------------
swm = repo.mod("dask_array.reductions._sliding_window")
for fn in ("supports_native_sliding_window", "supports_native_moving_window"):
    add("C19", swm.func(fn), ("return",), pred=lambda s, ek, text: ek in ("return False", "return True", "break"), extra=lambda s: isinstance(s, ast.Break),
        why="the banded decomposition is valid only when every output-emitting block is shorter than the window (and sizes are known, the array holds a window)")

os.makedirs(os.path.dirname(FIXTURE), exist_ok=True)
with open(FIXTURE, "w") as fh:
    json.dump(out, fh, indent=1, sort_keys=True)
print({k: len(v) for k, v in out.items()})

# C19: the conditions the two predicates return as values (not covered by exit-condition fingerprints)
from sa.rules.c19 import value_fingerprints  # noqa: E402

with open(os.path.join(os.path.dirname(FIXTURE), "c19_returned_conditions.json"), "w") as fh:
    json.dump(value_fingerprints(repo), fh, indent=1, sort_keys=True)

import ast, os
exec(open('/verif/notes/exploration/kern.py').read().split("# top-level function defs")[0])
# class names that are ArrayExpr subclasses (by simple name, from classes.txt)
exprcls=set()
for l in open('/verif/notes/exploration/classes.txt'):
    if l.startswith('dask_array.'): exprcls.add(l.split(' ')[0].split('.')[-1])
SINKS=exprcls|{'blockwise','map_blocks','ArrayValuesDep','ArrayBlockIdDep','ArraySliceDep','ArrayOffsetDep','ArrayChunkShapeDep'}
LAY={'chunks','numblocks','chunksize'}
n=0
for m,(p,t) in sorted(mods.items()):
    for fn in ast.walk(t):
        if not isinstance(fn,ast.FunctionDef): continue
        if fn.name in ('chunks','_layer','_task','_frisky_layer','transfer_bytes','_meta','_name','__dask_tokenize__'): continue
        tainted={}
        def is_t(e):
            for x in ast.walk(e):
                if isinstance(x,ast.Attribute) and x.attr in LAY: return ast.unparse(x)
                if isinstance(x,ast.Name) and x.id in tainted: return tainted[x.id]
            return None
        for _ in range(3):
            for s in ast.walk(fn):
                if isinstance(s,ast.Assign):
                    src=is_t(s.value)
                    if src:
                        for tg in s.targets:
                            for nm in ast.walk(tg):
                                if isinstance(nm,ast.Name): tainted.setdefault(nm.id,src)
        for c in ast.walk(fn):
            if isinstance(c,ast.Call):
                f=ast.unparse(c.func).split('.')[-1]
                if f in SINKS:
                    for i,a in enumerate(list(c.args)+[k.value for k in c.keywords]):
                        src=is_t(a)
                        if src and not (isinstance(a,ast.Name) and False):
                            n+=1; print(m.replace('dask_array.',''),fn.name,c.lineno,f,'arg',i,ast.unparse(a)[:40],'<-',src[:40]); break
print(n)

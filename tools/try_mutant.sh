#!/bin/sh
# tools/try_mutant.sh <patch.diff> [PROP ...]   - apply to /repo, run the checks, always revert
patch="$1"; shift
props="$*"
[ -z "$props" ] && props="$(cd /verif && /venv/bin/python -c 'import json;print(" ".join(c["property_id"] for c in json.load(open("MANIFEST.json"))["checks"]))')"
cd /repo || exit 2
git diff --quiet || { echo "/repo has local changes; refusing"; exit 2; }
git apply "$patch" || { echo "patch does not apply"; exit 2; }
for p in $props; do
  out=$(cd /verif && ./vcheck "$p" 2>&1); rc=$?
  echo "== $p exit=$rc"
  echo "$out" | grep -E "^/repo|VIOLATION|ANALYSIS-ERROR|^      via" | head -8
done
git checkout -- . 
git status --short | head -3

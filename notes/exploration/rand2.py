import numpy as np, dask_array as da
import dask
loc = da.from_array(np.arange(8.0), chunks=4)
for mk in (lambda: da.random.RandomState(42), lambda: da.random.default_rng(7)):
    rs = mk()
    z = rs.normal(loc[1:]+0, 1.0, size=(7,), chunks=4)
    a = z.compute()
    c = (z + 1).compute() - 1
    print(type(rs).__name__, 'z vs (z+1)-1 same realization:', np.allclose(a, c), ' simplify renames:', z.expr.simplify()._name != z.expr._name)
    # scalar params: fine?
    w = rs.normal(0.0, 1.0, size=(8,), chunks=4)
    print('   scalar params:', np.allclose(w.compute(), (w+1).compute()-1), np.allclose(w.compute(), w[::-1].compute()[::-1]))

"""C09 - history independence (clause 1); the configuration clause is inventoried, not decided."""

from __future__ import annotations

import ast

from ..model import FuncInfo, body_walk, const_value, dotted, full_walk, unparse
from ..report import RuleResult
from .common import callgraph, cfg_of, enclosing_function, need, site

PROP = "C09"

EXPLANATION = (
    "Decides the history clause of C09 structurally: results cannot depend on what was built or computed before if every "
    "process-wide or per-object memory is keyed by a name that determines its content (C06) and nothing else is remembered. "
    "R09.1 (= R06.5) the shared lowering cache is touched only by _lower and written only under self._name; R09.2 pinned-name "
    "nodes return themselves from lower_once without reading or writing the shared cache; R09.3 no rewrite hook, lowering, gate, "
    "fusion or layer function assigns instance attributes, declares global/nonlocal, or mutates a module- or class-level "
    "container; R09.4 the per-collection lowered cache is derived from the collection's own expression and its once-captured "
    "optimize policy, and invalidated with them; R09.5 WHO: the package's process-wide mutable state (module-level containers, "
    "lru_cache/cache memoised functions, class-level containers) is the frozen, reviewed inventory - each entry with the "
    "functions allowed to write it - and memoised functions read no configuration; R09.6 lists every configuration read site "
    "(informational); R09.7 decides one clause of the configuration sentence: a node never reads the same configuration key live both "
    "when it advertises its layout (chunks) and when it lowers - the two decisions are taken under one per-node captured setting "
    "(passed to the planning helper as parameters filled from a cached property of the node, `f(..., **self.<cached property>)`, the helper "
    "consulting dask.config only when the parameter is absent; or `with config.set(self.<cached property>)`), otherwise the advertised and the actual block structure diverge when an option "
    "changes between construction and graph building (this was genuine on the pinned tree: a tree reduction over such a node returned a partial sum; repaired). "
    "The second sentence of C09 (same VALUES under every array.* setting) is an information-flow claim over integer planning "
    "code and is not decided; all configuration read sites are listed in the evidence."
)
ASSUMPTIONS = [
    "names determine content (decided separately under C06)",
    "monkey-patching is absent outside _diagnostics.trace_rewrites (which restores the hooks in a finally)",
    "dask.config is the only channel for planner options (environment variables are read by dask.config itself)",
]
TRUSTED = ["CPython ast", "sa.callgraph (resolved calls + conservative by-name dispatch)", "sa.cfg", "frozen state/config inventories in sa/rules/c09.py"]

HOOK_NAMES = {"_lower", "lower_once", "_simplify_down", "_simplify_up", "_layer", "_task", "_frisky_layer", "fuse", "_fuse", "_preserve_grid_contract", "_has_grid_sensitive_dependent", "_requires_grid_preservation"}
HOOK_PREFIXES = ("_accept_", "_pushdown", "_slice_pushdown", "_rechunk_pushdown", "_shuffle_pushdown")
MUTATORS = {"append", "extend", "insert", "add", "update", "setdefault", "pop", "popitem", "remove", "discard", "clear", "sort", "reverse", "__setitem__", "appendleft"}
PASS_SCOPED = {"lowered", "dependents"}  # dicts handed in by the framework for one optimisation pass

# module-level mutable state: (relpath, name) -> (reason, allowed writer qualnames)
STATE_INVENTORY = {
    ("dask_array/_materialize.py", "_LOWER_CACHE"): ("name-keyed weak cache of lowering results (R09.1/R06.5)", {"_lower"}),
    ("dask_array/_backends.py", "_previous_collection_type_handlers"): ("registration bookkeeping: which get_collection_type handlers were displaced when dask_array registered its own; written only while (un)registering", {"_register_collection_type", "_restore_collection_type"}),
    ("dask_array/_chunk_types.py", "_HANDLED_CHUNK_TYPES"): ("registry of chunk types (public register_chunk_type API, same as dask.array); consulted for type dispatch only", {"register_chunk_type"}),
    ("dask_array/_core_utils.py", "_HANDLED_FUNCTIONS"): ("__array_function__ dispatch table filled by the @implements decorator at import time", {"implements.decorator"}),
    ("dask_array/random/__init__.py", "_cached_states"): ("the default RandomState behind the module-level da.random.* wrappers, one per backend - deliberately stateful like numpy.random's global state (unseeded draws are outside C23; da.random.seed controls it)", {"_make_api.wrapper"}),
}
# memoised functions: relpath::qualname -> reason
MEMO_INVENTORY = {
    "dask_array/_svg.py::svg": "pure rendering of a chunks tuple to an SVG string (arguments are hashable values; no configuration read inside)",
}
# containers captured in the closure of an import-time decorator/factory: construct -> reason
CLOSURE_STATE_INVENTORY = {}
# config keys readable on lowering paths: key -> reason (see c07.R07.6)
LOWERING_CONFIG_KEYS = {
    "array.chunk-size": "reached only through Rechunk.chunks -> normalize_chunks: ArrayExpr.rechunk resolves 'auto'/byte-string chunk specs with normalize_chunks BEFORE building the node, so the node's _chunks operand (covered by its name) is already concrete and this read is not taken at lowering (checked dynamically: x.rechunk('auto') under two chunk-size settings gives two names)",
    "array.chunk-size-tolerance": "same path as array.chunk-size",
    "split_every": "read only when the split_every operand is empty; every Reduction is built with _normalize_split_every(...) already applied (enforced by R07.7), and the lowering re-applies it idempotently",
    "array.rechunk.method": "same shape as the two known findings (method chosen at lowering, not part of the name) but cannot take effect in this sandbox: 'p2p' needs distributed, which is not installed, so no witness could be produced; reviewed and listed rather than recorded as a known finding",
}


_MAPOVERLAP_NO_CHOICE = (
    "reviewed, argued by reading (no witness exists): MapOverlap._lower reaches unify_chunks_expr only through the boundary helpers "
    "(periodic / reflect / nearest / constant -> concatenate([slab, x, slab], axis)), whose slabs are slices of x itself or full_like(x, chunks=x's own "
    "chunks with the axis replaced), so every non-concatenated axis already has one common chunking and the policy has nothing to decide; "
    "the inputs of a multi-input map_overlap are unified at construction (map_overlap), i.e. in the operands the name covers"
)
# (configuration key, lowering root) pairs reviewed one by one
LOWERING_CONFIG_ROOTS = {
    ("array.unify-chunks-policy", "MapOverlap._lower"): _MAPOVERLAP_NO_CHOICE,
    ("array.unify-chunks-limit", "MapOverlap._lower"): _MAPOVERLAP_NO_CHOICE,
}


def is_hook(f: FuncInfo):
    if f.cls is None and f.parent is None:
        return f.name in ("_lower", "_materialize", "_remove_conflicting_exprs", "_symbolic_mapping", "optimize_blockwise_fusion", "unify_chunks_expr")
    n = f.name
    return n in HOOK_NAMES or n.startswith(HOOK_PREFIXES)


def r09_1(ctx):
    from .c06 import r06_5

    rr = r06_5(ctx)
    rr.rule = "R09.1"
    for f in rr.findings:
        f.rule = "R09.1"
        f.prop = PROP
    return rr


def r09_2(ctx):
    rr = RuleResult("R09.2", "PASS", "pinned-name nodes return self from lower_once on a path that neither reads nor writes the shared cache", min_instances=3)
    repo = ctx.repo
    for cname, cond in (("RootAlias", None), ("FromGraph", None), ("FromArray", "_name_is_exact")):
        c = repo.find_class(cname)
        lo = c.methods.get("lower_once")
        if lo is None:
            # the override is gone: attribute lookup now resolves to a base class (ultimately Expr.lower_once,
            # which looks the name up in - and stores it into - the cache it is handed)
            hit = repo.class_attr(c, "lower_once")
            where = f"{hit[0].name}.lower_once" if hit else "nothing"
            rr.inst(f"{c.construct}::lower_once", present=False, resolves_to=where)
            ctx.finding(
                rr, f"{c.construct}::lower_once",
                f"{cname} no longer overrides lower_once (lookups resolve to {where}): its pinned (user-/collection-given) name now enters the process-wide name-keyed "
                f"lowering cache, where a later, different tree pinned to the same name is served the earlier node",
                file=c.module.path, line=c.node.lineno,
            )
            continue
        cfg = cfg_of(ctx, lo)
        params = [p for p in lo.params if p != "self"]
        cache_param = params[0] if params else "lowered"
        ok = False
        detail = []
        for r in cfg.returns:
            if r.value is None or unparse(r.value) != "self":
                continue
            if cond is not None and not any(cond in unparse(t) and pol for t, pol in cfg.guards(r)):
                continue
            # some path entry -> r touches no statement mentioning the cache parameter
            def touches(n):
                return isinstance(n, ast.stmt) and any(isinstance(x, ast.Name) and x.id == cache_param for x in _header(n))

            p = cfg.path_avoiding(r, blocked=lambda n: n is not r and touches(n))
            if p is not None and not touches(r):
                ok = True
            detail.append(r.lineno)
        rr.inst(lo.construct, condition=cond, returns_self_lines=detail, cache_free_path=ok)
        if not ok:
            ctx.finding(
                rr, lo.construct,
                f"{cname}.lower_once has no path that returns self without touching {cache_param!r}"
                + (f" under {cond}" if cond else "")
                + ": a pinned (user-/collection-given) name would enter the process-wide name-keyed lowering cache, where a later, different tree pinned to the same name is served the earlier lowering",
                func=lo,
            )
    return rr


def _header(stmt):
    from ..cfg import header_nodes

    return list(header_nodes(stmt))


def _class_level_containers(repo):
    out = {}
    for c in repo.all_classes():
        for k, v in c.attrs.items():
            if isinstance(v, (ast.Dict, ast.List, ast.Set)) or (isinstance(v, ast.Call) and dotted(v.func) in ("dict", "list", "set", "defaultdict", "collections.defaultdict", "OrderedDict", "weakref.WeakValueDictionary", "WeakValueDictionary")):
                if k in ("_parameters", "_defaults", "__slots__", "__all__"):
                    continue
                out.setdefault(k, []).append(c)
    return out


def _module_level_containers(repo):
    out = {}
    for m in repo.units:
        for k, v in m.assigns.items():
            if k.startswith("__") and k.endswith("__"):
                continue
            kind = None
            if isinstance(v, (ast.Dict, ast.List, ast.Set, ast.DictComp, ast.ListComp, ast.SetComp)):
                kind = type(v).__name__
            elif isinstance(v, ast.Call):
                d = dotted(v.func) or ""
                tail = d.rsplit(".", 1)[-1]
                if tail in ("dict", "list", "set", "defaultdict", "OrderedDict", "WeakValueDictionary", "WeakKeyDictionary", "WeakSet", "deque", "Counter", "local", "Lock", "RLock"):
                    kind = tail
            if kind:
                out[(m.relpath, k)] = (m, v, kind)
    return out


def _writes_to_name(f: FuncInfo, name):
    """Statements in f (own body) that mutate the object bound to module/class-level ``name``."""
    hits = []
    local = name in f.local_names
    declared = any(isinstance(n, (ast.Global, ast.Nonlocal)) and name in n.names for n in body_walk(f.node))
    if local and not declared:
        return hits
    for n in body_walk(f.node):
        if isinstance(n, ast.Subscript) and isinstance(n.ctx, (ast.Store, ast.Del)) and isinstance(n.value, ast.Name) and n.value.id == name:
            hits.append((n, "item store"))
        elif isinstance(n, ast.Call) and isinstance(n.func, ast.Attribute) and n.func.attr in MUTATORS and isinstance(n.func.value, ast.Name) and n.func.value.id == name:
            hits.append((n, f".{n.func.attr}()"))
        elif isinstance(n, ast.AugAssign) and isinstance(n.target, ast.Name) and n.target.id == name:
            hits.append((n, "augmented assignment"))
        elif declared and isinstance(n, ast.Name) and isinstance(n.ctx, ast.Store) and n.id == name:
            hits.append((n, "rebinding under global"))
    return hits


def r09_3(ctx):
    rr = RuleResult("R09.3", "PURE", "rewrite/lowering/fusion/layer hooks keep no state: no instance-attribute store, no global/nonlocal, no mutation of module- or class-level containers", min_instances=150)
    repo = ctx.repo
    class_cont = _class_level_containers(repo)
    mod_cont = _module_level_containers(repo)
    mod_names = {}
    for (rel, k), (m, _v, _kind) in mod_cont.items():
        mod_names.setdefault(k, []).append(m)
    expr_fqs = {c.fq for c in repo.expr_classes()}
    for m in repo.units:
        for f in m.functions.values():
            top = f
            while top.parent is not None:
                top = top.parent
            if not is_hook(top):
                continue
            if top.cls is not None and top.cls.fq not in expr_fqs:
                continue
            facts = {"attr_stores": 0, "globals": 0, "container_mutations": 0}
            for n in body_walk(f.node):
                if isinstance(n, ast.Attribute) and isinstance(n.ctx, (ast.Store, ast.Del)) and isinstance(n.value, ast.Name) and n.value.id in ("self", "cls"):
                    if n.attr == "_determ_token":
                        continue
                    facts["attr_stores"] += 1
                    ctx.finding(rr, site(f, n), f"hook {top.qualname} stores self.{n.attr}: a rewrite hook that remembers something on the (name-deduplicated, shared) node makes later optimisations depend on earlier ones", func=f, node=n)
                elif isinstance(n, (ast.Global, ast.Nonlocal)):
                    # nonlocal inside a nested helper whose state lives in the enclosing *call* is pass-scoped
                    if isinstance(n, ast.Nonlocal) and f.parent is not None:
                        continue
                    facts["globals"] += 1
                    ctx.finding(rr, site(f, n), f"hook {top.qualname} declares {type(n).__name__.lower()} {', '.join(n.names)}: process-wide state written from a rewrite", func=f, node=n)
                elif isinstance(n, ast.Subscript) and isinstance(n.ctx, (ast.Store, ast.Del)):
                    base = n.value
                    bn = unparse(base)
                    if isinstance(base, ast.Attribute) and isinstance(base.value, ast.Name) and base.value.id in ("self", "cls") and base.attr in class_cont:
                        facts["container_mutations"] += 1
                        ctx.finding(rr, site(f, n), f"hook {top.qualname} writes into {bn}, a class-level container shared by every instance", func=f, node=n)
                    elif isinstance(base, ast.Attribute) and base.attr == "__dict__" and isinstance(base.value, ast.Name) and base.value.id == "self":
                        facts["attr_stores"] += 1
                        ctx.finding(rr, site(f, n), f"hook {top.qualname} stores into self.__dict__[...]", func=f, node=n)
                    elif isinstance(base, ast.Name) and base.id in mod_names and base.id not in f.local_names and base.id not in PASS_SCOPED:
                        facts["container_mutations"] += 1
                        ctx.finding(rr, site(f, n), f"hook {top.qualname} writes into the module-level container {bn}", func=f, node=n)
                elif isinstance(n, ast.Call) and isinstance(n.func, ast.Attribute) and n.func.attr in MUTATORS:
                    base = n.func.value
                    if isinstance(base, ast.Attribute) and isinstance(base.value, ast.Name) and base.value.id in ("self", "cls") and base.attr in class_cont:
                        # only when no instance-level rebinding shadows it in this class
                        facts["container_mutations"] += 1
                        ctx.finding(rr, site(f, n), f"hook {top.qualname} mutates {unparse(base)} ({n.func.attr}), a class-level container shared by every instance", func=f, node=n)
                    elif isinstance(base, ast.Name) and base.id in mod_names and base.id not in f.local_names and base.id not in PASS_SCOPED:
                        r = repo.resolve_name(base.id, f.module, f)
                        if r and r[0] == "value":
                            facts["container_mutations"] += 1
                            ctx.finding(rr, site(f, n), f"hook {top.qualname} mutates the module-level container {base.id} ({n.func.attr})", func=f, node=n)
            rr.inst(f.construct, **facts)
    return rr


def r09_4(ctx):
    rr = RuleResult("R09.4", "COVER", "Array._lowered_expr is derived from self.expr and the once-captured optimize policy; both caches are dropped by _replace_expr", min_instances=3)
    repo = ctx.repo
    arr = repo.mod("dask_array._collection").cls("Array")
    le = arr.methods.get("_lowered_expr")
    pol = arr.methods.get("_lowered_expr_optimize_graph")
    rep = arr.methods.get("_replace_expr")
    need(le is not None and pol is not None and rep is not None, "Array._lowered_expr / _lowered_expr_optimize_graph / _replace_expr")
    calls = [n for n in body_walk(le.node) if isinstance(n, ast.Call) and (dotted(n.func) or "").rsplit(".", 1)[-1] == "_materialize"]
    ok = bool(calls) and le.kind == "cached_property"
    args_ok = False
    for c in calls:
        a = [unparse(x) for x in c.args] + [unparse(k.value) for k in c.keywords]
        if a and a[0] in ("self.expr", "self._expr") and any("_lowered_expr_optimize_graph" in x for x in a[1:]):
            args_ok = True
    rr.inst(le.construct, cached=le.kind, materialize_calls=len(calls), from_own_expr_and_policy=args_ok)
    if not (ok and args_ok):
        ctx.finding(rr, le.construct, "Array._lowered_expr is no longer `_materialize(self.expr, self._lowered_expr_optimize_graph)` cached per collection: the graph of a collection would depend on something other than its own expression and the policy captured at first use", func=le)
    reads = [n for n in body_walk(pol.node) if isinstance(n, ast.Call) and (dotted(n.func) or "").endswith("config.get")]
    rr.inst(pol.construct, cached=pol.kind, config_reads=[unparse(n) for n in reads])
    if pol.kind != "cached_property" or len(reads) != 1:
        ctx.finding(rr, pol.construct, "the optimize-graph policy is no longer captured once per collection (cached_property over a single config read): key layout could change between __dask_graph__ and __dask_keys__/Frisky output keys of one collection", func=pol)
    popped = {const_value(x) for n in full_walk(rep.node) for x in ast.walk(n) if isinstance(x, ast.Constant) and isinstance(x.value, str)}
    both = {"_lowered_expr", "_lowered_expr_optimize_graph"} <= popped
    rr.inst(rep.construct, drops=sorted(p for p in popped if p.startswith("_")))
    if not both:
        ctx.finding(rr, rep.construct, "_replace_expr no longer drops both _lowered_expr and _lowered_expr_optimize_graph", func=rep)
    return rr


def _memo_functions(repo):
    out = []
    for f in repo.all_functions():
        for d in f.node.decorator_list:
            dn = dotted(d.func if isinstance(d, ast.Call) else d) or ""
            tail = dn.rsplit(".", 1)[-1]
            if tail in ("lru_cache", "cache", "memoize", "memoized"):
                out.append((f, dn))
    return out


def _config_reads(f: FuncInfo):
    out = []
    for n in body_walk(f.node):
        if isinstance(n, ast.Call):
            d = dotted(n.func) or ""
            if d.endswith("config.get") or d in ("config.get", "dask.config.get", "dask_config.get"):
                key = const_value(n.args[0]) if n.args else None
                out.append((n, key if isinstance(key, str) else unparse(n.args[0]) if n.args else "?"))
    return out


def r09_5(ctx):
    rr = RuleResult("R09.5", "WHO", "process-wide mutable state is the frozen inventory (module-level containers and memoised functions with their allowed writers); memoised functions read no configuration", min_instances=1)
    repo = ctx.repo
    cg = callgraph(ctx)
    mod_cont = _module_level_containers(repo)
    # 1. every module-level container that any function mutates must be inventoried, with that writer allowed
    for (rel, name), (m, v, kind) in sorted(mod_cont.items()):
        writers = []
        for f in repo.all_functions():
            r = None
            if f.module is m:
                r = True
            else:
                res = repo.resolve_name(name, f.module, f) if name in {x for x in f.module.imports} else None
                r = bool(res and res[0] == "value" and res[1][0] is m)
            if not r:
                continue
            for node, how in _writes_to_name(f, name):
                writers.append((f, node, how))
        if not writers and (rel, name) not in STATE_INVENTORY:
            continue  # a constant table
        inv = STATE_INVENTORY.get((rel, name))
        rr.inst(f"{rel}::{name}", kind=kind, writers=sorted({w[0].qualname for w in writers}), inventoried=inv is not None)
        if inv is None:
            f0, node, how = writers[0]
            ctx.finding(
                rr, f"{rel}::{name}",
                f"module-level {kind} {name} is mutated at run time ({f0.qualname}: {how}) and is not in the reviewed inventory of process-wide state: "
                f"whatever it remembers outlives the collection that put it there, so later results may depend on earlier programs",
                func=f0, node=node,
            )
            continue
        reason, allowed = inv
        rr.exempt(f"{rel}::{name}", reason)
        for f0, node, how in writers:
            if f0.qualname not in allowed:
                ctx.finding(rr, f"{rel}::{name}::{f0.qualname}", f"{f0.qualname} writes the process-wide {name} ({how}); only {sorted(allowed)} may", func=f0, node=node)
    # the shared cache is passed by reference into lower_once; its writers are judged by R09.1
    for key in STATE_INVENTORY:
        need(key in mod_cont, f"inventoried process-wide state {key} no longer exists")
    # 2. memoised functions
    for f, deco in sorted(_memo_functions(repo), key=lambda x: x[0].fq):
        cst = f"{f.construct}::@{deco}"
        reads = []
        seen = {f.fq}
        frontier = [f]
        for _ in range(3):
            nxt = []
            for g in frontier:
                for node, key in _config_reads(g):
                    reads.append((g, node, key))
                for e in cg.edges.get(g.fq, []):
                    if e.kind == "call" and e.exact and e.target.fq not in seen:
                        seen.add(e.target.fq)
                        nxt.append(e.target)
            frontier = nxt
        rr.inst(cst, config_reads=[k for _g, _n, k in reads])
        if f.construct not in MEMO_INVENTORY:
            ctx.finding(rr, cst, f"{f.qualname} is memoised process-wide ({deco}) and is not in the reviewed inventory: its results are remembered across collections", func=f)
        else:
            rr.exempt(cst, MEMO_INVENTORY[f.construct])
        for g, node, key in reads:
            ctx.finding(rr, f"{cst}::config {key}", f"memoised {f.qualname} reads configuration {key!r} (in {g.qualname}): the remembered result is stale after the setting changes", func=g, node=node)
    # 2b. memo containers held in the closure of a decorator / factory that runs at import time
    import_time_callers = set()  # qualnames of functions used as decorators or called at module level
    for m in repo.units:
        for f in m.functions.values():
            for d in f.node.decorator_list:
                dn = dotted(d.func if isinstance(d, ast.Call) else d)
                if dn:
                    r = repo.resolve_name(dn.split(".")[0], m, f.parent) if "." not in dn else repo.resolve_expr(d.func if isinstance(d, ast.Call) else d, m, f.parent)
                    if r and r[0] == "func":
                        import_time_callers.add(r[1].fq)
        for stmt in m.tree.body:
            for n in ast.walk(stmt) if not isinstance(stmt, (ast.FunctionDef, ast.AsyncFunctionDef, ast.ClassDef)) else []:
                if isinstance(n, ast.Call):
                    r = repo.resolve_expr(n.func, m, None) if isinstance(n.func, (ast.Name, ast.Attribute)) else None
                    if r and r[0] == "func":
                        import_time_callers.add(r[1].fq)
    for f in repo.all_functions():
        if f.fq not in import_time_callers:
            continue
        conts = {}
        for n in body_walk(f.node):
            tgt, val = None, None
            if isinstance(n, ast.Assign) and len(n.targets) == 1 and isinstance(n.targets[0], ast.Name):
                tgt, val = n.targets[0].id, n.value
            elif isinstance(n, ast.AnnAssign) and isinstance(n.target, ast.Name) and n.value is not None:
                tgt, val = n.target.id, n.value
            if tgt and (isinstance(val, (ast.Dict, ast.List, ast.Set)) or (isinstance(val, ast.Call) and (dotted(val.func) or "").rsplit(".", 1)[-1] in ("dict", "list", "set", "defaultdict", "OrderedDict", "WeakValueDictionary", "deque"))):
                conts[tgt] = n
        if not conts:
            continue
        for g in f.module.functions.values():
            if g.parent is not f:
                continue
            for name in conts:
                if name in g.local_names and not any(isinstance(x, ast.Nonlocal) and name in x.names for x in body_walk(g.node)):
                    continue
                hits = []
                for n in body_walk(g.node):
                    if isinstance(n, ast.Subscript) and isinstance(n.ctx, (ast.Store, ast.Del)) and isinstance(n.value, ast.Name) and n.value.id == name:
                        hits.append((n, "item store"))
                    elif isinstance(n, ast.Call) and isinstance(n.func, ast.Attribute) and n.func.attr in MUTATORS and isinstance(n.func.value, ast.Name) and n.func.value.id == name:
                        hits.append((n, f".{n.func.attr}()"))
                if not hits:
                    continue
                cst = f"{f.construct}::closure {name}"
                rr.inst(cst, mutated_in=g.qualname, how=hits[0][1])
                if cst in CLOSURE_STATE_INVENTORY:
                    rr.exempt(cst, CLOSURE_STATE_INVENTORY[cst])
                    continue
                ctx.finding(
                    rr, cst,
                    f"{f.qualname} runs at import time (decorator / module-level call) and its inner function {g.name} mutates the container {name!r} captured from it: "
                    f"a process-wide memo outside the reviewed inventory - whatever it remembers is served to every later caller with an equal key",
                    func=g, node=hits[0][0],
                )
    # 3. class-level mutable containers mutated through instances anywhere (not only in hooks)
    class_cont = _class_level_containers(repo)
    for f in repo.all_functions():
        if f.cls is None and f.parent is None:
            continue
        for n in body_walk(f.node):
            tgt = None
            if isinstance(n, ast.Subscript) and isinstance(n.ctx, (ast.Store, ast.Del)):
                tgt = n.value
            elif isinstance(n, ast.Call) and isinstance(n.func, ast.Attribute) and n.func.attr in MUTATORS:
                tgt = n.func.value
            if isinstance(tgt, ast.Attribute) and isinstance(tgt.value, ast.Name) and tgt.value.id in ("self", "cls") and tgt.attr in class_cont:
                owner = f.cls or (f.parent.cls if f.parent else None)
                if owner is None:
                    continue
                hit = repo.class_attr(owner, tgt.attr)
                if hit is None or isinstance(hit[1], FuncInfo):
                    continue  # shadowed by a property
                # an instance-level rebinding in __init__ makes it per-instance
                init = repo.class_attr(owner, "__init__")
                if init and isinstance(init[1], FuncInfo) and any(isinstance(x, ast.Attribute) and isinstance(x.ctx, ast.Store) and x.attr == tgt.attr for x in ast.walk(init[1].node)):
                    continue
                cst = site(f, n)
                rr.inst(cst, container=f"{hit[0].name}.{tgt.attr}")
                ctx.finding(rr, cst, f"{f.qualname} mutates {unparse(tgt)}, the class-level container {hit[0].name}.{tgt.attr} shared by every instance in the process", func=f, node=n)
    return rr


def reduction_lowering_aligned(ctx):
    """(ok, explanation): a weighted Reduction has nothing to unify at lowering - reduction() puts the weights on x's grid
    before the node is built, and Reduction._lower builds its per-chunk Blockwise with align_arrays=False."""
    repo = ctx.repo
    m = repo.mod("dask_array.reductions._reduction")
    red = m.cls("Reduction")
    lo = red.methods.get("_lower")
    mk = m.functions.get("reduction")
    if lo is None or mk is None:
        return False, "Reduction._lower / reduction() not found"
    calls = [n for n in body_walk(lo.node) if isinstance(n, ast.Call) and (dotted(n.func) or "").rsplit(".", 1)[-1] == "blockwise"]
    if not calls:
        return False, "Reduction._lower builds no blockwise node"
    for c in calls:
        kw = {k.arg: k.value for k in c.keywords if k.arg}
        v = kw.get("align_arrays")
        if not (isinstance(v, ast.Constant) and v.value is False):
            return False, f"Reduction._lower calls blockwise(...) at line {c.lineno} without align_arrays=False: the per-chunk node unifies x and the weights under the setting in force while lowering"
    from .common import cfg_of, chain_conjuncts

    cfg = cfg_of(ctx, mk)
    hand = [s_ for s_ in cfg.stmts() if isinstance(s_, ast.Assign) and any(unparse(t) == "weights_expr" for t in s_.targets) and not (isinstance(s_.value, ast.Constant) and s_.value.value is None)]
    if not hand:
        return False, "reduction() no longer derives weights_expr from the weights"
    for h in hand:
        src = [x.id for x in ast.walk(h.value) if isinstance(x, ast.Name)]
        if not src:
            return False, "weights_expr is not derived from a local"
        w = src[0]
        par = cfg.parent.get(h)
        sibs = cfg._siblings(h, par[0], par[1]) if par else []
        i = sibs.index(h) if h in sibs else -1
        aligned = False
        for prev in reversed(sibs[:i] if i > 0 else []):
            # ``if w.chunks != x.chunks: w = w.rechunk(x.chunks)`` or the unconditional rechunk
            cand = prev.body[0] if isinstance(prev, ast.If) and len(prev.body) == 1 and not prev.orelse else prev
            if isinstance(cand, ast.Assign) and any(unparse(t) == w for t in cand.targets):
                v = cand.value
                is_re = isinstance(v, ast.Call) and isinstance(v.func, ast.Attribute) and v.func.attr == "rechunk" and unparse(v.func.value) == w and v.args and unparse(v.args[0]) == "x.chunks"
                if is_re:
                    cj = chain_conjuncts(cfg, cand, mk.node, mk.module) - chain_conjuncts(cfg, h, mk.node, mk.module)
                    aligned = cj <= {f"{w}.chunks != x.chunks"}
                break
        if not aligned:
            return False, f"reduction() hands `{w}` to the node without first putting it on x's grid ({w} = {w}.rechunk(x.chunks))"
    return True, "reduction() rechunks the weights to x.chunks before building the node and Reduction._lower passes align_arrays=False: nothing is unified while lowering"


def _name_members(repo, c):
    """Members of class ``c`` (properties, cached properties, methods) that its resolved ``_name`` reaches through
    ``self.<member>`` references (``deterministic_token`` stands for the resolved ``__dask_tokenize__``), to depth 4."""
    out, frontier = set(), ["_name"]
    for _ in range(4):
        nxt = []
        for m in frontier:
            hit = repo.class_attr(c, "__dask_tokenize__" if m == "deterministic_token" else m)
            if not hit or not isinstance(hit[1], FuncInfo):
                continue
            fn = hit[1].node
            # the tokenization sites that produce the node's token: ``self._determ_token = <tokenize>(...)`` or a returned one
            toks = [
                n.value for n in body_walk(fn)
                if isinstance(n, (ast.Assign, ast.Return)) and isinstance(n.value, ast.Call) and (dotted(n.value.func) or "").rsplit(".", 1)[-1] in ("_tokenize_deterministic", "tokenize")
                and (isinstance(n, ast.Return) or any(unparse(t) == "self._determ_token" for t in n.targets))
            ]

            def self_attrs(node):
                return {n.attr for n in ast.walk(node) if isinstance(n, ast.Attribute) and isinstance(n.value, ast.Name) and n.value.id == "self"}

            if toks:
                # a tokenizer with several tokenization sites (a fast path and a fallback): only what EVERY site hashes counts
                found = set.intersection(*[self_attrs(t) for t in toks])
            else:
                found = self_attrs(fn)
            for a in sorted(found):
                if a not in out:
                    out.add(a)
                    nxt.append(a)
        frontier = nxt
    return out


def _covered_by_name(ctx, key, roots):
    """Is configuration ``key``, read on lowering paths from ``roots``, decided under a per-node capture that the
    node's own name includes?  (True, explanation) only when, for every root: the key is never read live on a resolved
    path (it is filled from ``self.<cached property>`` at the call), and for every expression class that lowers through
    this root the capturing cached property is reached by the class's ``_name`` / tokenizer."""
    repo = ctx.repo
    hows = []
    for r in roots:
        live, pinned = ctx.cached(("live-config", r.fq), lambda r=r: live_config_reads(ctx, r))
        if key in live or key not in pinned:
            return False, f"read live on a path from {r.qualname}"
        classes = [d for d in repo.expr_classes() if (repo.class_attr(d, "_lower") or (None, None))[1] is r]
        if not classes:
            return False, f"no class lowers through {r.qualname}"
        for d in classes:
            caps = []
            for c_ in repo.mro(d):
                if isinstance(c_, str):
                    continue
                for mname, m in c_.methods.items():
                    if m.kind == "cached_property" and any(k == key for _n, k in _config_reads(m)) and (repo.class_attr(d, mname) or (None, None))[1] is m:
                        caps.append(mname)
            reached = _name_members(repo, d)
            if not caps or not all(c_ in reached for c_ in caps):
                return False, f"{d.name}: the captured setting ({', '.join(caps) or 'no per-node capture'}) is not part of the node's token"
            hows.append(f"{d.name}.{caps[0]}")
    return True, "captured per node and included in the token: " + ", ".join(sorted(set(hows))[:6])


def lowering_config_rule(ctx, rule_id="R09.6"):
    rr = RuleResult(rule_id, "REF", "configuration keys readable on paths from lowering (memoised by name process-wide) are the frozen, reviewed set", min_instances=1)
    repo = ctx.repo
    cg = callgraph(ctx)
    roots = [f for f in repo.all_functions() if f.name in ("_lower", "lower_once") and (f.cls is not None or f.module.name == "dask_array._materialize")]
    need(len(roots) >= 12, "fewer than 12 _lower/lower_once definitions")
    all_reads = {}
    for f in repo.all_functions():
        for node, key in _config_reads(f):
            all_reads.setdefault(f.fq, []).append((f, node, key))
    reach = {}
    for r in roots:
        if r.module.name == "dask_array._materialize":
            continue
        seen = {r.fq: None}
        frontier = [r.fq]
        while frontier:
            nxt = []
            for fq in frontier:
                for e in cg.edges.get(fq, []):
                    if e.kind not in ("call", "prop", "construct"):
                        continue
                    t = e.target
                    if t.fq in seen:
                        continue
                    if not e.exact:
                        continue  # by-name fallback would connect everything to everything
                    # do not walk into other nodes' lowering / materialisation (they are roots themselves)
                    if t.name in ("_lower", "lower_once", "_materialize", "simplify", "optimize", "lower_completely"):
                        continue
                    seen[t.fq] = fq
                    nxt.append(t.fq)
            frontier = nxt
        for fq in seen:
            for f, node, key in all_reads.get(fq, []):
                path = []
                cur = fq
                while cur is not None:
                    path.append(cur)
                    cur = seen[cur]
                reach.setdefault(key, []).append((r, f, node, list(reversed(path))))
    for key, lst in sorted(reach.items(), key=lambda kv: str(kv[0])):
        r, f, node, path = min(lst, key=lambda x: len(x[3]))
        cst = f"lowering-config::{key}"
        rr.inst(cst, read_in=f.construct, roots=sorted({x[0].qualname for x in lst})[:8], shortest_path=path)
        if key in LOWERING_CONFIG_KEYS:
            rr.exempt(cst, LOWERING_CONFIG_KEYS[key])
            continue
        # judged per lowering root: the same key may be covered by the name of one kind of node and not of another
        by_root = {}
        for x in lst:
            if x[0].fq not in by_root or len(x[3]) < len(by_root[x[0].fq][3]):
                by_root[x[0].fq] = x
        for r, f, node, path in sorted(by_root.values(), key=lambda x: x[0].qualname):
            c_r = f"{cst}::{r.qualname}"
            covered, how = _covered_by_name(ctx, key, [r])
            rr.inst(c_r, read_in=f.construct, path=path, covered_by_node_name=covered, how=how)
            if covered:
                continue  # decided under a per-node capture that the node's own token includes: another setting, another name
            if (key, r.qualname) in LOWERING_CONFIG_ROOTS:
                rr.exempt(c_r, LOWERING_CONFIG_ROOTS[(key, r.qualname)])
                continue
            if r.qualname == "Reduction._lower" and key in ("array.unify-chunks-policy", "array.unify-chunks-limit"):
                ok_, why_ = ctx.cached("reduction-lowering-aligned", lambda: reduction_lowering_aligned(ctx))
                if ok_:
                    rr.exempt(c_r, "decided on every run, not a frozen exemption: " + why_ + " (the remaining static path Reduction._lower -> blockwise -> asanyarray -> stack only takes list arguments, which a Reduction never passes)")
                    continue
                how = why_
            ctx.finding(
                rr, c_r,
                f"configuration {key!r} is read in {f.qualname}, reachable from {r.qualname} ({how}): lowering results are memoised by node name across the whole process "
                f"(_LOWER_CACHE), so a lowering computed under one setting is served to the same program built under another - optimized graph keys then depend on history",
                func=f, node=node, path=path,
            )
    rr.notes.append("all configuration read sites of the package: " + "; ".join(sorted(f"{f.construct} [{key}]" for lst in all_reads.values() for f, _n, key in lst)))
    return rr


def _dict_keys_of(repo, expr, f: FuncInfo):
    """Literal string keys of the mapping ``expr`` denotes: a dict display, or ``self.<member>`` whose
    (cached) property body returns a dict display."""
    if isinstance(expr, ast.Dict):
        ks = [const_value(k) for k in expr.keys if k is not None]
        return {k for k in ks if isinstance(k, str)}
    if isinstance(expr, ast.Attribute) and isinstance(expr.value, ast.Name) and expr.value.id == "self":
        owner = f.cls or (f.parent.cls if f.parent else None)
        if owner is None:
            return set()
        hit = repo.class_attr(owner, expr.attr)
        if hit and isinstance(hit[1], FuncInfo):
            out = set()
            for n in body_walk(hit[1].node):
                if isinstance(n, ast.Return) and n.value is not None:
                    out |= _dict_keys_of(repo, n.value, hit[1])
            return out
    return set()


def _pin_is_per_node(repo, expr, f: FuncInfo):
    """The pinned mapping is captured once per node (a cached property of self), not re-read."""
    if isinstance(expr, ast.Attribute) and isinstance(expr.value, ast.Name) and expr.value.id == "self":
        owner = f.cls or (f.parent.cls if f.parent else None)
        hit = repo.class_attr(owner, expr.attr) if owner else None
        return bool(hit and isinstance(hit[1], FuncInfo) and hit[1].kind == "cached_property")
    return False


def _with_pins(repo, f: FuncInfo):
    """[(set of node ids inside the with body, pinned keys)] for ``with config.set(<per-node mapping>)`` blocks of f."""
    out = []
    for n in body_walk(f.node):
        if isinstance(n, (ast.With, ast.AsyncWith)):
            keys = set()
            for it in n.items:
                c = it.context_expr
                if isinstance(c, ast.Call) and (dotted(c.func) or "").endswith("config.set") and c.args and _pin_is_per_node(repo, c.args[0], f):
                    keys |= _dict_keys_of(repo, c.args[0], f)
            if keys:
                ids = {id(x) for b in n.body for x in ast.walk(b)}
                out.append((ids, keys))
    return out


def _param_guarded(g: FuncInfo, node):
    """Name of the parameter P such that ``node`` is evaluated only when ``P is <sentinel/None>`` (the idiom
    ``if P is _FROM_CONFIG: P = config.get(...)`` / ``config.get(...) if P is None else P``), else None."""
    parents = g.__dict__.get("_c09_parents")
    if parents is None:
        parents = {}
        for p in ast.walk(g.node):
            for ch in ast.iter_child_nodes(p):
                parents[id(ch)] = p
        g.__dict__["_c09_parents"] = parents
    cur = node
    while id(cur) in parents:
        par = parents[id(cur)]
        test, in_body = None, False
        if isinstance(par, ast.If):
            test, in_body = par.test, any(cur is x for x in par.body)
        elif isinstance(par, ast.IfExp):
            test, in_body = par.test, cur is par.body
        if test is not None and in_body and isinstance(test, ast.Compare) and len(test.ops) == 1 and isinstance(test.ops[0], ast.Is) and isinstance(test.left, ast.Name) and test.left.id in g.params:
            return test.left.id
        cur = par
    return None


def _call_pins(repo, g: FuncInfo, call: ast.Call):
    """Parameter names of the callee that this call fills from a per-node capture: ``**self.<cached property>`` (the
    literal keys of the mapping it returns) or ``kw=self.<cached property>[...]``."""
    out = set()
    for k in call.keywords:
        if k.arg is None and _pin_is_per_node(repo, k.value, g):
            out |= _dict_keys_of(repo, k.value, g)
        elif k.arg is not None and isinstance(k.value, ast.Subscript) and _pin_is_per_node(repo, k.value.value, g):
            out.add(k.arg)
    return out


def live_config_reads(ctx, root: FuncInfo, skip_cached_props=True, max_depth=6):
    """{key: (function, node, path)} configuration keys read on resolved call paths from ``root`` that are
    NOT under a per-node ``with config.set(self.<cached property>)`` pin; cached properties of the node
    (per-node captures) are not entered."""
    repo = ctx.repo
    cg = callgraph(ctx)
    live = {}
    pinned_seen = {}
    seen = set()
    work = [(root, frozenset(), (root.fq,), frozenset())]
    while work:
        g, pins, path, pparams = work.pop()
        if (g.fq, pins, pparams) in seen or len(path) > max_depth:
            continue
        seen.add((g.fq, pins, pparams))
        wp = _with_pins(repo, g)
        for node, key in _config_reads(g):
            here = set(pins)
            for ids, keys in wp:
                if id(node) in ids:
                    here |= keys
            gp = _param_guarded(g, node)
            if key in here or (gp is not None and gp in pparams):
                # under a per-node pin, or only evaluated when a parameter the caller fills from a per-node capture is absent
                pinned_seen.setdefault(key, (g, node, path))
            else:
                live.setdefault(key, (g, node, path))
        for e in cg.edges.get(g.fq, []):
            if not e.exact or e.kind not in ("call", "prop", "construct"):
                continue
            t = e.target
            if t.name in ("_lower", "lower_once", "_materialize", "simplify", "optimize", "lower_completely") and t is not root:
                continue
            if skip_cached_props and t.kind == "cached_property" and t is not root:
                continue
            here = set(pins)
            for ids, keys in wp:
                if id(e.node) in ids:
                    here |= keys
            cp = _call_pins(repo, g, e.node) if isinstance(e.node, ast.Call) else set()
            work.append((t, frozenset(here), path + (t.fq,), frozenset(cp)))
    return live, pinned_seen


def r09_7(ctx):
    rr = RuleResult("R09.7", "COVER", "a node's advertised layout (chunks) and its lowering never read the same configuration key live: both decide under one per-node captured setting", min_instances=10)
    repo = ctx.repo
    for c in repo.expr_classes():
        lo = repo.class_attr(c, "_lower")
        ch = repo.class_attr(c, "chunks")
        if not lo or not ch or not isinstance(lo[1], FuncInfo) or not isinstance(ch[1], FuncInfo):
            continue
        if not lo[0].module.is_unit or not ch[0].module.is_unit:
            continue
        low_live, low_pin = live_config_reads(ctx, lo[1])
        adv_live, adv_pin = live_config_reads(ctx, ch[1])
        if not (low_live or low_pin or adv_live or adv_pin):
            continue
        rr.inst(c.construct, lower=f"{lo[0].name}._lower", chunks=f"{ch[0].name}.chunks", lower_live=sorted(low_live), lower_pinned=sorted(low_pin), chunks_live=sorted(adv_live), chunks_pinned=sorted(adv_pin))
        clash = (set(low_live) & (set(adv_live) | set(adv_pin))) | (set(adv_live) & set(low_pin))
        for k in sorted(clash):
            g, node, path = low_live.get(k) or adv_live.get(k)
            ctx.finding(
                rr, f"{c.construct}::{k}",
                f"{c.name} reads configuration {k!r} both when advertising its layout ({ch[0].name}.chunks) and when lowering ({lo[0].name}._lower), and not under one per-node captured "
                f"setting: if the option changes between construction and graph building the node advertises one block structure and becomes another, and consumers that planned "
                f"from the advertised structure (tree reductions, per-block literals) compute wrong values",
                func=g, node=node, path=list(path),
            )
    return rr


def r09_6(ctx):
    """Informational inventory of every configuration read site (nothing is judged: the configuration clause is not decided)."""
    rr = RuleResult("R09.6", "INFO", "inventory of configuration read sites (listed, not judged)", min_instances=15)
    for f in ctx.repo.all_functions():
        for node, key in _config_reads(f):
            rr.inst(site(f, node)[:200], key=key)
    return rr


RULES = [r09_1, r09_2, r09_3, r09_4, r09_5, r09_6, r09_7]

from .upstream import upstream_facts  # noqa: E402

RULES_THOROUGH = RULES + [upstream_facts]

LEVEL_TEXT = (
    "Static decision of the history clause of C09: who-may-touch the process-wide lowering cache and under which key, a "
    "cache-free-path rule for pinned-name nodes, an effect analysis of every rewrite/lowering/fusion/layer hook (no instance, "
    "global, module- or class-level state written), derivation and invalidation of the per-collection lowered cache, a reviewed "
    "inventory of all process-wide mutable state with its allowed writers (a new memo cache or a new writer is reported), and a "
    "reviewed inventory of configuration keys readable from lowering paths. The configuration clause (same values under every "
    "setting) is not decided; configuration read sites are listed."
)
LEVEL_NOTE = (
    "Trusted: CPython ast, sa.callgraph, frozen inventories in sa/rules/c09.py. Value-neutrality of layout decisions taken from "
    "configuration is assumed, not shown."
)
TECHNIQUE = "static analysis: who-may-write rules over process-wide state, effect analysis of rewrite hooks, call-graph reachability from lowering to configuration reads against a frozen inventory (ast)"

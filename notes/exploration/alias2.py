import numpy as np, dask_array as da, warnings
warnings.simplefilter('ignore')
x = da.from_array(np.arange(1.0, 9.0), chunks=4)
d = da.map_blocks(lambda a, b=None: a + np.asarray(b).sum(), da.ones(8, chunks=4), b=x, dtype=float)
print(type(d.expr).__name__, [type(o).__name__ for o in d.expr.operands][:14])
kw = d.expr.operand('kwargs'); print({k: type(v).__name__ for k,v in (kw or {}).items()})
b = d.compute(); nm = d.name
x[0] = 100.0
a = d.compute()
print('kwarg-array aliasing:', 'OK' if np.allclose(a,b) else 'ALIASED', nm == d.name)
# blockwise with kwargs array
d2 = da.blockwise(lambda a, w=None: a + np.asarray(w).sum(), 'i', da.ones(8, chunks=4), 'i', w=x, dtype=float)
b = d2.compute(); x[1] = -50.0; a = d2.compute()
print('blockwise kwarg aliasing:', 'OK' if np.allclose(a,b) else 'ALIASED')
# generic random with array arg
rs = da.random.RandomState(0)
lam = da.from_array(np.arange(1.0, 9.0), chunks=4)
r = rs.gamma(lam, 1.0, chunks=4)
print(type(r.expr).__name__, [type(o).__name__ for o in r.expr.operands], [type(o).__name__ for o in r.expr.operand('args')])
try:
    v1 = r.compute(); lam[0] = 1000.0; v2 = r.compute(); print('random arg aliasing', 'OK' if np.allclose(v1, v2) else 'ALIASED')
except Exception as e: print('ERR', type(e).__name__, str(e)[:150])

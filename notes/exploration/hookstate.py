import ast, os
ROOT='/repo/dask_array'
HOOK=lambda n: n in {'_simplify_down','_simplify_up','_lower','lower_once','_slice_pushdown','_rechunk_pushdown','_shuffle_pushdown','_preserve_grid_contract','_other_dependents','_unlink_pushed_dependency'} or n.startswith('_accept_') or n.startswith('_pushdown')
for dp,dn,fns in os.walk(ROOT):
    if '/tests' in dp: continue
    for f in fns:
        if not f.endswith('.py'): continue
        p=os.path.join(dp,f); t=ast.parse(open(p).read())
        # global statements anywhere
        for n in ast.walk(t):
            if isinstance(n,(ast.Global,ast.Nonlocal)):
                print('GLOBAL/NONLOCAL',p.replace(ROOT+'/',''),n.lineno,n.names)
        for c in ast.walk(t):
            if isinstance(c,(ast.FunctionDef,)) and (HOOK(c.name) or c.name in ('optimize_blockwise_fusion_array','_materialize','_lower','unify_chunks_expr')):
                for n in ast.walk(c):
                    tg=[]
                    if isinstance(n,ast.Assign): tg=n.targets
                    elif isinstance(n,(ast.AugAssign,ast.AnnAssign)): tg=[n.target]
                    for x in tg:
                        if isinstance(x,ast.Attribute):
                            print('ATTRSTORE',p.replace(ROOT+'/',''),c.name,n.lineno,ast.unparse(x))
# module-level mutable containers
for dp,dn,fns in os.walk(ROOT):
    if '/tests' in dp: continue
    for f in fns:
        if not f.endswith('.py'): continue
        p=os.path.join(dp,f); t=ast.parse(open(p).read())
        for n in t.body:
            if isinstance(n,(ast.Assign,ast.AnnAssign)):
                v=n.value
                if isinstance(v,(ast.Dict,ast.List,ast.Set)) or (isinstance(v,ast.Call) and ast.unparse(v.func).split('.')[-1] in ('dict','list','set','defaultdict','WeakValueDictionary','WeakKeyDictionary','OrderedDict','Dispatch','local')):
                    names=[ast.unparse(x) for x in (n.targets if isinstance(n,ast.Assign) else [n.target])]
                    if not all(x.isupper() or x=='__all__' for x in names):
                        print('MODSTATE',p.replace(ROOT+'/',''),n.lineno,names, ast.unparse(v)[:50])
            

"""Index-space typing for the functions that map output axes to operand axes through index labels.

A blockwise-style node relates three index spaces: positions of the OUTPUT (``out_ind``, ``self.shape``, ``self.chunks``,
the pushed slice's ``index``), positions of one OPERAND (``arg.shape``, ``arg.chunks``, the operand's index tuple) and the
LABELS that connect them (``out_ind.index(label)`` turns a label into an output position).  Using a position of one space to
subscript a sequence laid out in another compiles, runs, and is right whenever the two orders coincide (every elementwise
case), which is why tests rarely notice.  This module assigns

* to each sequence expression the space it is indexed by (``domain``), from its provenance: layout attributes of ``self``
  / of an operand, the operand's paired index tuple, comprehensions and append-loops over a sequence of known space,
  ``tuple()``/``list()`` wrappers;
* to each integer name the space it is a position in (``kind``), from its binder: ``for i, x in enumerate(S)``,
  ``for i in range(len(S))`` / ``range(a.ndim)``, ``i = S.index(v)``, resolved lexically (comprehension targets shadow);

and reports ``S[i]`` only when both are known and differ.  Anything not determinable is left alone, so the analysis is
silent on code it does not understand.
"""

from __future__ import annotations

import ast

from .dataflow import Defs
from .model import unparse

LAYOUT_ATTRS = {"shape", "chunks", "numblocks"}
OUT = "OUT"


def _arg(name):
    return f"ARG:{name}"


class IndexSpaces:
    def __init__(self, func_node, param_domains=None):
        self.fn = func_node
        self.param_domains = dict(param_domains or {})  # parameter name -> space, inferred from the call sites
        self.defs = Defs(func_node)
        self.parents = {}
        for p in ast.walk(func_node):
            for ch in ast.iter_child_nodes(p):
                self.parents[ch] = p
        self.pair = self._pairs()
        self._dom_cache = {}

    # -- operand / index-tuple pairing ---------------------------------------------------------------------------
    def _pairs(self):
        """index-tuple name -> operand name: ``for arr, ind in partition(2, args)``, ``arg, arg_ind = args[i], args[i + 1]``,
        ``arg = args[i]`` + ``arg_ind = args[i + 1]``, ``arg_ind = tuple(range(arg.ndim)...)``."""
        pair = {}
        for n in ast.walk(self.fn):
            if isinstance(n, (ast.For, ast.comprehension)):
                t, it = n.target, n.iter
                if (
                    isinstance(t, ast.Tuple) and len(t.elts) == 2 and all(isinstance(e, ast.Name) for e in t.elts)
                    and isinstance(it, ast.Call) and unparse(it.func).endswith("partition") and it.args
                    and isinstance(it.args[0], ast.Constant) and it.args[0].value == 2
                ):
                    pair[t.elts[1].id] = t.elts[0].id
        subs = {}
        for name, vs in self.defs.defs.items():
            for v in vs:
                if isinstance(v, ast.Subscript):
                    subs.setdefault(name, []).append(v)
                elif isinstance(v, ast.Call) and unparse(v.func) in ("tuple", "list") and v.args:
                    # arg_ind = tuple(range(arg.ndim)[::-1])
                    for m in ast.walk(v.args[0]):
                        if isinstance(m, ast.Attribute) and m.attr == "ndim" and isinstance(m.value, ast.Name) and m.value.id != "self" and "range" in unparse(v.args[0]):
                            pair[name] = m.value.id
        for b, vb in subs.items():
            for v in vb:
                for a, va in subs.items():
                    for w in va:
                        if a != b and unparse(v.value) == unparse(w.value) and unparse(v.slice) == unparse(w.slice) + " + 1":
                            pair[b] = a
        return pair

    # -- domains ---------------------------------------------------------------------------------------------------
    def _enclosing(self, n, kinds):
        while n in self.parents:
            n = self.parents[n]
            if isinstance(n, kinds):
                return n
        return None

    def iter_domain(self, it, depth=0):
        """The space walked by iterating ``it`` (positions of ``enumerate(S)`` / ``range(len(S))`` / ``S`` itself)."""
        if isinstance(it, ast.Call):
            fn = unparse(it.func)
            if fn == "enumerate" and it.args:
                return self.domain(it.args[0], depth + 1)
            if fn == "range" and len(it.args) == 1:
                a = it.args[0]
                if isinstance(a, ast.Call) and unparse(a.func) == "len" and a.args:
                    return self.domain(a.args[0], depth + 1)
                if isinstance(a, ast.Attribute) and a.attr == "ndim" and isinstance(a.value, ast.Name):
                    return OUT if a.value.id == "self" else _arg(a.value.id)
                return None
            if fn == "zip":
                ds = {self.domain(a, depth + 1) for a in it.args}
                ds.discard(None)
                return ds.pop() if len(ds) == 1 else None
            if fn in ("reversed", "sorted", "list", "tuple"):
                return None
        return self.domain(it, depth + 1)

    def domain(self, e, depth=0):
        if depth > 8 or e is None:
            return None
        if isinstance(e, ast.Attribute):
            if isinstance(e.value, ast.Name):
                if e.attr in LAYOUT_ATTRS:
                    return OUT if e.value.id == "self" else _arg(e.value.id)
                if e.attr == "out_ind" and e.value.id == "self":
                    return OUT
                if e.attr == "index" and e.value.id in self.defs.params and e.value.id != "self":
                    return OUT  # the pushed slice's index is laid out over this node's output axes
            return None
        if isinstance(e, ast.Name):
            if e.id in self.pair:
                return _arg(self.pair[e.id])
            if e.id in self.param_domains and e.id in self.defs.params and not self.defs.defs.get(e.id):
                return self.param_domains[e.id]
            if e.id in self._dom_cache:
                return self._dom_cache[e.id]
            self._dom_cache[e.id] = None
            ds = set()
            for v, k in zip(self.defs.defs.get(e.id, []), self.defs.kinds.get(e.id, [])):
                if k != "assign":
                    ds.add(None)
                    continue
                if isinstance(v, (ast.List, ast.Tuple)) and not v.elts:
                    continue  # [] filled by append below
                ds.add(self.domain(v, depth + 1))
            for c in ast.walk(self.fn):
                if isinstance(c, ast.Call) and isinstance(c.func, ast.Attribute) and c.func.attr in ("append", "insert", "extend") and isinstance(c.func.value, ast.Name) and c.func.value.id == e.id:
                    if c.func.attr != "append":
                        ds.add(None)
                        continue
                    lp = self._enclosing(c, (ast.For,))
                    ds.add(self.iter_domain(lp.iter, depth + 1) if lp is not None else None)
            r = ds.pop() if len(ds) == 1 else None
            self._dom_cache[e.id] = r
            return r
        if isinstance(e, (ast.ListComp, ast.GeneratorExp)) and len(e.generators) == 1 and not e.generators[0].ifs:
            return self.iter_domain(e.generators[0].iter, depth + 1)
        if isinstance(e, ast.Call):
            if unparse(e.func) in ("tuple", "list", "np.array", "np.asarray") and e.args:
                return self.domain(e.args[0], depth + 1)
            return None
        if isinstance(e, ast.BinOp) and isinstance(e.op, ast.Add):
            return self.domain(e.left, depth + 1)  # index + (slice(None),) * pad
        return None

    # -- kinds -----------------------------------------------------------------------------------------------------
    def _binder_kind(self, binder, name):
        """Kind given by a For / comprehension that binds ``name`` (None when it binds it in an unrecognised way);
        ``...`` (Ellipsis) when the binder does not bind the name at all."""
        t, it = binder.target, binder.iter
        names = {m.id for m in ast.walk(t) if isinstance(m, ast.Name)}
        if name not in names:
            return ...
        if isinstance(it, ast.Call) and unparse(it.func) == "enumerate" and isinstance(t, ast.Tuple) and t.elts and isinstance(t.elts[0], ast.Name) and t.elts[0].id == name:
            return self.iter_domain(it)
        if isinstance(it, ast.Call) and unparse(it.func) == "range" and isinstance(t, ast.Name):
            return self.iter_domain(it)
        return None

    def kind(self, use: ast.Name):
        """Space that the integer ``use`` is a position in, or None."""
        name = use.id
        n = use
        while n in self.parents:
            p = self.parents[n]
            if isinstance(p, (ast.ListComp, ast.SetComp, ast.GeneratorExp, ast.DictComp)):
                for g in p.generators:
                    k = self._binder_kind(g, name)
                    if k is not ...:
                        return k
            elif isinstance(p, ast.For) and n is not p.iter:
                k = self._binder_kind(p, name)
                if k is not ...:
                    return k
            n = p
        # not bound by an enclosing loop: plain assignments ``name = S.index(v)`` (all of them must agree)
        ks = set()
        vs = self.defs.defs.get(name, [])
        kinds = self.defs.kinds.get(name, [])
        if not vs or name in self.defs.params:
            return None
        for v, kd in zip(vs, kinds):
            if kd == "loop" or kd == "comp":
                continue  # bound by a loop that does not enclose this use
            if kd == "assign" and isinstance(v, ast.Call) and isinstance(v.func, ast.Attribute) and v.func.attr == "index" and len(v.args) == 1:
                ks.add(self.domain(v.func.value))
            else:
                ks.add(None)
        return ks.pop() if len(ks) == 1 else None

    def call_argument_domains(self):
        """[(call node, [space of each positional argument])] for calls ``self.<method>(...)`` - lets a rule hand the
        spaces of the actual arguments to the callee's parameters."""
        out = []
        for n in ast.walk(self.fn):
            if isinstance(n, ast.Call) and isinstance(n.func, ast.Attribute) and isinstance(n.func.value, ast.Name) and n.func.value.id == "self":
                out.append((n, [None if isinstance(a, ast.Starred) else self.domain(a) for a in n.args]))
        return out

    # -- the check -------------------------------------------------------------------------------------------------
    def mismatches(self):
        """[(subscript node, sequence space, index space)] and the number of subscripts whose two sides were both typed."""
        out, typed = [], 0
        for n in ast.walk(self.fn):
            if isinstance(n, ast.Subscript) and isinstance(n.ctx, ast.Load) and isinstance(n.slice, ast.Name):
                k = self.kind(n.slice)
                if not k:
                    continue
                d = self.domain(n.value)
                if d is None:
                    continue
                typed += 1
                if d != k:
                    out.append((n, d, k))
        return out, typed

import numpy as np, random, warnings, sys
warnings.simplefilter("ignore")
import dask_array as da
seed=int(sys.argv[1]) if len(sys.argv)>1 else 0
random.seed(seed); bad=0
def rch(n): return random.choice([1,2,3,n,(n-1,1) if n>1 else n])
def loc_fn(block, block_info=None):
    # encode the array-location of every element as seen by block_info
    loc=block_info[0]['array-location']
    out=np.zeros(block.shape)
    for ax,(s,e) in enumerate(loc):
        sh=[1]*block.ndim; sh[ax]=block.shape[ax]
        out=out+np.arange(s,e).reshape(sh)*(10**ax)
    return out+block*0
def id_fn(block, block_id=None):
    return block*0+sum(b*(10**i) for i,b in enumerate(block_id))
def nchunk_fn(block, block_info=None):
    return block*0+sum(n*(10**i) for i,n in enumerate(block_info[0]['num-chunks']))+1000*sum(block_info[0]['shape'])
def pre(x,a):
    k=random.random()
    if k<0.18 and a.shape[0]>=3:
        w=random.choice([2,3]); return da.sliding_window_view(x,w,axis=0).max(axis=-1), np.lib.stride_tricks.sliding_window_view(a,w,axis=0).max(axis=-1), f'swmax{w}'
    if k<0.25:
        idx=tuple(random.choice([slice(None), slice(1,None), slice(None,-1), slice(None,None,2), slice(None,None,-1)]) for s in a.shape); return x[idx],a[idx],f'slice{idx}'
    if k<0.4: return x+1,a+1,'add1'
    if k<0.5:
        ch=tuple(rch(s) for s in a.shape); return x.rechunk(ch),a,f'rechunk{ch}'
    if k<0.6: return x.T,a.T,'T'
    if k<0.7:
        ax=random.randrange(a.ndim); ind=[random.randrange(a.shape[ax]) for _ in range(4)]; return da.take(x,ind,axis=ax),np.take(a,ind,axis=ax),f'take{ax}{ind}'
    if k<0.8:
        y=da.from_array(a*2,chunks=tuple(rch(s) for s in a.shape)); return x+y, a+a*2, 'addarr'
    if k<0.9: return da.concatenate([x,x],axis=0), np.concatenate([a,a],axis=0),'concat'
    if k<0.97 and a.shape[-1]>=3:
        w=random.choice([2,3]); return da.sliding_window_view(x,w,axis=-1).sum(axis=-1), np.lib.stride_tricks.sliding_window_view(a,w,axis=-1).sum(axis=-1), f'swsum{w}'
    return x,a,'id'
def post(r,want):
    k=random.random()
    if 0 in want.shape: return r,want,'id'
    if k<0.4:
        idx=tuple(random.choice([slice(None), slice(1,None), slice(None,-1), slice(None,None,2), slice(None,None,-1), random.randrange(s), slice(1,2)]) for s in want.shape); return r[idx],want[idx],f'slice{idx}'
    if k<0.5:
        ax=random.randrange(want.ndim); ind=[random.randrange(want.shape[ax]) for _ in range(3)]; return da.take(r,ind,axis=ax),np.take(want,ind,axis=ax),f'take{ax}{ind}'
    if k<0.6: return r.T,want.T,'T'
    if k<0.7:
        ch=tuple(rch(s) for s in want.shape); return r.rechunk(ch),want,f'rechunk{ch}'
    if k<0.8:
        ax=random.randrange(want.ndim); return r.sum(axis=ax),want.sum(axis=ax),f'sum{ax}'
    if k<0.9: return r+1,want+1,'add1'
    return r,want,'id'
def expected(fn, x, a):
    # evaluate fn per block on the ADVERTISED layout of x
    out=np.zeros(a.shape)
    import itertools
    bounds=[np.cumsum((0,)+c) for c in x.chunks]
    for bid in itertools.product(*[range(len(c)) for c in x.chunks]):
        sl=tuple(slice(bounds[i][b],bounds[i][b+1]) for i,b in enumerate(bid))
        info={0:{'shape':a.shape,'num-chunks':tuple(len(c) for c in x.chunks),'array-location':[(int(bounds[i][b]),int(bounds[i][b+1])) for i,b in enumerate(bid)],'chunk-location':bid}}
        blk=a[sl]
        out[sl]= fn(blk, block_info=info) if fn is not id_fn else fn(blk, block_id=bid)
    return out
for p in range(int(sys.argv[2]) if len(sys.argv)>2 else 300):
    n,m=random.choice([(6,4),(4,6),(5,3)])
    a=np.arange(float(n*m)).reshape(n,m)
    x=da.from_array(a,chunks=(rch(n),rch(m)))
    log=[x.chunks]
    try:
        for _ in range(random.randint(0,3)):
            x,a,l=pre(x,a); log.append(l)
        if 0 in a.shape: continue
        fn=random.choice([loc_fn,id_fn,nchunk_fn]); log.append(fn.__name__); log.append(('chunks',x.chunks))
        want=expected(fn,x,a)
        r=x.map_blocks(fn,dtype=float)
        for _ in range(random.randint(0,3)):
            r,want,l=post(r,want); log.append(l)
        g=r.compute()
        if g.shape!=want.shape or not np.allclose(g,want): bad+=1; print('MISMATCH',seed,p,log)
    except Exception as e:
        bad+=1; print('RAISE',seed,p,type(e).__name__,str(e)[:100],log)
print('bad',bad)

"""Witness for R02.8 (repaired in /repo): a slice pushed through an elemwise with where=/out= arrays.
Exit 0 when every sliced result equals NumPy's, 1 otherwise (before the repair: other values for o[:, ::-1],
ValueError for o[:, 1:4], KeyError for o[1] after np.add(x, 1, out=o))."""
import sys
import warnings

import numpy as np

import dask_array as da

warnings.simplefilter("ignore")
a = np.arange(24.0).reshape(4, 6) % 7 - 2
bad = 0
keys = [
    (Ellipsis, slice(None, None, -1)), (slice(None), slice(1, 4)), (slice(None), slice(None, None, 2)),
    (slice(None, None, -1),), (1,), (slice(None), [0, 3]), (slice(1, 3), 2),
]
for ch in [(2, 3), (4, 6), (1, 2)]:
    for mode in ("where+out", "out only", "broadcast where"):
        x = da.from_array(a, chunks=ch)
        o = da.from_array(np.zeros_like(a), chunks=ch)
        if mode == "where+out":
            da.multiply(x, 2.0, out=o, where=da.from_array(a > 0, chunks=2))
            want = np.where(a > 0, a * 2.0, 0.0)
        elif mode == "out only":
            da.add(x, 1.0, out=o)
            want = a + 1.0
        else:
            da.multiply(x, 2.0, out=o, where=da.from_array(a[0] > 0, chunks=3))
            want = np.where(a[0] > 0, a * 2.0, 0.0)
        for k in keys:
            try:
                if not np.array_equal(o[k].compute(), want[k]):
                    bad += 1
                    print(ch, mode, k, "differs")
            except Exception as e:  # noqa: BLE001
                bad += 1
                print(ch, mode, k, type(e).__name__, str(e)[:80])
sys.exit(1 if bad else 0)

"""Flow-sensitive may-alias analysis of one function w.r.t. its parameters.

Lattice per local: the set of *parameter tokens* its value may alias (empty set =
fresh).  ``"p"`` means the value may BE the object bound to parameter ``p`` (or a
view sharing its buffer); ``"p[*]"`` means it is a fresh container that may HOLD
that object (``list(p)``, ``[p, q]``, the ``*args`` / ``**kwargs`` containers).
Subscripting/iterating turns ``p[*]`` back into ``p``; only identity tokens make
a write a finding.  States are propagated over the statement CFG with a worklist; at joins
the sets are united.  A *write* (subscript store, augmented assignment, in-place
method, ``out=``, ``np.copyto`` & co, attribute store) whose target may alias a
parameter is reported.

Recognised idioms (so that deleting the copy is still caught, see DESIGN R10.1):
``isinstance(v, np.generic)`` true-branch -> v is an immutable scalar (fresh);
``hasattr(v, "copy")`` false-branch -> v has no buffer to copy (fresh).
"""

from __future__ import annotations

import ast
from collections import deque

from .cfg import CFG
from .model import dotted, unparse

VIEW_METHODS = {"view", "reshape", "ravel", "squeeze", "transpose", "swapaxes", "__array__", "diagonal", "byteswap", "newbyteorder", "get", "setdefault", "values", "items", "keys", "__getitem__", "toarray"}
VIEW_FUNCS = {
    "asarray", "asanyarray", "ascontiguousarray", "asfortranarray", "squeeze", "transpose", "broadcast_to", "atleast_1d",
    "atleast_2d", "atleast_3d", "reshape", "ravel", "moveaxis", "swapaxes", "expand_dims", "rollaxis", "flip", "fliplr", "flipud",
    "as_strided", "sliding_window_view", "diagonal", "real", "imag", "broadcast_arrays", "array_split", "split", "hsplit", "vsplit",
    "dsplit", "rot90", "asarray_safe", "require", "asarray_chkfinite", "asmatrix", "real_if_close", "trim_zeros", "getdata", "getmaskarray", "getmask", "nan_to_num_inplace", "iter", "next", "reversed", "list", "tuple", "dict", "zip", "enumerate", "getattr", "first", "second", "last", "nth", "partition", "concat",
}
ALIAS_ATTRS = {"T", "mT", "real", "imag", "flat", "base", "data", "values", "array", "mask", "_data", "_mask", "A", "parent"}
FRESH_METHODS = {"copy", "astype", "sum", "mean", "tolist", "item", "tobytes", "dot", "conj", "conjugate", "round", "clip", "cumsum", "cumprod", "max", "min", "any", "all", "argmax", "argmin", "nonzero", "compress", "take", "repeat", "flatten", "filled", "compressed", "format", "join", "split", "strip"}
INPLACE_METHODS = {"sort", "fill", "partition", "resize", "put", "itemset", "setflags", "setfield", "append", "extend", "insert", "remove", "clear", "update", "popitem", "reverse", "add", "discard", "pop", "__setitem__", "__delitem__"}
WRITE_ARG0_FUNCS = {"copyto", "put", "place", "putmask", "fill_diagonal", "put_along_axis", "setitem", "shuffle"}


CONTAINER_FUNCS = {"list", "tuple", "dict", "set", "frozenset", "sorted", "zip", "enumerate", "reversed", "concat", "partition", "OrderedDict", "defaultdict"}


SCALAR_TYPES = {"np.generic", "numpy.generic", "generic", "Number", "numbers.Number", "Integral", "numbers.Integral", "Real", "int", "float", "complex", "bool", "str", "bytes", "np.number", "np.integer", "np.floating", "np.bool_", "np.str_"}


def _only_scalar_types(spec):
    """``spec`` (second argument of isinstance) names immutable scalar types only - ``np.generic`` or a tuple of such.
    ``(np.ndarray, np.generic)`` does NOT qualify: the true arm may hold an array."""
    elts = spec.elts if isinstance(spec, ast.Tuple) else [spec]
    return bool(elts) and all((dotted(e) or "") in SCALAR_TYPES for e in elts)


def _contain(al):
    """A fresh container whose elements may be the given values."""
    return frozenset(t if t.endswith("[*]") else t + "[*]" for t in al)


def _elem(al):
    """An element of the given value: for element tokens, the element may be the object itself."""
    return frozenset(t[:-3] if t.endswith("[*]") else t for t in al)


def _identity(al):
    """Tokens the value may BE (as opposed to merely contain)."""
    return frozenset(t for t in al if not t.endswith("[*]"))


class Write:
    def __init__(self, node, stmt, targets, how):
        self.node, self.stmt, self.targets, self.how = node, stmt, targets, how


def _np_func_tail(call):
    fn = dotted(call.func)
    return fn.rsplit(".", 1)[-1] if fn else None


class AliasAnalysis:
    def __init__(self, func_node, summaries=None, resolver=None):
        """``summaries``: callable(call node) -> set of argument indexes / keyword names the
        callee's return value may alias, or None when the callee is unknown."""
        self.func = func_node
        self.cfg = CFG(func_node)
        a = func_node.args
        self.params = [x.arg for x in a.posonlyargs + a.args + a.kwonlyargs]
        self.vararg = a.vararg.arg if a.vararg else None
        self.kwarg = a.kwarg.arg if a.kwarg else None
        self.summaries = summaries
        # parameters with array-like evidence (subscripted or array attributes read): ``x += 1`` is an
        # in-place write only for those; for ints/tuples (``axis += ndim``) it merely rebinds
        self.arraylike = set()
        for n in ast.walk(func_node):
            if isinstance(n, ast.Subscript) and isinstance(n.value, ast.Name):
                self.arraylike.add(n.value.id)
            elif isinstance(n, ast.Attribute) and isinstance(n.value, ast.Name) and n.attr in ("shape", "dtype", "ndim", "T", "size", "flags", "astype", "copy", "reshape", "view", "real", "imag"):
                self.arraylike.add(n.value.id)
        self.writes: list[Write] = []
        self.returns_alias: set = set()
        self._run()

    # -- abstract evaluation --------------------------------------------------------
    def init_state(self):
        st = {p: frozenset({p}) for p in self.params}
        if self.vararg:
            st[self.vararg] = frozenset({self.vararg + "[*]"})
        if self.kwarg:
            st[self.kwarg] = frozenset({self.kwarg + "[*]"})
        return st

    def alias(self, e, st):
        if e is None:
            return frozenset()
        if isinstance(e, ast.Name):
            return st.get(e.id, frozenset())
        if isinstance(e, ast.Starred):
            return self.alias(e.value, st)
        if isinstance(e, ast.Subscript):
            # a view of an array IS (shares the buffer of) its base; an element of a container is
            # whatever the container holds
            return _elem(self.alias(e.value, st)) | self.alias(e.value, st)
        if isinstance(e, ast.Attribute):
            if e.attr in ALIAS_ATTRS:
                return self.alias(e.value, st)
            return frozenset()
        if isinstance(e, ast.IfExp):
            body = self.alias(e.body, st)
            orelse = self.alias(e.orelse, st)
            t = e.test
            # isinstance(v, np.generic): the true arm handles an immutable scalar
            if isinstance(t, ast.Call) and dotted(t.func) == "isinstance" and len(t.args) == 2 and _only_scalar_types(t.args[1]):
                body = frozenset()
            return body | orelse
        if isinstance(e, ast.BoolOp):
            out = frozenset()
            for v in e.values:
                out |= self.alias(v, st)
            return out
        if isinstance(e, (ast.Tuple, ast.List, ast.Set)):
            out = frozenset()
            for v in e.elts:
                out |= self.alias(v, st)
            return _contain(out)  # a fresh container holding those values
        if isinstance(e, ast.Dict):
            out = frozenset()
            for v in e.values:
                out |= self.alias(v, st)
            return _contain(out)
        if isinstance(e, ast.NamedExpr):
            return self.alias(e.value, st)
        if isinstance(e, (ast.ListComp, ast.GeneratorExp, ast.SetComp)):
            st2 = dict(st)
            for g in e.generators:
                al = self.alias(g.iter, st2)
                al = _elem(al) | al
                for n in ast.walk(g.target):
                    if isinstance(n, ast.Name):
                        st2[n.id] = al
            return _contain(self.alias(e.elt, st2))
        if isinstance(e, ast.DictComp):
            st2 = dict(st)
            for g in e.generators:
                al = self.alias(g.iter, st2)
                for n in ast.walk(g.target):
                    if isinstance(n, ast.Name):
                        st2[n.id] = al
            return _contain(self.alias(e.value, st2))
        if isinstance(e, ast.Call):
            return self.alias_call(e, st)
        if isinstance(e, ast.Await):
            return self.alias(e.value, st)
        return frozenset()

    def alias_call(self, call, st):
        f = call.func
        tail = _np_func_tail(call)
        if isinstance(f, ast.Attribute):
            recv = self.alias(f.value, st)
            if f.attr == "astype":
                for k in call.keywords:
                    if k.arg == "copy" and isinstance(k.value, ast.Constant) and k.value.value is False:
                        return recv
                return frozenset()
            if f.attr in FRESH_METHODS:
                return frozenset()
            if f.attr in ("pop", "get", "setdefault", "values", "items", "__getitem__", "popitem"):
                return _elem(recv) | recv  # element of a container
            if f.attr in VIEW_METHODS and recv:
                return recv
        if tail in ("array", "masked_array", "MaskedArray") and ".ma." in ("." + (dotted(call.func) or "")):
            # numpy.ma constructors default to copy=False: the result shares the input buffer
            for k in call.keywords:
                if k.arg == "copy" and isinstance(k.value, ast.Constant) and k.value.value is True:
                    return frozenset()
            return self.alias(call.args[0], st) if call.args else frozenset()
        if tail in ("array",):
            for k in call.keywords:
                if k.arg == "copy" and isinstance(k.value, ast.Constant) and k.value.value in (False, None):
                    return self.alias(call.args[0], st) if call.args else frozenset()
            return frozenset()
        if tail in CONTAINER_FUNCS:
            out = frozenset()
            for a in call.args:
                out |= self.alias(a, st)
            return _contain(out)
        if tail in VIEW_FUNCS:
            out = frozenset()
            for a in call.args:
                out |= self.alias(a, st)
            return out
        if self.summaries is not None:
            s = self.summaries(call)
            if s is not None:
                out = frozenset()
                for idx in s:
                    if isinstance(idx, int) and idx < len(call.args):
                        out |= self.alias(call.args[idx], st)
                    elif isinstance(idx, str):
                        for k in call.keywords:
                            if k.arg == idx:
                                out |= self.alias(k.value, st)
                return out
        return frozenset()

    # -- transfer --------------------------------------------------------------------
    def _assign(self, target, al, st):
        if isinstance(target, ast.Name):
            st[target.id] = al
        elif isinstance(target, (ast.Tuple, ast.List)):
            # unpacking: each target receives an ELEMENT of the value (``*rest, where, out = args`` binds ``out`` to
            # one of the arguments themselves, not to a container of them); a starred target a fresh list of elements
            elem = frozenset(t[:-3] if t.endswith("[*]") else t for t in al)
            for t in target.elts:
                if isinstance(t, ast.Starred):
                    self._assign(t.value, _contain(elem), st)
                else:
                    self._assign(t, elem, st)

    def _scan_writes(self, node, stmt, st, record):
        """Writes performed by evaluating expression ``node``."""
        for n in ast.walk(node):
            if isinstance(n, ast.Call):
                tail = _np_func_tail(n)
                for k in n.keywords:
                    if k.arg == "out":
                        al = _identity(self.alias(k.value, st))
                        if al and record:
                            self.writes.append(Write(n, stmt, al, f"out={unparse(k.value)}"))
                if isinstance(n.func, ast.Attribute) and n.func.attr in INPLACE_METHODS:
                    base = n.func.value
                    al = _identity(self.alias(base, st))
                    # mutating the *args / **kwargs container itself is local
                    if isinstance(base, ast.Name) and base.id in (self.vararg, self.kwarg):
                        al = frozenset()
                    if al and record:
                        self.writes.append(Write(n, stmt, al, f".{n.func.attr}() on {unparse(base)}"))
                elif tail in WRITE_ARG0_FUNCS and n.args and isinstance(n.func, ast.Attribute) and (dotted(n.func) or "").split(".")[0] in ("np", "numpy", "random", "xp"):
                    al = _identity(self.alias(n.args[0], st))
                    if al and record:
                        self.writes.append(Write(n, stmt, al, f"{dotted(n.func)}({unparse(n.args[0])}, ...)"))

    def _store_write(self, target, stmt, st, record, how):
        if isinstance(target, ast.Subscript):
            base = target.value
            al = _identity(self.alias(base, st))
            if isinstance(base, ast.Name) and base.id in (self.vararg, self.kwarg):
                al = frozenset()
            if al and record:
                self.writes.append(Write(target, stmt, al, f"{how} {unparse(target)}"))
        elif isinstance(target, ast.Attribute):
            al = _identity(self.alias(target.value, st))
            if al and record:
                self.writes.append(Write(target, stmt, al, f"{how} {unparse(target)}"))
        elif isinstance(target, (ast.Tuple, ast.List)):
            for t in target.elts:
                self._store_write(t, stmt, st, record, how)

    def transfer(self, s, st, record):
        st = dict(st)
        if isinstance(s, ast.Assign):
            self._scan_writes(s.value, s, st, record)
            al = self.alias(s.value, st)
            for t in s.targets:
                self._store_write(t, s, st, record, "store")
                if isinstance(t, (ast.Tuple, ast.List)) and isinstance(s.value, (ast.Tuple, ast.List)) and len(t.elts) == len(s.value.elts):
                    for tt, vv in zip(t.elts, s.value.elts):
                        self._assign(tt, self.alias(vv, st), st)
                else:
                    self._assign(t, al, st)
        elif isinstance(s, ast.AnnAssign):
            if s.value is not None:
                self._scan_writes(s.value, s, st, record)
                self._store_write(s.target, s, st, record, "store")
                self._assign(s.target, self.alias(s.value, st), st)
        elif isinstance(s, ast.AugAssign):
            self._scan_writes(s.value, s, st, record)
            if isinstance(s.target, ast.Name):
                al = _identity(st.get(s.target.id, frozenset()))
                al = frozenset(t for t in al if t in self.arraylike)
                if al and record:
                    self.writes.append(Write(s.target, s, al, f"augmented assignment {unparse(s.target)} {type(s.op).__name__}= (in place for arrays)"))
            else:
                self._store_write(s.target, s, st, record, "augmented store")
        elif isinstance(s, (ast.For, ast.AsyncFor)):
            self._scan_writes(s.iter, s, st, record)
            it = self.alias(s.iter, st)
            self._assign(s.target, _elem(it) | it, st)
        elif isinstance(s, (ast.With, ast.AsyncWith)):
            for it in s.items:
                self._scan_writes(it.context_expr, s, st, record)
                if it.optional_vars is not None:
                    self._assign(it.optional_vars, self.alias(it.context_expr, st), st)
        elif isinstance(s, (ast.If, ast.While)):
            self._scan_writes(s.test, s, st, record)
            for n in ast.walk(s.test):
                if isinstance(n, ast.NamedExpr):
                    self._assign(n.target, self.alias(n.value, st), st)
        elif isinstance(s, ast.Return):
            if s.value is not None:
                self._scan_writes(s.value, s, st, record)
                if record:
                    self.returns_alias |= self.alias(s.value, st)
        elif isinstance(s, ast.Delete):
            for t in s.targets:
                self._store_write(t, s, st, record, "delete")
        elif isinstance(s, (ast.Expr,)):
            self._scan_writes(s.value, s, st, record)
        elif isinstance(s, (ast.FunctionDef, ast.AsyncFunctionDef, ast.ClassDef)):
            st[s.name] = frozenset()
        elif isinstance(s, ast.Assert):
            pass
        elif isinstance(s, ast.Raise):
            pass
        elif isinstance(s, ast.Match):
            self._scan_writes(s.subject, s, st, record)
        return st

    def refine(self, a, lbl, st):
        """Path-sensitive refinement on the outgoing edge (a, lbl)."""
        if not isinstance(a, (ast.If, ast.While)) or lbl not in (True, False):
            return st
        t = a.test
        pol = lbl
        while isinstance(t, ast.UnaryOp) and isinstance(t.op, ast.Not):
            t, pol = t.operand, (not pol)
        if isinstance(t, ast.Call) and isinstance(t.func, ast.Name) and t.args and isinstance(t.args[0], ast.Name):
            v = t.args[0].id
            if t.func.id == "isinstance" and len(t.args) == 2 and _only_scalar_types(t.args[1]) and pol is True:
                st = dict(st)
                st[v] = frozenset()
            elif t.func.id == "hasattr" and len(t.args) == 2 and isinstance(t.args[1], ast.Constant) and t.args[1].value == "copy" and pol is False:
                st = dict(st)
                st[v] = frozenset()
        if isinstance(t, ast.Compare) and len(t.ops) == 1 and isinstance(t.ops[0], (ast.Is, ast.Eq)) and isinstance(t.left, ast.Name) and isinstance(t.comparators[0], ast.Constant) and t.comparators[0].value is None and pol is True:
            st = dict(st)
            st[t.left.id] = frozenset()
        return st

    def _run(self):
        cfg = self.cfg
        IN = {cfg.entry: self.init_state()}
        work = deque([cfg.entry])
        iters = 0
        while work and iters < 20000:
            iters += 1
            n = work.popleft()
            st = IN.get(n, {})
            out = self.transfer(n, st, record=False) if isinstance(n, ast.stmt) else st
            for lbl, m in cfg.succ[n]:
                o = self.refine(n, lbl, out)
                cur = IN.get(m)
                if cur is None:
                    IN[m] = dict(o)
                    work.append(m)
                else:
                    changed = False
                    for k, v in o.items():
                        nv = cur.get(k, frozenset()) | v
                        if nv != cur.get(k, frozenset()) or k not in cur:
                            if k not in cur and not v:
                                cur[k] = v
                                continue
                            cur[k] = nv
                            changed = True
                    if changed:
                        work.append(m)
        self.IN = IN
        # recording pass over the fixpoint
        for n in cfg.nodes:
            if isinstance(n, ast.stmt) and n in IN:
                self.transfer(n, IN[n], record=True)

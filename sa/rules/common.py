"""Helpers shared by rule modules."""

from __future__ import annotations

import ast

from ..callgraph import CallGraph
from ..cfg import CFG, build_index
from ..model import AnalysisError, FuncInfo, dotted, norm, unparse


def callgraph(ctx) -> CallGraph:
    return ctx.cached("callgraph", lambda: CallGraph(ctx.repo))


def cfg_of(ctx, f: FuncInfo) -> CFG:
    return ctx.cached(("cfg", f.fq), lambda: CFG(f.node))


def cfg_index(ctx, f: FuncInfo):
    return ctx.cached(("cfgidx", f.fq), lambda: build_index(cfg_of(ctx, f)))


def site(f: FuncInfo, node=None) -> str:
    """Construct key: path::qualname[::normalised statement]."""
    if node is None:
        return f.construct
    return f"{f.construct}::{norm(node)}"


def need(cond, what):
    if not cond:
        raise AnalysisError(f"anchor vanished: {what}")


def is_docstring(module_or_func_node, const_node) -> bool:
    body = getattr(module_or_func_node, "body", None)
    if not body:
        return False
    first = body[0]
    return isinstance(first, ast.Expr) and first.value is const_node


def docstring_consts(tree):
    out = set()
    for n in ast.walk(tree):
        if isinstance(n, (ast.Module, ast.FunctionDef, ast.AsyncFunctionDef, ast.ClassDef)) and n.body:
            first = n.body[0]
            if isinstance(first, ast.Expr) and isinstance(first.value, ast.Constant) and isinstance(first.value.value, str):
                out.add(id(first.value))
    return out


def enclosing_function(module, node):
    """Innermost FuncInfo of ``module`` whose span contains ``node``."""
    best = None
    ln = getattr(node, "lineno", None)
    if ln is None:
        return None
    for f in module.functions.values():
        fn = f.node
        if fn.lineno <= ln <= (fn.end_lineno or fn.lineno):
            if best is None or fn.lineno >= best.node.lineno:
                best = f
    return best


def returns_of(f: FuncInfo):
    """Return statements of f's own body (not nested defs)."""
    from ..model import body_walk

    return [n for n in body_walk(f.node) if isinstance(n, ast.Return)]


def fmt_path(path):
    return [getattr(p, "fq", str(p)) for p in path]


def stmt_line(node):
    return getattr(node, "lineno", 0)


def nearest_def(cfg, stmt, name):
    """The closest assignment to ``name`` preceding ``stmt`` in its own block, else in the enclosing
    blocks (structural reaching definition for straight-line code); None when not found."""
    cur = stmt
    while cur in cfg.parent:
        par, fld, _lbl = cfg.parent[cur]
        sibs = cfg._siblings(cur, par, fld)
        if cur in sibs:
            i = sibs.index(cur)
            for prev in reversed(sibs[:i]):
                if isinstance(prev, ast.Assign) and any(isinstance(n, ast.Name) and n.id == name for t in prev.targets for n in ast.walk(t)):
                    return prev
                if isinstance(prev, ast.AugAssign) and isinstance(prev.target, ast.Name) and prev.target.id == name:
                    return prev
        if par is None:
            break
        cur = par
    return None


def chain_conjuncts(cfg, stmt, func_node=None, module=None):
    """The condition under which ``stmt`` runs, as a set of normalised conjunct texts (negation normal form, nested
    if / early-exit / De Morgan spellings unified, condition aliases looked through).  Rules should test membership
    in this set instead of matching ``(test, polarity)`` pairs literally."""
    from ..dataflow import Defs
    from ..refguards import _conjuncts, _inline, _nnf

    defs = Defs(func_node if func_node is not None else cfg.func)
    out = set()
    for t, pol in cfg.guards(stmt):
        for lit in _conjuncts(_nnf(_inline(t, defs, module=module), pol)):
            ast.fix_missing_locations(lit)
            out.add(unparse(lit))
    return out


def with_helpers(f: FuncInfo, depth=1):
    """``f`` and the same-module functions / same-class methods it calls (to ``depth``): a pattern that a rule looks
    for in ``f`` may have been extracted into a private helper, which is still part of f's behaviour."""
    out, seen, frontier = [f], {f.fq}, [f]
    for _ in range(depth):
        nxt = []
        for g in frontier:
            for n in ast.walk(g.node):
                if not isinstance(n, ast.Call):
                    continue
                h = None
                if isinstance(n.func, ast.Name):
                    h = g.module.functions.get(n.func.id)
                elif isinstance(n.func, ast.Attribute) and isinstance(n.func.value, ast.Name) and n.func.value.id in ("self", "cls") and g.cls is not None:
                    h = g.cls.methods.get(n.func.attr)
                if h is not None and h.fq not in seen and h.kind not in ("property", "cached_property"):
                    seen.add(h.fq)
                    out.append(h)
                    nxt.append(h)
        frontier = nxt
    return out

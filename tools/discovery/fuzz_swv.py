import numpy as np, warnings, sys
warnings.simplefilter("ignore")
import dask_array as da
sw=np.lib.stride_tricks.sliding_window_view
a1=np.arange(40.)%11-3; a2=(np.arange(40.).reshape(20,2)*7)%13-4
def S1(): return da.sliding_window_view(da.from_array(a1,chunks=8),12,axis=0).sum(axis=-1)
def S2(): return da.sliding_window_view(da.from_array(a2,chunks=(3,2)),5,axis=0).sum(axis=-1)
n1=sw(a1,12,axis=0).sum(axis=-1); n2=sw(a2,5,axis=0).sum(axis=-1)
w1=np.linspace(1,2,n1.size)
def W1(ch=None): return da.from_array(w1,chunks=ch or S1().chunks)
bad=0
def check(label,f,want):
    global bad
    try:
        g=f(); g=g.compute() if hasattr(g,'compute') else g
        g=np.asarray(g)
        if g.shape!=np.shape(want) or not np.allclose(g,want,equal_nan=True): bad+=1; print('MISMATCH',label)
    except Exception as e:
        bad+=1; print('RAISE',label,type(e).__name__,str(e)[:90])
C={
 'average w':(lambda: da.average(S1(),weights=W1()), np.average(n1,weights=w1)),
 'average w unaligned':(lambda: da.average(S1(),weights=W1(5)), np.average(n1,weights=w1)),
 'cov':(lambda: da.cov(S2().T), np.cov(n2.T)),
 'corrcoef':(lambda: da.corrcoef(S2().T), np.corrcoef(n2.T)),
 'where3':(lambda: da.where(W1()>1.5,S1(),-S1()), np.where(w1>1.5,n1,-n1)),
 'choose':(lambda: da.choose((W1()>1.5).astype(int),[S1(),S1()*2]), np.choose((w1>1.5).astype(int),[n1,n1*2])),
 'isin':(lambda: da.isin(S1(),W1()), np.isin(n1,w1)),
 'searchsorted':(lambda: da.searchsorted(da.from_array(np.sort(w1)*20,chunks=10),S1()), np.searchsorted(np.sort(w1)*20,n1)),
 'digitize':(lambda: da.digitize(S1(),np.array([0.,10.,30.])), np.digitize(n1,np.array([0.,10.,30.]))),
 'take idx':(lambda: da.take(W1(),(abs(S1())%5).astype(int)), np.take(w1,(abs(n1)%5).astype(int))),
 'int index':(lambda: W1()[(abs(S1())%5).astype(int)], w1[(abs(n1)%5).astype(int)]),
 'bool index':(lambda: W1()[S1()>10].compute(), w1[n1>10]),
 'bool index other':(lambda: S1()[W1()>1.5].compute(), n1[w1>1.5]),
 'setitem val':(lambda: (lambda d:(d.__setitem__(slice(2,10),S1()[2:10]),d)[1])(W1()), (lambda w:(w.__setitem__(slice(2,10),n1[2:10]),w)[1])(w1.copy())),
 'setitem into':(lambda: (lambda d:(d.__setitem__(slice(2,10),W1()[2:10]),d)[1])(S1()), (lambda w:(w.__setitem__(slice(2,10),w1[2:10]),w)[1])(n1.copy())),
 'setitem mask':(lambda: (lambda d:(d.__setitem__(W1()>1.5,0.),d)[1])(S1()), np.where(w1>1.5,0.,n1)),
 'stack':(lambda: da.stack([S1(),W1()]), np.stack([n1,w1])),
 'concat':(lambda: da.concatenate([S1(),W1(7)]), np.concatenate([n1,w1])),
 'block':(lambda: da.block([S1(),W1()]), np.block([n1,w1])),
 'tensordot':(lambda: da.tensordot(S1(),W1(),axes=1), np.tensordot(n1,w1,axes=1)),
 'outer':(lambda: da.outer(S1(),W1(5)), np.outer(n1,w1)),
 'einsum':(lambda: da.einsum('i,i->',S1(),W1()), np.einsum('i,i->',n1,w1)),
 'matmul':(lambda: S2().T@S2(), n2.T@n2),
 'map_blocks2':(lambda: da.map_blocks(lambda p,q:p*q,S1(),W1(),dtype=float), n1*w1),
 'map_blocks info':(lambda: S1().map_blocks(lambda b,block_info=None: b+block_info[0]['array-location'][0][0],dtype=float), None),
 'blockwise2':(lambda: da.blockwise(np.multiply,'i',S1(),'i',W1(4),'i',dtype=float), n1*w1),
 'map_overlap':(lambda: da.map_overlap(lambda b:b+np.roll(b,1),S1(),depth=1,boundary='periodic',dtype=float), n1+np.roll(n1,1)),
 'map_overlap2':(lambda: da.map_overlap(lambda p,q:p+np.roll(q,1),S1(),W1(),depth=1,boundary='periodic',dtype=float), n1+np.roll(w1,1)),
 'cumsum':(lambda: S1().cumsum(), n1.cumsum()),
 'cumsum bl':(lambda: da.cumsum(S1(),method='blelloch'), n1.cumsum()),
 'diff':(lambda: da.diff(S1()), np.diff(n1)),
 'gradient':(lambda: da.gradient(S1().rechunk(10),axis=0), np.gradient(n1,axis=0)),
 'percentile':(lambda: da.percentile(S1(),[50]), None),
 'topk':(lambda: da.topk(S1(),3), -np.sort(-n1)[:3]),
 'argtopk vals':(lambda: S1()[da.argtopk(S1(),3)], -np.sort(-n1)[:3]),
 'argmax':(lambda: S2().argmax(axis=0), n2.argmax(axis=0)),
 'unique':(lambda: da.unique(S1()), np.unique(n1)),
 'unique inv':(lambda: da.unique(S1(),return_inverse=True)[1], np.unique(n1,return_inverse=True)[1]),
 'histogramdd':(lambda: da.histogramdd(S2(),bins=(3,3),range=((-20,40),(-20,40)))[0], np.histogramdd(n2,bins=(3,3),range=((-20,40),(-20,40)))[0]),
 'histogram2d w':(lambda: da.histogram2d(S2()[:,0],S2()[:,1],bins=3,range=((-20,40),(-20,40)),weights=da.from_array(np.ones(16),chunks=S2().chunks[0]))[0], np.histogram2d(n2[:,0],n2[:,1],bins=3,range=((-20,40),(-20,40)))[0]),
 'coarsen':(lambda: da.coarsen(np.sum,S2().rechunk((4,2)),{0:2}), n2.reshape(8,2,2).sum(axis=1)),
 'repeat':(lambda: da.repeat(S1(),2), np.repeat(n1,2)),
 'tile':(lambda: da.tile(S1(),2), np.tile(n1,2)),
 'pad':(lambda: da.pad(S1(),2,mode='reflect'), np.pad(n1,2,mode='reflect')),
 'roll':(lambda: da.roll(S1(),3), np.roll(n1,3)),
 'reshape':(lambda: S2().reshape(-1), n2.reshape(-1)),
 'reshape2':(lambda: S2().reshape(8,2,2), n2.reshape(8,2,2)),
 'blocks':(lambda: S1().blocks[1], n1[16:]),
 'vindex':(lambda: S2().vindex[[0,5,15],[1,0,1]], n2[[0,5,15],[1,0,1]]),
 'store':(lambda: (lambda t:(da.store(S1(),t,lock=False),t)[1])(np.zeros(29)), n1),
 'to_delayed':(lambda: np.concatenate([b.compute() for b in S1().to_delayed()]), n1),
 'from_delayed stack':(lambda: da.stack([S1(),da.from_delayed(__import__('dask').delayed(lambda: w1)(),shape=(29,),dtype=float)]), np.stack([n1,w1])),
 'rechunk tuple':(lambda: S1().rechunk(((5,5,5,5,5,4),)), n1),
 'sliding again':(lambda: da.sliding_window_view(S1(),3).sum(axis=-1), sw(n1,3).sum(axis=-1)),
 'sum where':(lambda: da.sum(S1(),where=W1()>1.5), np.sum(n1,where=w1>1.5)),
 'ufunc out':(lambda: (lambda o:(da.add(S1(),1,out=o),o)[1])(W1()), n1+1),
 'ufunc where':(lambda: (lambda o:(da.add(S1(),1,out=o,where=W1()>1.5),o)[1])(da.from_array(np.zeros(29),chunks=S1().chunks)), np.where(w1>1.5,n1+1,0)),
 'apply_along':(lambda: da.apply_along_axis(lambda v:v.sum(),0,S2(),dtype=float,shape=()), n2.sum(axis=0)),
 'apply_gufunc':(lambda: da.apply_gufunc(lambda u,v:(u*v).sum(axis=-1),'(i),(i)->()',S1(),W1(),output_dtypes=float,allow_rechunk=True), (n1*w1).sum()),
 'compress':(lambda: da.compress(w1>1.5,S1()), np.compress(w1>1.5,n1)),
 'insert':(lambda: da.insert(S1(),[3,7],9.), np.insert(n1,[3,7],9.)),
 'delete':(lambda: da.delete(S1(),[3,7]), np.delete(n1,[3,7])),
 'bincount plain':(lambda: da.bincount((abs(S1())%5).astype(int),minlength=5), np.bincount((abs(n1)%5).astype(int),minlength=5)),
 'moment':(lambda: da.moment(S2(),3,axis=0), None),
 'nanmean':(lambda: da.nanmean(da.where(S1()>30,np.nan,S1())), np.nanmean(np.where(n1>30,np.nan,n1))),
 'linspace add':(lambda: S1()+da.linspace(0,1,29,chunks=6), n1+np.linspace(0,1,29)),
 'arange idx':(lambda: S1()[da.arange(29,chunks=6)%7], n1[np.arange(29)%7]),
 'broadcast add':(lambda: S2()+S1()[:2], n2+n1[:2]),
 'fft':(lambda: da.fft.fft(S1().rechunk(-1)), np.fft.fft(n1)),
}
for k,(f,w) in C.items():
    if w is None: continue
    check(k,f,w)
print('bad',bad)

#!/venv/bin/python
"""Run every claimed check against every kept seeded mutant (on scratch copies, never in /repo).

  /venv/bin/python tools/mutant_matrix.py [seed-id-substring ...]

For each /verif/seeded/<id>/patch.diff: copy /repo's package to a temp dir, apply
the patch there (``patch -p1``), evaluate the rules of every claimed property on
the copy and print which properties/rules report a *new* finding.  Writes
/verif/seeded/MATRIX.json (committed: the record of which checks catch which
changes).  The scratch copies are removed as soon as each mutant is judged.
"""
import importlib
import json
import os
import shutil
import subprocess
import sys
import tempfile
from concurrent.futures import ProcessPoolExecutor

HERE = os.path.dirname(os.path.dirname(os.path.abspath(__file__)))
sys.path.insert(0, HERE)

from sa.cli import available  # noqa: E402
from sa.model import REPO, AnalysisError, Repo  # noqa: E402
from sa.report import evaluate, load_known  # noqa: E402


def run_one(mid):
    d = tempfile.mkdtemp(prefix="sa-mutant-")
    try:
        shutil.copytree(os.path.join(REPO, "dask_array"), os.path.join(d, "dask_array"), ignore=shutil.ignore_patterns("__pycache__", "*.pyc", "*.so"))
        for extra in ("pyproject.toml",):
            if os.path.isfile(os.path.join(REPO, extra)):
                shutil.copy(os.path.join(REPO, extra), d)
        p = subprocess.run(["patch", "-p1", "-s", "-i", os.path.join(HERE, "seeded", mid, "patch.diff")], cwd=d, capture_output=True, text=True)
        if p.returncode != 0:
            return mid, {"error": "patch does not apply: " + (p.stdout + p.stderr)[-300:]}
        known, _ = load_known()
        out = {}
        repo = Repo(d)
        for prop in available():
            mod = importlib.import_module(f"sa.rules.{prop.lower()}")
            try:
                results = evaluate(prop, mod.RULES, repo, "quick")
            except AnalysisError as e:
                out[prop] = [f"ANALYSIS-ERROR {e}"[:200]]
                continue
            fs = [f"{f.rule} {f.construct}"[:160] for r in results for f in r.findings if f.key not in known]
            if fs:
                out[prop] = fs[:4]
        return mid, out
    finally:
        shutil.rmtree(d, ignore_errors=True)


def main():
    sel = sys.argv[1:]
    ids = sorted(x for x in os.listdir(os.path.join(HERE, "seeded")) if os.path.isfile(os.path.join(HERE, "seeded", x, "patch.diff")))
    if sel:
        ids = [i for i in ids if any(s in i for s in sel)]
    with ProcessPoolExecutor(max_workers=14) as ex:
        res = dict(ex.map(run_one, ids))
    caught = 0
    for mid in ids:
        r = res[mid]
        own = mid.split("-")[0]
        if "error" in r:
            print(f"{mid:45s} ERROR {r['error']}")
            continue
        real = {k: v for k, v in r.items() if not all(x.startswith("ANALYSIS-ERROR") for x in v)}
        status = "caught" if r else "MISSED"
        caught += bool(r)
        print(f"{mid:45s} {status:7s} own={'yes' if own in r else 'no '} by={sorted(r)}")
        for k, v in sorted(r.items()):
            print(f"      {k}: {v[0]}")
    print(f"{caught}/{len(ids)} mutants reported by at least one check")
    if not sel:
        path = os.path.join(HERE, "seeded", "MATRIX.json")
        json.dump({mid: res[mid] for mid in ids}, open(path, "w"), indent=1, sort_keys=True)


if __name__ == "__main__":
    main()

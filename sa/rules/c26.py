"""C26 - xarray integration is reachable only through ``register()`` (clauses 1-2)."""

from __future__ import annotations

import ast
import os
import tomllib

from ..model import AnalysisError, body_walk, dotted, idents_in, norm, unparse
from ..report import RuleResult
from .common import callgraph, cfg_of, docstring_consts, enclosing_function, need, site

PROP = "C26"
XMOD = "dask_array._xarray"
PUBMOD = "dask_array.xarray"
REGISTRY_IDENTS = {"list_chunkmanagers", "load_chunkmanagers"}

EXPLANATION = (
    "Decides clauses 1-2 of C26 (importing dask_array or any submodule, in any order, never changes xarray's chunk "
    "manager; only dask_array.xarray.register() does, after which isactive() is true). Rules: R26.1 import-time module "
    "graph from every one of the package's modules never reaches dask_array._xarray; R26.2 deferred imports of it occur "
    "only in xarray.register/isactive (isactive's behind a passive sys.modules probe) and no string constant names it "
    "for a dynamic import; R26.3 the registry accessors and _ensure_registered are referenced only by their owners; "
    "R26.4 no code executed at import time (module bodies, class bodies, decorators, defaults) can reach the "
    "registration function or any function that imports _xarray; R26.5 no xarray.chunkmanagers entry point is declared; "
    "R26.6 register() unconditionally calls _ensure_registered, which installs DaskArrayExprManager under 'dask', the "
    "same test isactive() returns. Clause 3 (xarray computations give NumPy values) is not decided."
)
ASSUMPTIONS = [
    "xarray itself only consults list_chunkmanagers()/entry points to pick a chunk manager (its documented mechanism)",
    "no monkey-patching of xarray from outside the package; importlib.import_module calls with computed names draw "
    "their names from string constants of the package (all string constants are scanned)",
]
TRUSTED = ["CPython ast", "tomllib", "sa.model import resolver", "sa.callgraph (by-name conservative fallback)"]


def _import_time_edges(repo):
    """module -> set of modules imported when it is imported (pos == top/class)."""
    edges = {}
    for m in repo.units:
        tg = set()
        for r in m.import_recs:
            if r.pos not in ("top",):
                continue
            cands = [r.target]
            if r.symbol and r.symbol != "*":
                cands.append(f"{r.target}.{r.symbol}")
            for c in cands:
                parts = c.split(".")
                for i in range(1, len(parts) + 1):
                    name = ".".join(parts[:i])
                    if name in repo.modules and repo.modules[name].is_unit:
                        tg.add(name)
        # importing a submodule imports its parent packages
        parts = m.name.split(".")
        for i in range(1, len(parts)):
            tg.add(".".join(parts[:i]))
        tg.discard(m.name)
        edges[m.name] = tg
    return edges


def r26_1(ctx):
    rr = RuleResult(
        "R26.1",
        "IMPORT",
        "no module other than dask_array._xarray has dask_array._xarray in its import-time closure",
        min_instances=100,
    )
    repo = ctx.repo
    need(XMOD in repo.modules, f"module {XMOD}")
    edges = _import_time_edges(repo)
    offenders = {}
    for m in sorted(repo.units, key=lambda m: m.name):
        if m.name == XMOD:
            continue
        seen = {m.name: None}
        stack = [m.name]
        while stack:
            cur = stack.pop()
            for t in edges.get(cur, ()):
                if t not in seen:
                    seen[t] = cur
                    stack.append(t)
        rr.inst(m.relpath, closure_size=len(seen))
        if XMOD in seen:
            path = [XMOD]
            while seen[path[-1]] is not None:
                path.append(seen[path[-1]])
            path.reverse()
            offenders.setdefault(path[-2], []).append(path)
    # one finding per import statement that makes the last hop (not one per affected module)
    for last_name, paths in sorted(offenders.items()):
        last = repo.modules[last_name]
        line, text = 0, "import"
        for r in last.import_recs:
            if r.pos == "top" and (r.target == XMOD or f"{r.target}.{r.symbol}" == XMOD):
                line, text = r.lineno, norm(r.node)
        shortest = min(paths, key=len)
        ctx.finding(
            rr,
            f"{last.relpath}::<module>::{text}",
            f"{XMOD} is imported at import time of {last_name}; {len(paths)} module(s) pull it in when imported",
            file=last.path,
            line=line,
            path=[" -> ".join(shortest)] + [" -> ".join(p) for p in sorted(paths, key=len)[1:4]],
        )
    return rr


def r26_2(ctx):
    rr = RuleResult(
        "R26.2",
        "WHO",
        "deferred imports of dask_array._xarray only in xarray.register / xarray.isactive; isactive's import is "
        "dominated by the passive sys.modules probe; no non-docstring string constant names the module elsewhere",
        min_instances=3,
    )
    repo = ctx.repo
    pub = repo.mod(PUBMOD)
    allowed = {f"{PUBMOD}:register", f"{PUBMOD}:isactive"}
    for m in repo.units:
        for r in m.import_recs:
            hit = r.target == XMOD or (r.symbol and f"{r.target}.{r.symbol}" == XMOD)
            if not hit:
                continue
            if m.name == XMOD:
                continue
            where = f"{m.name}:{r.func}" if r.func else f"{m.name}:<module>"
            c = f"{m.relpath}::{r.func or '<module>'}::{norm(r.node)}"
            rr.inst(c, pos=r.pos)
            if r.pos == "type_checking":
                continue
            if where not in allowed:
                ctx.finding(rr, c, f"{XMOD} imported outside register()/isactive()", file=m.path, line=r.lineno)
    # isactive: the import is behind the passive probe
    isactive = pub.func("isactive")
    cfg = cfg_of(ctx, isactive)
    for s in cfg.stmts():
        if isinstance(s, ast.ImportFrom) and (s.module or "").endswith("_xarray"):
            guards = cfg.guards(s)
            ok = any(
                pol is False and "modules" in idents_in(t) and any(XMOD == c or "_xarray" in c for c in idents_in(t))
                for t, pol in guards
            )
            c = site(isactive, s)
            rr.inst(c, guards=[(unparse(t), p) for t, p in guards])
            if not ok:
                ctx.finding(
                    rr, c, "isactive() imports _xarray without first probing sys.modules (would load it as a side effect)",
                    func=isactive, node=s,
                )
    # string constants naming the module (dynamic import by name)
    for m in repo.units:
        docs = docstring_consts(m.tree)
        for n in ast.walk(m.tree):
            if isinstance(n, ast.Constant) and isinstance(n.value, str) and id(n) not in docs:
                v = n.value
                if v == XMOD or v.endswith("._xarray") or v == "_xarray":
                    f = enclosing_function(m, n)
                    where = f"{m.name}:{f.qualname}" if f else f"{m.name}:<module>"
                    c = f"{m.relpath}::{f.qualname if f else '<module>'}::const {v!r}"
                    rr.inst(c)
                    if where not in allowed and m.name != XMOD:
                        ctx.finding(rr, c, "string constant naming dask_array._xarray outside register()/isactive()", file=m.path, line=n.lineno)
    return rr


def r26_3(ctx):
    rr = RuleResult(
        "R26.3",
        "WHO",
        "_ensure_registered is referenced only by xarray.register; xarray's registry accessors "
        "(list_chunkmanagers/load_chunkmanagers) only inside _ensure_registered and isactive; the registry dict is "
        "written only in _ensure_registered",
        min_instances=4,
    )
    repo = ctx.repo
    xm = repo.mod(XMOD)
    ens = xm.func("_ensure_registered")
    for m in repo.units:
        docs = docstring_consts(m.tree)
        for n in ast.walk(m.tree):
            ident = None
            if isinstance(n, ast.Name):
                ident = n.id
            elif isinstance(n, ast.Attribute):
                ident = n.attr
            elif isinstance(n, ast.alias):
                ident = n.name
            elif isinstance(n, ast.Constant) and isinstance(n.value, str) and id(n) not in docs:
                ident = n.value
            if ident is None:
                continue
            if ident == "_ensure_registered":
                f = enclosing_function(m, n) if hasattr(n, "lineno") else None
                where = f"{m.name}:{f.qualname}" if f else f"{m.name}:<module>"
                if where == f"{XMOD}:_ensure_registered":
                    continue
                c = f"{m.relpath}::{f.qualname if f else '<module>'}::ref _ensure_registered"
                rr.inst(c)
                if where != f"{PUBMOD}:register":
                    ctx.finding(rr, c, "_ensure_registered referenced outside dask_array.xarray.register()", file=m.path, line=getattr(n, "lineno", 0))
            elif ident in REGISTRY_IDENTS:
                f = enclosing_function(m, n) if hasattr(n, "lineno") else None
                where = f"{m.name}:{f.qualname}" if f else f"{m.name}:<module>"
                c = f"{m.relpath}::{f.qualname if f else '<module>'}::ref {ident}"
                rr.inst(c)
                if where not in (f"{XMOD}:_ensure_registered", f"{PUBMOD}:isactive"):
                    ctx.finding(rr, c, f"xarray registry accessor {ident} used outside _ensure_registered()/isactive()", file=m.path, line=getattr(n, "lineno", 0))
    # the registry write
    writes = 0
    for n in body_walk(ens.node):
        if isinstance(n, ast.Assign):
            for t in n.targets:
                if isinstance(t, ast.Subscript):
                    writes += 1
    need(writes >= 1, "_ensure_registered no longer writes the registry dict")
    return rr


def r26_4(ctx):
    rr = RuleResult(
        "R26.4",
        "NOREACH",
        "no code executed at import time of any module reaches _ensure_registered, xarray.register, or a function "
        "containing a deferred import of dask_array._xarray",
        min_instances=100,
    )
    repo = ctx.repo
    cg = callgraph(ctx)
    bad = {f"{XMOD}:_ensure_registered", f"{PUBMOD}:register"}
    for m in repo.units:
        for r in m.import_recs:
            if r.pos == "func" and (r.target == XMOD or f"{r.target}.{r.symbol}" == XMOD):
                bad.add(f"{m.name}:{r.func}")
    for m in sorted(repo.units, key=lambda m: m.name):
        src = f"{m.name}:<module>"
        rr.inst(m.relpath, import_time_edges=len(cg.edges.get(src, ())))
        # only follow calls/constructs/property reads: a bare reference executes nothing
        path, _ = cg.reach([src], lambda f: f.fq in bad, kinds=("call", "construct", "prop"))
        if path:
            ctx.finding(
                rr,
                m.relpath,
                f"import-time code of {m.name} can reach {path[-1]}",
                file=m.path,
                line=1,
                path=[" -> ".join(path)],
            )
    # _xarray.py's own module body: definitions, imports and constants only
    xm = repo.mod(XMOD)
    for stmt in xm.tree.body:
        ok = isinstance(stmt, (ast.Import, ast.ImportFrom, ast.FunctionDef, ast.ClassDef, ast.AsyncFunctionDef))
        if isinstance(stmt, ast.Expr) and isinstance(stmt.value, ast.Constant):
            ok = True
        if isinstance(stmt, ast.If) and "TYPE_CHECKING" in unparse(stmt.test):
            ok = all(isinstance(s, (ast.Import, ast.ImportFrom)) for s in stmt.body + stmt.orelse)
        if isinstance(stmt, (ast.Assign, ast.AnnAssign)):
            ok = not any(isinstance(n, ast.Call) and (dotted(n.func) or "").split(".")[-1] in REGISTRY_IDENTS | {"_ensure_registered"} for n in ast.walk(stmt))
        if not ok and any(isinstance(n, ast.Call) for n in ast.walk(stmt)):
            ctx.finding(rr, f"{xm.relpath}::<module>::{norm(stmt)}", "executable statement with a call in the module body of _xarray.py", file=xm.path, line=stmt.lineno)
    return rr


def r26_5(ctx):
    rr = RuleResult("R26.5", "COVER", "no packaging metadata declares an 'xarray.chunkmanagers' entry-point group", min_instances=1)
    root = ctx.repo.root
    pp = os.path.join(root, "pyproject.toml")
    need(os.path.isfile(pp), "pyproject.toml")
    with open(pp, "rb") as f:
        try:
            data = tomllib.load(f)
        except tomllib.TOMLDecodeError as e:
            raise AnalysisError(f"pyproject.toml does not parse: {e}")
    eps = (data.get("project") or {}).get("entry-points") or {}
    rr.inst("pyproject.toml::[project.entry-points]", groups=sorted(eps))
    for grp in eps:
        if "chunkmanager" in grp.lower():
            ctx.finding(rr, f"pyproject.toml::[project.entry-points.{grp}]", "declares an xarray chunk-manager entry point: installing the package would change xarray's manager", file=pp, line=1)
    # hatch / setuptools / poetry style plugin tables
    def scan(obj, trail):
        if isinstance(obj, dict):
            for k, v in obj.items():
                if isinstance(k, str) and "xarray.chunkmanagers" in k:
                    if not (trail == ["project", "entry-points"]):
                        ctx.finding(rr, f"pyproject.toml::{'.'.join(trail + [k])}", "declares an xarray.chunkmanagers group", file=pp, line=1)
                scan(v, trail + [str(k)])
        elif isinstance(obj, list):
            for v in obj:
                scan(v, trail)
    scan(data, [])
    for extra in ("setup.cfg", "setup.py"):
        p = os.path.join(root, extra)
        if os.path.isfile(p):
            txt = open(p, errors="replace").read()
            rr.inst(extra)
            if "xarray.chunkmanagers" in txt:
                ctx.finding(rr, extra, "mentions an xarray.chunkmanagers entry point", file=p, line=1)
    return rr


def r26_6(ctx):
    rr = RuleResult(
        "R26.6",
        "COVER",
        "register() calls _ensure_registered() on every path; _ensure_registered installs DaskArrayExprManager() under "
        "'dask' on every path where xarray imports; isactive() returns the isinstance test on that same slot",
        min_instances=3,
    )
    repo = ctx.repo
    pub = repo.mod(PUBMOD)
    xm = repo.mod(XMOD)
    reg = pub.func("register")
    cfg = cfg_of(ctx, reg)

    def calls_ens(n):
        return isinstance(n, ast.stmt) and any(
            isinstance(c, ast.Call) and (dotted(c.func) or "").endswith("_ensure_registered") for c in ast.walk(n)
            if not isinstance(n, (ast.If, ast.For, ast.While, ast.Try, ast.With)) or True
        ) and not isinstance(n, (ast.If, ast.For, ast.While, ast.Try, ast.With))

    rr.inst(site(reg), rule="must-pass-through _ensure_registered()")
    p = cfg.path_avoiding(cfg.exit, blocked=calls_ens)
    if p is not None:
        ctx.finding(rr, site(reg), "a path through register() returns without calling _ensure_registered()", func=reg,
                    path=[f"line {getattr(x, 'lineno', '?')}: {norm(x) if isinstance(x, ast.AST) else x}" for x in p[1:-1]])
    ens = xm.func("_ensure_registered")
    store = None
    for n in body_walk(ens.node):
        if isinstance(n, ast.Assign) and len(n.targets) == 1 and isinstance(n.targets[0], ast.Subscript):
            t = n.targets[0]
            key = t.slice.value if isinstance(t.slice, ast.Constant) else None
            if key == "dask" and isinstance(n.value, ast.Call) and dotted(n.value.func) == "DaskArrayExprManager":
                store = n
    rr.inst(site(ens), store=norm(store) if store is not None else None)
    if store is None:
        ctx.finding(rr, site(ens), "_ensure_registered no longer installs DaskArrayExprManager() under the 'dask' key", func=ens)
    else:
        cfg2 = cfg_of(ctx, ens)
        # the store may be skipped only when the slot already holds our manager or xarray is missing
        def is_store_or_ok(n):
            return n is store
        def edge_ok(a, lbl, b):
            # leaving through the ImportError handler or the "already ours" branch is sanctioned
            if lbl == "exc":
                return True
            if isinstance(a, ast.If) and "DaskArrayExprManager" in idents_in(a.test) and "isinstance" in idents_in(a.test):
                # the branch on which the slot already holds our manager: `if not isinstance(...)`: False edge;
                # `if isinstance(...): return`: True edge
                t, pol = a.test, True
                while isinstance(t, ast.UnaryOp) and isinstance(t.op, ast.Not):
                    t, pol = t.operand, not pol
                if isinstance(t, ast.Call) and dotted(t.func) == "isinstance" and lbl is pol:
                    return True
            return False
        p = cfg2.path_avoiding(cfg2.exit, blocked=is_store_or_ok, blocked_edge=edge_ok)
        if p is not None:
            ctx.finding(rr, site(ens), "a path through _ensure_registered() skips the registry store without the slot already holding the manager", func=ens,
                        path=[f"line {getattr(x, 'lineno', '?')}: {norm(x) if isinstance(x, ast.AST) else x}" for x in p[1:-1]])
    isa = pub.func("isactive")
    rets = [n for n in body_walk(isa.node) if isinstance(n, ast.Return)]
    pos = [r for r in rets if not (isinstance(r.value, ast.Constant) and r.value.value is False)]
    rr.inst(site(isa), positive_returns=[norm(r) for r in pos])
    from ..dataflow import Defs as _Defs

    idefs = _Defs(isa.node)
    for r in pos:
        ids = set(idents_in(r.value))
        work = [n.id for n in ast.walk(r.value) if isinstance(n, ast.Name)]
        seen_l = set()
        while work:  # look through locals (``m = list_chunkmanagers().get("dask"); return isinstance(m, ...)``)
            nm = work.pop()
            if nm in seen_l:
                continue
            seen_l.add(nm)
            for v in idefs.defs.get(nm, []):
                ids |= set(idents_in(v))
                work.extend(n.id for n in ast.walk(v) if isinstance(n, ast.Name))
        if not ({"isinstance", "DaskArrayExprManager", "list_chunkmanagers", "dask"} <= ids):
            ctx.finding(rr, site(isa, r), "isactive() may report active without testing that the 'dask' slot holds a DaskArrayExprManager", func=isa, node=r)
    if not pos:
        ctx.finding(rr, site(isa), "isactive() can never return a true value", func=isa)
    return rr


RULES = [r26_1, r26_2, r26_3, r26_4, r26_5, r26_6]

LEVEL_TEXT = (
    "Static decision of clauses 1-2 (opt-in registration): exhaustive import-time module-graph closure from all "
    "modules, who-may-import / who-may-reference rules for dask_array._xarray, _ensure_registered and xarray's "
    "registry accessors, import-time call-graph non-reachability of the registration, packaging metadata, and a "
    "must-pass-through check that register() really registers what isactive() tests. Import order and submodule "
    "choice are quantified away by checking every module; clause 3 (values under xarray) is not decided."
)
LEVEL_NOTE = (
    "Trusted: CPython ast, tomllib, the engine's import resolver and call graph. Assumes xarray selects managers only "
    "via list_chunkmanagers()/entry points and that nothing outside the package monkey-patches xarray."
)
TECHNIQUE = "static analysis: import-time module graph closure + who-may-call/reference rules + CFG must-pass-through (ast)"

"""Resolved call graph with conservative by-name fallback (DESIGN.md 2.2)."""

from __future__ import annotations

import ast
from collections import defaultdict, deque
from dataclasses import dataclass, field

from .model import ClassInfo, FuncInfo, Repo, dotted, walk_no_nested

# receiver type hints the engine cannot derive from syntax alone: (class, attribute) -> class name
ATTR_TYPES = {
    ("Array", "expr"): "ArrayExpr",
    ("Array", "_expr"): "ArrayExpr",
    ("Array", "_lowered_expr"): "ArrayExpr",
}

PROPERTY_KINDS = ("property", "cached_property")


@dataclass
class Edge:
    kind: str  # call | prop | ref | construct
    target: FuncInfo = field(repr=False)
    node: ast.AST = field(repr=False)
    exact: bool = True  # False: by-name fallback on an unknown receiver

    def __repr__(self):
        return f"Edge({self.kind}, {self.target.fq}, exact={self.exact})"


class CallGraph:
    def __init__(self, repo: Repo):
        self.repo = repo
        self.edges: dict[str, list[Edge]] = defaultdict(list)
        self.funcs: dict[str, FuncInfo] = {}
        self.constructions: dict[str, list] = defaultdict(list)  # class fq -> [(FuncInfo|None, Module, Call node)]
        self.unresolved = 0
        self.resolved = 0
        self.by_name: dict[str, list[FuncInfo]] = defaultdict(list)  # method/property name -> defs
        self._subs: dict[str, list[ClassInfo]] = {}
        for f in repo.all_functions():
            self.funcs[f.fq] = f
            if f.cls is not None and f.parent is None:
                self.by_name[f.name].append(f)
        for m in repo.units:
            self._scan_module_level(m)
        for f in list(self.funcs.values()):
            self._scan(f)
        self._rev = None

    # -- helpers -----------------------------------------------------------------
    def _subclasses(self, ci: ClassInfo):
        if ci.fq not in self._subs:
            self._subs[ci.fq] = self.repo.subclasses(ci)
        return self._subs[ci.fq]

    def _dispatch(self, ci: ClassInfo, attr: str, include_overrides=True) -> list[FuncInfo]:
        out = []
        hit = self.repo.class_attr(ci, attr)
        if hit and isinstance(hit[1], FuncInfo):
            out.append(hit[1])
        if include_overrides:
            for sub in self._subclasses(ci):
                if sub is ci:
                    continue
                if attr in sub.methods and sub.methods[attr] not in out:
                    out.append(sub.methods[attr])
        return out

    def _enclosing_class(self, f: FuncInfo) -> ClassInfo | None:
        g = f
        while g is not None:
            if g.cls is not None:
                return g.cls
            g = g.parent
        return None

    def receiver_class(self, node, f: FuncInfo | None, module):
        """(ClassInfo, mode) for the receiver expression, mode in
        'instance' | 'class' | 'super'; or None when unknown."""
        cls = self._enclosing_class(f) if f else None
        if isinstance(node, ast.Name):
            if node.id == "self" and cls is not None:
                return cls, "instance"
            if node.id == "cls" and cls is not None:
                return cls, "class"
            res = self.repo.resolve_name(node.id, module, f)
            if res and res[0] == "class":
                return res[1], "class"
            return None
        if isinstance(node, ast.Call):
            fn = dotted(node.func)
            if fn == "super" and cls is not None:
                return cls, "super"
            if fn == "type" and len(node.args) == 1:
                r = self.receiver_class(node.args[0], f, module)
                if r and r[1] == "instance":
                    return r[0], "class"
            # Class(...) yields an instance
            res = self.repo.resolve_expr(node.func, module, f)
            if res and res[0] == "class":
                return res[1], "instance"
            return None
        if isinstance(node, ast.Attribute):
            base = self.receiver_class(node.value, f, module)
            if base and base[1] == "instance":
                for c in self.repo.mro(base[0]):
                    if isinstance(c, str):
                        continue
                    hint = ATTR_TYPES.get((c.name, node.attr))
                    if hint:
                        return self.repo.find_class(hint), "instance"
            res = self.repo.resolve_expr(node, module, f)
            if res and res[0] == "class":
                return res[1], "class"
        return None

    def _add(self, f_fq, kind, target, node, exact=True):
        self.edges[f_fq].append(Edge(kind, target, node, exact))

    def _scan_module_level(self, m):
        """Code executed when the module is imported: top-level statements, class
        bodies, decorators and default-argument expressions."""
        pseudo = f"{m.name}:<module>"

        def scan_body(body):
            for stmt in body:
                if isinstance(stmt, (ast.FunctionDef, ast.AsyncFunctionDef)):
                    for d in stmt.decorator_list:
                        for n in walk_no_nested(d):
                            self._visit_node(n, None, m, pseudo)
                    for d in stmt.args.defaults + [k for k in stmt.args.kw_defaults if k is not None]:
                        for n in walk_no_nested(d):
                            self._visit_node(n, None, m, pseudo)
                    continue
                if isinstance(stmt, ast.ClassDef):
                    for d in stmt.decorator_list + stmt.bases + [k.value for k in stmt.keywords]:
                        for n in walk_no_nested(d):
                            self._visit_node(n, None, m, pseudo)
                    scan_body(stmt.body)
                    continue
                for n in walk_no_nested(stmt):
                    if isinstance(n, (ast.FunctionDef, ast.AsyncFunctionDef, ast.ClassDef)) and n is not stmt:
                        scan_body([n])
                        continue
                    self._visit_node(n, None, m, pseudo)

        scan_body(m.tree.body)

    def _scan(self, f: FuncInfo):
        m = f.module
        for stmt in f.node.body:
            if isinstance(stmt, (ast.FunctionDef, ast.AsyncFunctionDef)):
                # nested def: reachable from the parent (it may be called or escape)
                q = f"{f.qualname}.{stmt.name}"
                if q in m.functions:
                    self._add(f.fq, "ref", m.functions[q], stmt)
                continue
            if isinstance(stmt, ast.ClassDef):
                continue
            for n in walk_no_nested(stmt):
                if isinstance(n, (ast.FunctionDef, ast.AsyncFunctionDef)) and n is not stmt:
                    q = f"{f.qualname}.{n.name}"
                    if q in m.functions:
                        self._add(f.fq, "ref", m.functions[q], n)
                    continue
                if isinstance(n, ast.Lambda):
                    # lambda bodies execute in the scope of f when called: analyse inline
                    for k in ast.walk(n.body):
                        self._visit_node(k, f, m, f.fq)
                    continue
                self._visit_node(n, f, m, f.fq)

    def _visit_node(self, n, f, m, src_fq):
        if isinstance(n, ast.Call):
            self._visit_call(n, f, m, src_fq)
        elif isinstance(n, ast.Attribute) and isinstance(n.ctx, ast.Load):
            self._visit_attr_load(n, f, m, src_fq)
        elif isinstance(n, ast.Name) and isinstance(n.ctx, ast.Load):
            res = self.repo.resolve_name(n.id, m, f)
            if res and res[0] == "func":
                # a bare reference: either the callee of a Call (handled there) or an escape
                self._add(src_fq, "ref", res[1], n)

    def _visit_call(self, call, f, m, src_fq):
        fn = call.func
        res = self.repo.resolve_expr(fn, m, f) if isinstance(fn, (ast.Name, ast.Attribute)) else None
        if res and res[0] == "func":
            self.resolved += 1
            self._add(src_fq, "call", res[1], call)
            return
        if res and res[0] == "class":
            self.resolved += 1
            ci = res[1]
            self.constructions[ci.fq].append((f, m, call))
            for meth in ("__new__", "__init__"):
                for t in self._dispatch(ci, meth, include_overrides=False):
                    self._add(src_fq, "construct", t, call)
            return
        if isinstance(fn, ast.Attribute):
            recv = self.receiver_class(fn.value, f, m)
            if recv:
                ci, mode = recv
                if mode == "super":
                    mro = self.repo.mro(ci)[1:]
                    for c in mro:
                        if not isinstance(c, str) and fn.attr in c.methods:
                            self.resolved += 1
                            self._add(src_fq, "call", c.methods[fn.attr], call)
                            return
                    return
                targets = self._dispatch(ci, fn.attr, include_overrides=(mode != "super"))
                if targets:
                    self.resolved += 1
                    for t in targets:
                        self._add(src_fq, "call", t, call)
                    return
            # ``type(self)(...)`` / ``type(x)(...)``
            root = fn
            while isinstance(root, ast.Attribute):
                root = root.value
            if isinstance(root, ast.Name):
                r = self.repo.resolve_name(root.id, m, f)
                if r and r[0] in ("module", "ext") and not (r[0] == "module" and r[1].startswith("dask_array")):
                    self.resolved += 1  # external library call: no package edge
                    return
            # unknown receiver: conservative by-name fallback
            cands = self.by_name.get(fn.attr, [])
            if cands:
                for t in cands:
                    self._add(src_fq, "call", t, call, exact=False)
            self.unresolved += 1
            return
        if isinstance(fn, ast.Call) and dotted(fn.func) == "type":
            r = self.receiver_class(fn, f, m)
            if r:
                ci = r[0]
                for sub in self._subclasses(ci):
                    self.constructions[sub.fq].append((f, m, call))
                for meth in ("__new__", "__init__"):
                    for t in self._dispatch(ci, meth):
                        self._add(src_fq, "construct", t, call)
                self.resolved += 1
                return
        self.unresolved += 1

    def _visit_attr_load(self, n, f, m, src_fq):
        recv = self.receiver_class(n.value, f, m)
        if recv:
            ci, mode = recv
            if mode == "super":
                for c in self.repo.mro(ci)[1:]:
                    if not isinstance(c, str) and n.attr in c.methods:
                        t = c.methods[n.attr]
                        self._add(src_fq, "prop" if t.kind in PROPERTY_KINDS else "ref", t, n)
                        return
                return
            for t in self._dispatch(ci, n.attr):
                self._add(src_fq, "prop" if t.kind in PROPERTY_KINDS else "ref", t, n)
            return
        root = n
        while isinstance(root, ast.Attribute):
            root = root.value
        if isinstance(root, ast.Name):
            r = self.repo.resolve_name(root.id, m, f)
            if r and r[0] in ("module", "ext"):
                full = self.repo.resolve_expr(n, m, f)
                if full and full[0] == "func":
                    self._add(src_fq, "ref", full[1], n)
                return
        # unknown receiver: properties by name
        for t in self.by_name.get(n.attr, []):
            if t.kind in PROPERTY_KINDS:
                self._add(src_fq, "prop", t, n, exact=False)

    # -- queries -------------------------------------------------------------------
    def callees(self, fq, kinds=("call", "prop", "construct", "ref"), exact_only=False):
        for e in self.edges.get(fq, ()):
            if e.kind in kinds and (e.exact or not exact_only):
                yield e

    def callers(self, target_fq, kinds=("call", "prop", "construct", "ref")):
        if self._rev is None:
            rev = defaultdict(list)
            for src, es in self.edges.items():
                for e in es:
                    rev[e.target.fq].append((src, e))
            self._rev = rev
        return [(s, e) for s, e in self._rev.get(target_fq, ()) if e.kind in kinds]

    def reach(self, from_fqs, to_pred, kinds=("call", "prop", "construct", "ref"), exact_only=False, stop=lambda fq: False):
        """BFS; returns a witness path [fq, ...] to the first function satisfying
        ``to_pred`` or None."""
        dq = deque()
        prev = {}
        for s in from_fqs:
            prev[s] = None
            dq.append(s)
        while dq:
            cur = dq.popleft()
            for e in self.callees(cur, kinds, exact_only):
                t = e.target.fq
                if t in prev:
                    continue
                prev[t] = (cur, e)
                if to_pred(e.target):
                    path = [t]
                    c = t
                    while prev[c] is not None:
                        c = prev[c][0]
                        path.append(c)
                    return list(reversed(path)), prev
                if not stop(t):
                    dq.append(t)
        return None, prev

    def closure(self, from_fqs, kinds=("call", "prop", "construct", "ref"), exact_only=False, stop=lambda fq: False):
        seen = set(from_fqs)
        dq = deque(from_fqs)
        while dq:
            cur = dq.popleft()
            for e in self.callees(cur, kinds, exact_only):
                t = e.target.fq
                if t not in seen:
                    seen.add(t)
                    if not stop(t):
                        dq.append(t)
        return seen

    def stats(self):
        tot = self.resolved + self.unresolved
        return {
            "call_sites": tot,
            "resolved_call_sites": self.resolved,
            "resolution_rate": round(self.resolved / tot, 3) if tot else 1.0,
            "edges": sum(len(v) for v in self.edges.values()),
        }

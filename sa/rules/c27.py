"""C27 - shape of the transfer estimates."""

from __future__ import annotations

import ast

from ..model import FuncInfo, body_walk, dotted, idents_in, norm, unparse
from ..refguards import check_reference
from ..report import RuleResult
from .common import cfg_of, need, site

PROP = "C27"

EXPLANATION = (
    "Decides the structural clauses of C27. R27.1 each of the transfer_bytes definitions returns a TransferBytes(min, max) "
    "pair on every path; R27.2 every return that carries math.nan is control-dependent on an isnan test over chunk sizes "
    "(NaN only when sizes are unknown); R27.3 classes whose layer is a pure 1:1 alias (ChunksOverride, RootAlias, "
    "ChunksFreeze; Concatenate) return TransferBytes(0.0, 0.0), and Rechunk's estimate is a sum over plan stages starting "
    "at 0.0 (a rechunk to the same chunks has no stage); R27.4 (REF) the early-outs of moved_fraction (identical layouts, "
    "empty axis, mismatched totals -> 0.0 before any division) and every exit of the estimate functions keep their "
    "controlling conditions. 0 <= min <= max, the [0, 1] range and 'zero for pure splits' are arithmetic and not decided."
)
ASSUMPTIONS = ["reference guards reviewed on the reference tree"]
TRUSTED = ["CPython ast", "sa.cfg", "sa.refguards"]
ALIAS_CLASSES = ("ChunksOverride", "RootAlias", "ChunksFreeze", "Concatenate")


def _defs(ctx):
    out = []
    for c in ctx.repo.expr_classes():
        f = c.methods.get("transfer_bytes")
        if f is not None:
            out.append((c, f))
    return out


def r27_1(ctx):
    rr = RuleResult("R27.1", "COVER", "every transfer_bytes definition returns TransferBytes(lo, hi) on every path", min_instances=15)
    for c, f in _defs(ctx):
        cfg = cfg_of(ctx, f)
        rr.inst(site(f), returns=len(cfg.returns))
        for r in cfg.returns:
            v = r.value
            ok = isinstance(v, ast.Call) and (dotted(v.func) or "").endswith("TransferBytes") and len(v.args) + len(v.keywords) == 2
            if not ok and isinstance(v, ast.Attribute) and v.attr == "transfer_bytes":
                ok = True  # delegation to another node's estimate
            if not ok:
                ctx.finding(rr, site(f, r), f"{c.name}.transfer_bytes returns {unparse(v) if v is not None else 'None'}, not a TransferBytes(min, max) pair", func=f, node=r)
        # falling off the end returns None
        if any(lbl is None and isinstance(n, ast.stmt) and not isinstance(n, ast.Return) for lbl, n in cfg.pred[cfg.exit]) or any(
            isinstance(n, (ast.If, ast.For, ast.While)) for lbl, n in cfg.pred[cfg.exit]):
            ctx.finding(rr, site(f), f"{c.name}.transfer_bytes can fall off the end and return None", func=f)
    return rr


def r27_2(ctx):
    rr = RuleResult("R27.2", "GUARD", "NaN estimates are returned only under an isnan test over chunk sizes", min_instances=2)
    n_nan = 0
    funcs = [f for _, f in _defs(ctx)]
    m = ctx.repo.mod("dask_array._rechunk")
    funcs += [f for f in m.functions.values() if f.parent is None and f.cls is None and "transfer" in f.name]
    for f in funcs:
        cfg = cfg_of(ctx, f)
        for r in cfg.returns:
            if r.value is None or not any(isinstance(x, ast.Attribute) and x.attr == "nan" or isinstance(x, ast.Name) and x.id == "nan" for x in ast.walk(r.value)):
                continue
            n_nan += 1
            g = cfg.guards(r)
            ok = any(pol and "isnan" in idents_in(t) for t, pol in g)
            rr.inst(site(f, r), guards=[(unparse(t)[:80], pol) for t, pol in g])
            if not ok:
                ctx.finding(rr, site(f, r), "a NaN estimate is returned without an isnan(chunk size) test controlling it: known-size arrays could report NaN", func=f, node=r)
    need(n_nan >= 2, "NaN-returning estimate exits")
    return rr


def r27_3(ctx):
    rr = RuleResult("R27.3", "COVER", "pure alias layers cost TransferBytes(0.0, 0.0); Rechunk sums stage costs from 0.0", min_instances=5)
    repo = ctx.repo
    for cname in ALIAS_CLASSES:
        c = repo.find_class(cname)
        hit = repo.class_attr(c, "transfer_bytes")
        f = hit[1] if hit and isinstance(hit[1], FuncInfo) else None
        rr.inst(f"{c.construct}::transfer_bytes", defined_in=hit[0].name if hit else None)
        if f is None or hit[0].name == "ArrayExpr":
            ctx.finding(rr, f"{c.construct}::transfer_bytes", f"{cname} (a pure alias layer) inherits the generic estimate instead of reporting that nothing moves", file=c.module.path, line=c.node.lineno)
            continue
        rets = [unparse(r.value) for r in body_walk(f.node) if isinstance(r, ast.Return)]
        if rets != ["TransferBytes(0.0, 0.0)"]:
            ctx.finding(rr, site(f), f"{cname}.transfer_bytes returns {rets}, not TransferBytes(0.0, 0.0)", func=f)
    rc = repo.mod("dask_array._rechunk").cls("Rechunk").methods.get("transfer_bytes")
    need(rc is not None, "Rechunk.transfer_bytes")
    # the two accumulators are whatever the final TransferBytes(a, b) returns; each starts at zero and is only ever
    # incremented (+=) - names and the spelling of the initialisation (``lo = hi = 0.0``) are free
    acc = []
    for r in body_walk(rc.node):
        if isinstance(r, ast.Return) and isinstance(r.value, ast.Call) and dotted(r.value.func) == "TransferBytes" and all(isinstance(a, ast.Name) for a in r.value.args):
            acc = [a.id for a in r.value.args]
    if len(acc) != 2:
        rets = [r for r in body_walk(rc.node) if isinstance(r, ast.Return) and r.value is not None]
        shaped = [r for r in rets if isinstance(r.value, ast.Call) and dotted(r.value.func) == "TransferBytes" and len(r.value.args) + len(r.value.keywords) == 2]
        rr.inst(site(rc), returns=[unparse(r.value)[:60] for r in rets])
        for r in rets:
            if r not in shaped:
                ctx.finding(rr, site(rc, r)[:170], f"Rechunk.transfer_bytes returns {unparse(r.value)[:60]}, which is not built as TransferBytes(<min>, <max>): the estimate of a multi-stage rechunk is no longer a (min, max) pair by construction", func=rc, node=r)
        if len(shaped) == len(rets):
            rr.notes.append("Rechunk.transfer_bytes builds its pair from something other than two accumulators: shape decided, accumulation not")
        return rr
    init, other = {}, {}
    for s_ in body_walk(rc.node):
        if isinstance(s_, ast.Assign):
            for t in s_.targets:
                for nm in [x.id for x in ast.walk(t) if isinstance(x, ast.Name) and x.id in acc]:
                    if isinstance(s_.value, ast.Constant) and s_.value.value == 0:
                        init[nm] = unparse(s_.value)
                    else:
                        other.setdefault(nm, []).append(unparse(s_)[:60])
        elif isinstance(s_, ast.AugAssign) and isinstance(s_.target, ast.Name) and s_.target.id in acc and not isinstance(s_.op, ast.Add):
            other.setdefault(s_.target.id, []).append(unparse(s_)[:60])
    rr.inst(site(rc), accumulators=acc, zero_initialised=sorted(init), other_bindings=other)
    if set(init) != set(acc):
        ctx.finding(rr, site(rc), f"Rechunk.transfer_bytes accumulators {sorted(set(acc) - set(init))} do not start at 0.0: an empty plan (same chunks) would not cost zero", func=rc)
    if other:
        ctx.finding(rr, site(rc), f"Rechunk.transfer_bytes rebinds an accumulator other than by += of a stage cost ({other}): the estimate is no longer the sum of its stages (min and max can cross)", func=rc)
    loops = [n for n in body_walk(rc.node) if isinstance(n, ast.For)]
    if not loops or "plan_rechunk" not in unparse(rc.node):
        ctx.finding(rr, site(rc), "Rechunk.transfer_bytes no longer sums over the stages of plan_rechunk", func=rc)
    return rr


def r27_4(ctx):
    rr = RuleResult("R27.4", "REF", "early-outs of moved_fraction and exits of the estimate functions keep their controlling conditions", min_instances=20)
    check_reference(ctx, rr, PROP)
    mf = ctx.repo.mod("dask_array._expr").func("moved_fraction")
    cfg = cfg_of(ctx, mf)
    divs = [s for s in cfg.stmts() if any(isinstance(x, ast.BinOp) and isinstance(x.op, ast.Div) for x in ast.walk(s)) and isinstance(s, ast.Return)]
    for s in divs:
        den = next(unparse(x.right) for x in ast.walk(s) if isinstance(x, ast.BinOp) and isinstance(x.op, ast.Div))
        g = cfg.guards(s)
        ok = any(pol is False and f"not {den}" in unparse(t) for t, pol in g)
        rr.inst(site(mf, s), divides_by=den, guarded=ok)
        if not ok:
            ctx.finding(rr, site(mf, s), f"moved_fraction divides by {den} without the `not {den}` early-out dominating it (empty axis -> ZeroDivisionError instead of 0.0)", func=mf, node=s)
    return rr


RULES = [r27_1, r27_2, r27_3, r27_4]

LEVEL_TEXT = (
    "Static decision of the well-formedness shape of the estimates: return-shape coverage of all transfer_bytes "
    "definitions, control dependence of NaN results on unknown-size tests, zero cost for alias layers and an empty rechunk "
    "plan, and REF fingerprints of the early-outs (identical layouts, empty axis, mismatched totals) and exits of the "
    "estimate functions. The inequalities 0 <= min <= max and the [0, 1] range are arithmetic and not decided."
)
LEVEL_NOTE = "Trusted: CPython ast, engine CFG/guards, reviewed reference table. Formula changes inside an estimate are invisible to these rules."
TECHNIQUE = "static analysis: return-shape coverage + guard (control-dependence) checks + reference-guard fingerprints (ast)"

import numpy as np, random, warnings, sys
warnings.simplefilter("ignore")
import dask, dask_array as da
seed=int(sys.argv[1]) if len(sys.argv)>1 else 0
random.seed(seed); bad=0
def rk(shape):
    k=random.random()
    if k<0.3: return tuple(random.choice([slice(None), slice(1,None), slice(None,-1), slice(None,None,2), random.randrange(s)]) for s in shape)
    if k<0.5: return random.randrange(shape[0])
    if k<0.7: return "mask"
    if k<0.85: return [random.randrange(shape[0]) for _ in range(2)]
    return Ellipsis
for p in range(int(sys.argv[2]) if len(sys.argv)>2 else 150):
    shape = random.choice([(6,), (4,5), (3,4,2)])
    base = (np.arange(float(np.prod(shape))).reshape(shape) % 7) - 2
    n = base.copy()
    d = da.from_array(base, chunks=tuple(random.choice([1,2,s]) for s in shape))
    if random.random()<0.5: d = d*1; 
    snaps=[]  # (dask collection derived earlier, numpy value at that time)
    log=[]
    try:
        for step in range(random.randint(2,5)):
            op = random.choice(["setitem","iadd","derive","derive_slice","setitem_arr","copy_set","imul","persist_derive"])
            log.append(op)
            if op in ("derive","persist_derive"):
                e = d + 1
                if op=="persist_derive": e = e.persist()
                snaps.append((e, n+1))
            elif op=="derive_slice":
                snaps.append((d[tuple(slice(None, max(1,s-1)) for s in shape)], n[tuple(slice(None, max(1,s-1)) for s in shape)].copy()))
            elif op=="setitem":
                k = rk(shape); v = random.choice([0.5, -3.0])
                if k=="mask":
                    d[d>1] = v; n[n>1] = v
                else:
                    d[k] = v; n[k] = v
            elif op=="setitem_arr":
                k = tuple(slice(None) for _ in shape[:-1]) + (slice(0,1),)
                val = np.full(n[k].shape, 9.0)
                d[k] = da.from_array(val, chunks=1); n[k] = val
            elif op=="iadd":
                d += 2; n = n + 2
            elif op=="imul":
                d *= d; n = n * n
            elif op=="copy_set":
                c = d.copy(); c[...] = 0; snaps.append((c, np.zeros_like(n)))
        got = d.compute()
        if not np.allclose(got, n): bad+=1; print("MISMATCH target seed", seed, p, log)
        for e, want in snaps:
            g = e.compute()
            if g.shape!=want.shape or not np.allclose(g, want): bad+=1; print("MISMATCH derived seed", seed, p, log); break
        if not np.allclose(base, (np.arange(float(np.prod(shape))).reshape(shape) % 7) - 2): bad+=1; print("SOURCE MUTATED", seed, p, log)
    except Exception as ex:
        bad+=1; print("RAISE seed", seed, p, type(ex).__name__, str(ex)[:100], log)
print("bad", bad)

import numpy as np, random, warnings, sys
warnings.simplefilter("ignore")
import dask_array as da
seed=int(sys.argv[1]) if len(sys.argv)>1 else 0
random.seed(seed)
def rch(shape): return tuple(random.choice([1,2,3,4,max(1,s)]) for s in shape)
def leaf(shape=None):
    shape = shape or random.choice([(6,8),(5,7),(4,6,5),(12,)])
    arr = (np.arange(float(np.prod(shape))).reshape(shape)*7) % 17 - 5
    return da.from_array(arr, chunks=rch(shape)), arr
def ridx(shape):
    return tuple(random.choice([slice(None), slice(1,None), slice(None,-1), slice(None,None,2), slice(None,None,-1), slice(1,3)]+([random.randrange(s)] if s else [])) for s in shape)
OPS=["idx","rechunk","T","elem","other_add","other_where","sum_where","isin","searchsorted","choose","select","piecewise","vindex","nanmean","nanmax","percentile","cov","average","ptp","digitize","triu","outer","compress","extract","insert","delete","append","atleast","block","unique","bincount","histogram","apply_along","apply_over","argtopk","nanargmax","cum_blelloch","nancumsum","median","any_all","count_nonzero","ravel","swapaxes","broadcast_to","minimum","round","isclose","allclose","vdot","trace","diagonal","diag","tensordot","gradient","ediff1d","unravel","flatnonzero","argwhere","nonzero_take","squeeze_axis","dstack","hstack","vstack","full_like","ones_like_add","linspace_add","arange_add","eye_add","tri_mul","roll_multi","flipud","cumsum_neg","mean_tuple","prod","min","all_axis","moment","nanstd","nanvar","nanprod","nanmin","argmin","cummax?","matmul_vec","kron?","dot_nd","rollaxis","shape_fn","expand_multi","setitem_then","fancy_list","bool_np","neg_step_full","take_neg","where_scalar","clip_arr","fmax","ldexp?","frexp","modf","divmod","angle","real_imag","iscomplex","fix","rint","sign","cbrt","exp_log","power","logaddexp","hypot","arctan2","copysign","nextafter","float_power","floor_divide","mod","bitwise","invert","left_shift","logical","equal","isnan_inf","nan_to_num","interp?","result_astype_int","view?","map_blocks_drop","map_blocks_new","reduction_custom","blockwise_sum"]
def step(d,n):
    k=random.choice(OPS); nd=n.ndim
    if k=="idx" and nd and 0 not in n.shape: i=ridx(n.shape); return d[i],n[i],k
    if k=="rechunk" and nd and 0 not in n.shape: return d.rechunk(rch(n.shape)),n,k
    if k=="T" and nd>=2: return d.T,n.T,k
    if k=="elem": return d*2-1,n*2-1,k
    if k=="other_add" and nd and 0 not in n.shape:
        o,on=leaf(n.shape); o=o[ridx(n.shape)[:0]+()] ; return d+o, n+on, k
    if k=="other_where" and nd and 0 not in n.shape:
        o,on=leaf(n.shape); c,cn=leaf(n.shape); return da.where(c>0,d,o), np.where(cn>0,n,on), k
    if k=="sum_where" and nd and n.size:
        c,cn=leaf(n.shape); ax=random.randrange(nd); return da.sum(d,axis=ax,where=c>0), np.sum(n,axis=ax,where=cn>0), k
    if k=="isin" and n.size:
        t=np.array([1.,2.,-5.,9.]); return da.isin(d, da.from_array(t,chunks=2)), np.isin(n,t), k
    if k=="searchsorted" and nd==1 and n.size:
        s=np.sort(n); v=np.array([[-3.,0.],[5.,20.]]); return da.searchsorted(da.from_array(s,chunks=d.chunks[0] if len(d.chunks[0])<s.size else 3), da.from_array(v,chunks=1)), np.searchsorted(s,v), k
    if k=="choose" and nd and n.size:
        c=(np.abs(n).astype(int))%2; return da.choose(da.from_array(c,chunks=rch(n.shape)), [d,d*10]), np.choose(c,[n,n*10]), k
    if k=="select" and n.size: return da.select([d>3,d<0],[d,d*2],default=7.), np.select([n>3,n<0],[n,n*2],default=7.), k
    if k=="piecewise" and n.size: return da.piecewise(d,[d<0,d>=0],[lambda v:-v, lambda v:v*3]), np.piecewise(n,[n<0,n>=0],[lambda v:-v, lambda v:v*3]), k
    if k=="vindex" and nd>=2 and 0 not in n.shape:
        i0=[random.randrange(n.shape[0]) for _ in range(3)]; i1=[random.randrange(n.shape[1]) for _ in range(3)]; return d.vindex[i0,i1], n[i0,i1], k
    if k=="nanmean" and nd and n.size:
        ax=random.randrange(nd); m=np.where(n>3,np.nan,n); return da.nanmean(da.where(d>3,np.nan,d),axis=ax), np.nanmean(m,axis=ax), k
    if k=="nanmax" and nd and n.size:
        ax=random.randrange(nd); m=np.where(n>3,np.nan,n); return da.nanmax(da.where(d>3,np.nan,d),axis=ax), np.nanmax(m,axis=ax), k
    if k=="percentile" and nd==1 and n.size>3: return da.percentile(d,[25,50],method='linear', internal_method='dask') if False else (d,n,k+"-skip")
    if k=="cov" and nd==2 and all(s>1 for s in n.shape): return da.cov(d), np.cov(n), k
    if k=="average" and nd and n.size:
        ax=random.randrange(nd); w,wn=leaf(n.shape); return da.average(d,axis=ax,weights=abs(w)+1), np.average(n,axis=ax,weights=abs(wn)+1), k
    if k=="ptp" and nd and n.size: ax=random.randrange(nd); return da.ptp(d,axis=ax), np.ptp(n,axis=ax), k
    if k=="digitize" and n.size: b=np.array([-3.,0.,4.]); return da.digitize(d,b), np.digitize(n,b), k
    if k=="triu" and nd>=2: return da.triu(d,1), np.triu(n,1), k
    if k=="outer" and nd==1 and n.size: return da.outer(d,d+1), np.outer(n,n+1), k
    if k=="compress" and nd and n.shape[0]>1:
        c=[bool(i%2) for i in range(n.shape[0])]; return da.compress(c,d,axis=0), np.compress(c,n,axis=0), k
    if k=="extract" and n.size: return (d,n,k+"-skip")
    if k=="insert" and nd and n.shape[0]>1: return da.insert(d,1,9.,axis=0), np.insert(n,1,9.,axis=0), k
    if k=="delete" and nd and n.shape[0]>2: return da.delete(d,[0,2],axis=0), np.delete(n,[0,2],axis=0), k
    if k=="append" and nd and n.size: return da.append(d,d*2,axis=0), np.append(n,n*2,axis=0), k
    if k=="atleast": return da.atleast_3d(d), np.atleast_3d(n), k
    if k=="block" and nd and n.size: return da.block([d,d+1]), np.block([n,n+1]), k
    if k=="unique" and n.size: return (d,n,k+"-skip")
    if k=="bincount" and nd==1 and n.size: c=np.abs(n).astype(int); return da.bincount(da.from_array(c,chunks=d.chunks),minlength=20), np.bincount(c,minlength=20), k
    if k=="histogram" and n.size: return da.histogram(d,bins=5,range=(-6,12))[0], np.histogram(n,bins=5,range=(-6,12))[0], k
    if k=="apply_along" and nd and n.size and 0 not in n.shape:
        ax=random.randrange(nd); return da.apply_along_axis(lambda v: v.sum(), ax, d, dtype=float, shape=()), np.apply_along_axis(lambda v: v.sum(), ax, n), k
    if k=="apply_over" and nd>=2 and n.size: return da.apply_over_axes(da.sum,d,[0]), np.apply_over_axes(np.sum,n,[0]), k
    if k=="argtopk" and nd==1 and n.size>=2: return (d,n,k+"-skip")
    if k=="nanargmax" and nd and n.size: ax=random.randrange(nd); return da.nanargmax(d,axis=ax), np.nanargmax(n,axis=ax), k
    if k=="cum_blelloch" and nd and n.size: ax=random.randrange(nd); return da.cumsum(d,axis=ax,method="blelloch"), np.cumsum(n,axis=ax), k
    if k=="nancumsum" and nd and n.size: ax=random.randrange(nd); m=np.where(n>3,np.nan,n); return da.nancumsum(da.where(d>3,np.nan,d),axis=ax), np.nancumsum(m,axis=ax), k
    if k=="median" and nd and n.size and 0 not in n.shape: ax=random.randrange(nd); return da.median(d,axis=ax), np.median(n,axis=ax), k
    if k=="any_all" and nd and n.size: ax=random.randrange(nd); return (d>0).any(axis=ax)&(d>-9).all(axis=ax), (n>0).any(axis=ax)&(n>-9).all(axis=ax), k
    if k=="count_nonzero" and nd and n.size: ax=random.randrange(nd); return da.count_nonzero(d,axis=ax), np.count_nonzero(n,axis=ax), k
    if k=="ravel" and n.size: return d.ravel(), n.ravel(), k
    if k=="swapaxes" and nd>=2: return da.swapaxes(d,0,nd-1), np.swapaxes(n,0,nd-1), k
    if k=="broadcast_to" and nd and nd<3 and 0 not in n.shape: return da.broadcast_to(d,(2,)+n.shape), np.broadcast_to(n,(2,)+n.shape), k
    if k=="minimum" and n.size: o,on=leaf(n.shape); return da.minimum(d,o), np.minimum(n,on), k
    if k=="round": return da.round(d/3,1), np.round(n/3,1), k
    if k=="isclose": return da.isclose(d,d+1e-9), np.isclose(n,n+1e-9), k
    if k=="vdot" and nd==1 and n.size: return da.vdot(d,d), np.vdot(n,n), k
    if k=="trace" and nd>=2 and n.size: return da.trace(d), np.trace(n), k
    if k=="diagonal" and nd>=2 and n.size: return da.diagonal(d,offset=random.choice([0,1,-1])), None, k
    if k=="diag" and nd==1 and n.size: return da.diag(d), np.diag(n), k
    if k=="tensordot" and nd>=2 and n.size: return da.tensordot(d,d,axes=((0,),(0,))), np.tensordot(n,n,axes=((0,),(0,))), k
    if k=="gradient" and nd==1 and n.size>2 and all(c>=2 for c in d.chunks[0]): return da.gradient(d,axis=0), np.gradient(n,axis=0), k
    if k=="ediff1d" and n.size>1: return da.ediff1d(d), np.ediff1d(n), k
    if k=="flatnonzero" and n.size: return (d,n,k+"-skip")
    if k=="squeeze_axis" and nd and nd<3: return da.expand_dims(d,0).squeeze(axis=0), n, k
    if k=="dstack" and nd and n.size: return da.dstack([d,d]), np.dstack([n,n]), k
    if k=="hstack" and nd and n.size: return da.hstack([d,d+2]), np.hstack([n,n+2]), k
    if k=="vstack" and nd and n.size: return da.vstack([d,d+2]), np.vstack([n,n+2]), k
    if k=="full_like": return d+da.full_like(d,2.5), n+np.full_like(n,2.5), k
    if k=="ones_like_add": return d*da.ones_like(d)+da.zeros_like(d), n, k
    if k=="linspace_add" and nd and n.shape[-1]>0: return d+da.linspace(0,1,n.shape[-1],chunks=random.choice([1,2,n.shape[-1]])), n+np.linspace(0,1,n.shape[-1]), k
    if k=="arange_add" and nd and n.shape[-1]>0: return d+da.arange(n.shape[-1],chunks=random.choice([1,2,n.shape[-1]])), n+np.arange(n.shape[-1]), k
    if k=="eye_add" and nd==2 and n.shape[0]==n.shape[1] and n.size: return d+da.eye(n.shape[0],chunks=2), n+np.eye(n.shape[0]), k
    if k=="roll_multi" and nd>=2 and n.size: return da.roll(d,(1,-2),axis=(0,1)), np.roll(n,(1,-2),axis=(0,1)), k
    if k=="flipud" and nd>=1 and n.size: return da.flipud(d), np.flipud(n), k
    if k=="mean_tuple" and nd>=2 and n.size: return d.mean(axis=(0,nd-1)), n.mean(axis=(0,nd-1)), k
    if k=="prod" and nd and n.size: ax=random.randrange(nd); return da.clip(d,-1.2,1.2).prod(axis=ax), np.clip(n,-1.2,1.2).prod(axis=ax), k
    if k=="min" and nd and n.size: ax=random.randrange(nd); return d.min(axis=ax,keepdims=True), n.min(axis=ax,keepdims=True), k
    if k=="moment" and nd and n.size: ax=random.randrange(nd); return da.moment(d,3,axis=ax), ((n-n.mean(axis=ax,keepdims=True))**3).mean(axis=ax), k
    if k=="nanstd" and nd and n.size: ax=random.randrange(nd); m=np.where(n>6,np.nan,n); return da.nanstd(da.where(d>6,np.nan,d),axis=ax), np.nanstd(m,axis=ax), k
    if k=="argmin" and nd and n.size: return d.argmin(), n.argmin(), k
    if k=="matmul_vec" and nd==2 and n.size: v=np.arange(float(n.shape[1])); return d@da.from_array(v,chunks=random.choice([1,2,len(v)])), n@v, k
    if k=="inner" and nd and n.size: return da.inner(d,d), np.inner(n,n), k
    if k=="dot_nd" and nd==3 and n.size: return da.dot(d, d.transpose(0,2,1)[0]), np.dot(n, n.transpose(0,2,1)[0]), k
    if k=="expand_multi" and nd and nd<3: return da.expand_dims(d,(0,-1)), np.expand_dims(n,(0,-1)), k
    if k=="setitem_then" and nd and n.size:
        d2=d.copy(); n2=n.copy(); d2[d2>3]=-1.; n2[n2>3]=-1.; return d2,n2,k
    if k=="fancy_list" and nd and n.shape[-1]>1:
        ix=[random.randrange(n.shape[-1]) for _ in range(3)]; return d[...,ix], n[...,ix], k
    if k=="bool_np" and nd and n.shape[0]>1:
        m=np.array([bool((i+seed)%2) for i in range(n.shape[0])]); return d[m], n[m], k
    if k=="take_neg" and nd and n.shape[-1]>1: return da.take(d,[-1,0,-2],axis=-1), np.take(n,[-1,0,-2],axis=-1), k
    if k=="clip_arr" and n.size: o,on=leaf(n.shape); return da.clip(d,o-3,o+3), np.clip(n,on-3,on+3), k
    if k=="frexp": return da.frexp(d)[1], np.frexp(n)[1], k
    if k=="modf": return da.modf(d/3)[0], np.modf(n/3)[0], k
    if k=="divmod": return da.divmod(d,3)[1], np.divmod(n,3)[1], k
    if k=="power": return abs(d)**0.5, abs(n)**0.5, k
    if k=="logical": return da.logical_xor(d>0,d>3), np.logical_xor(n>0,n>3), k
    if k=="isnan_inf": return da.isnan(d/ (d-1)), np.isnan(n/(n-1)), k
    if k=="nan_to_num": return da.nan_to_num(d/(d-1)), np.nan_to_num(n/(n-1)), k
    if k=="result_astype_int": return d.astype(int)//2, n.astype(int)//2, k
    if k=="map_blocks_drop" and nd>=2 and n.size: return d.rechunk({nd-1:-1}).map_blocks(lambda b:b.sum(axis=-1),drop_axis=nd-1,dtype=float), n.sum(axis=-1), k
    if k=="map_blocks_new" and nd and nd<3: return d.map_blocks(lambda b:b[None],new_axis=0,dtype=float), n[None], k
    if k=="reduction_custom" and nd and n.size: ax=random.randrange(nd); return da.reduction(d, lambda x,axis,keepdims: x.sum(axis=axis,keepdims=keepdims), lambda x,axis,keepdims: x.sum(axis=axis,keepdims=keepdims), axis=ax, dtype=float), n.sum(axis=ax), k
    if k=="blockwise_sum" and nd==2 and n.size: return da.blockwise(lambda b: b.sum(axis=1,keepdims=True),'ij',d.rechunk({1:-1}),'ij',adjust_chunks={'j':1},dtype=float), n.sum(axis=1,keepdims=True), k
    return d,n,None
bad=0;cases=0
for p in range(int(sys.argv[2]) if len(sys.argv)>2 else 300):
    d,n=leaf(); hist=[]
    try:
        for s in range(random.randint(2,5)):
            try:
                d2,n2,k=step(d,n)
            except (ValueError,NotImplementedError,IndexError,TypeError,ZeroDivisionError) as e:
                hist.append(('REFUSED',type(e).__name__,str(e)[:60])); continue
            if k is None or k.endswith('-skip'): continue
            if n2 is None: n2=np.asarray(d2.compute(optimize_graph=False)) if False else None
            if n2 is None:
                # diagonal: compare to numpy directly
                continue
            d,n=d2,n2; hist.append((k,tuple(np.shape(n))))
        got=d.compute(); cases+=1
        n_=np.asarray(n)
        ok = np.shape(got)==np.shape(n_) and np.allclose(got,n_,equal_nan=True)
        if not ok: bad+=1; print("MISMATCH seed",seed,"prog",p,hist,np.shape(got),np.shape(n_))
    except Exception as e:
        bad+=1; print("RAISE seed",seed,"prog",p,type(e).__name__,str(e)[:120],hist)
print("cases",cases,"bad",bad)

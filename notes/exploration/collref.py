import ast, os
ROOT='/repo/dask_array'
for dp,dn,fns in os.walk(ROOT):
    if '/tests' in dp: continue
    for f in fns:
        if not f.endswith('.py'): continue
        p=os.path.join(dp,f); t=ast.parse(open(p).read())
        for c in ast.walk(t):
            if not isinstance(c,ast.ClassDef): continue
            if not any(isinstance(n,ast.Assign) and any(isinstance(tg,ast.Name) and tg.id=='_parameters' for tg in n.targets) for n in c.body) and c.name not in ('Slice',): 
                continue
            for fn in c.body:
                if not isinstance(fn,ast.FunctionDef): continue
                for n in ast.walk(fn):
                    if isinstance(n,ast.Call):
                        s=ast.unparse(n.func)
                        if s in ('is_dask_collection','unpack_collections') or (s=='isinstance' and len(n.args)==2 and 'Array' in ast.unparse(n.args[1]).replace('ArrayExpr','').replace('ArrayBlockwiseDep','').replace('ArrayValuesDep','').replace('np.ndarray','').replace('MaskedArray','')):
                            print(p.replace(ROOT+'/',''), c.name, fn.name, n.lineno, ast.unparse(n)[:100])

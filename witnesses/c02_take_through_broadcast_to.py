"""Witness for R02.11 (repaired in /repo): a take pushed through broadcast_to.  Exit 0 when the result equals NumPy's."""
import sys
import warnings

import numpy as np

import dask_array as da

warnings.simplefilter("ignore")
a = (np.arange(48.0).reshape(6, 8) * 7) % 17 - 5
bad = 0
for ch in [(2, 3), (6, 8), (1, 4), (3, 8)]:
    for ind, ax in [([-1, 0, -2], -1), ([5, 5, 0, 1], 1), ([1, 0], 0), ([0, 2, 4, 6, 1, 3, 5, 7], 2)]:
        x = da.from_array(a, chunks=ch)
        b = da.broadcast_to(x, (2, 6, 8))
        want = np.take(np.broadcast_to(a, (2, 6, 8)), ind, axis=ax)
        try:
            r = da.take(b, ind, axis=ax)
            if r.shape != want.shape or not np.array_equal(r.compute(), want) or not np.array_equal(r.min(axis=2).compute(), want.min(axis=2)):
                bad += 1
                print(ch, ind, ax, "differs")
        except Exception as e:  # noqa: BLE001
            bad += 1
            print(ch, ind, ax, type(e).__name__, str(e)[:80])
sys.exit(1 if bad else 0)

"""Witness for R03.13 (repaired in /repo): nodes built under a precondition on their input's block grid, over an input whose
grid optimization changes.  Exit 0 when every result equals NumPy's; before the repair several were SILENTLY different."""
import sys
import warnings

import numpy as np

import dask_array as da

warnings.simplefilter("ignore")
sw = np.lib.stride_tricks.sliding_window_view
bad = 0


def chk(lbl, f, w):
    global bad
    try:
        g = np.asarray(f())
        if g.shape != np.shape(w) or not np.allclose(g, w):
            bad += 1
            print(lbl, "differs")
    except Exception as e:  # noqa: BLE001
        bad += 1
        print(lbl, type(e).__name__, str(e)[:80])


arr = np.arange(48.0).reshape(6, 8) % 17 - 5
n1 = sw(arr, 3, axis=-1).sum(axis=-1)
for ch in [(6, 8), (4, 1), (3, 4), (2, 3)]:
    S = lambda: da.sliding_window_view(da.from_array(arr, chunks=ch), 3, axis=-1).sum(axis=-1)  # noqa: E731
    chk(f"rolling sum of a column of a rolling sum {ch}", lambda: da.sliding_window_view(S()[:, 0], 3).sum(axis=-1).compute(), sw(n1[:, 0], 3).sum(axis=-1))
    chk(f"2-d moving window (axis 1 then axis 0) {ch}", lambda: da.sliding_window_view(S(), 3, axis=0).sum(axis=-1).compute(), sw(n1, 3, axis=0).sum(axis=-1))
    chk(f"rolling max of the transpose {ch}", lambda: da.sliding_window_view(S().T, 2, axis=1).max(axis=-1).compute(), sw(n1.T, 2, axis=1).max(axis=-1))
S = lambda: da.sliding_window_view(da.from_array(arr, chunks=(6, 8)), 3, axis=-1).sum(axis=-1)  # noqa: E731
ne = np.einsum("ij,kj->ik", n1, n1)
chk("rolling sum of a row of tensordot(s, s)", lambda: da.sliding_window_view(da.tensordot(S(), S(), axes=((1,), (1,)))[0], 3).sum(axis=-1).compute(), sw(ne[0], 3).sum(axis=-1))
chk("rolling sum of a row of s @ s.T", lambda: da.sliding_window_view((S() @ S().T)[0], 3).sum(axis=-1).compute(), sw(ne[0], 3).sum(axis=-1))
a2 = np.arange(200.0).reshape(20, 10) % 13 - 4
n2 = sw(a2, 8, axis=1).sum(axis=-1)
for ch in [(5, 3), (20, 2)]:
    S2 = lambda: da.sliding_window_view(da.from_array(a2, chunks=ch), 8, axis=1).sum(axis=-1)  # noqa: E731
    chk(f"tsqr R {ch}", lambda: abs(da.linalg.tsqr(S2())[1].compute()), abs(np.linalg.qr(n2)[1]))
    chk(f"svd {ch}", lambda: da.linalg.svd(S2())[1].compute(), np.linalg.svd(n2, compute_uv=False))
sys.exit(1 if bad else 0)

"""Generic flow-sensitive may-tag analysis over the statement CFG.

Every local name maps to a frozenset of *tags* (client-defined strings: "the
value may alias the rng operand", "the value may be derived from uuid4()",
"the value may be the user's source object").  The client supplies an
``Evaluator`` subclass that says which tags an expression carries given the
current state; this module does the plumbing: reaching-definition style
propagation over ``sa.cfg.CFG`` with a worklist (union at joins), tuple
unpacking, loop/with/walrus/comprehension targets, optional edge refinement, and
a recording pass that hands every statement together with its IN-state to the
client (that is where sinks are inspected).

Nothing here is specific to one property.
"""

from __future__ import annotations

import ast
from collections import deque

from .cfg import CFG, header_nodes

EMPTY = frozenset()


class Evaluator:
    """Client hook: tags of an expression.  Subclasses override ``call`` /
    ``attribute`` / ``name`` as needed; the defaults propagate tags through
    containers, subscripts, conditionals and arithmetic."""

    ELEMENT_TAGS = frozenset()  # tags that describe the container itself (become "<tag>[*]" when nested one level)

    def __init__(self):
        self.flow = None  # set by TagFlow

    # -- overridable ------------------------------------------------------------
    def name(self, n: ast.Name, st):
        return st.get(n.id, EMPTY)

    def attribute(self, n: ast.Attribute, st):
        return self.ev(n.value, st)

    def call(self, n: ast.Call, st):
        out = EMPTY
        if isinstance(n.func, ast.Attribute):
            out |= self.ev(n.func.value, st)
        for a in n.args:
            out |= self.ev(a, st)
        for k in n.keywords:
            out |= self.ev(k.value, st)
        return out

    def subscript(self, n: ast.Subscript, st):
        return self.ev(n.value, st)

    def compare(self, n: ast.Compare, st):
        return EMPTY

    def store_tags(self, target, base_tags, value_tags):
        """Tags the base of ``base[...] = value`` / ``base.attr = value`` acquires."""
        return value_tags

    def iter_tags(self, it, st):
        """Tags of the loop variable of ``for x in it`` / a comprehension generator."""
        return self.ev(it, st)

    def mutator_tags(self, call: ast.Call, st):
        """Tags a container acquires from ``container.append/add/update/...(args)``."""
        tags = EMPTY
        for a in call.args:
            tags |= self.ev(a, st)
        for k in call.keywords:
            tags |= self.ev(k.value, st)
        return tags

    def side_effects(self, call: ast.Call, st) -> dict:
        """Tags that a call deposits into local names it is handed (``Pickler(buf)`` makes ``buf`` carry what the
        pickler writes): {name: tags}.  Default: none."""
        return {}

    # -- driver -------------------------------------------------------------------
    def ev(self, e, st):
        if e is None:
            return EMPTY
        if isinstance(e, ast.Name):
            return self.name(e, st)
        if isinstance(e, ast.Constant):
            return EMPTY
        if isinstance(e, ast.Attribute):
            return self.attribute(e, st)
        if isinstance(e, ast.Call):
            return self.call(e, st)
        if isinstance(e, ast.Subscript):
            return self.subscript(e, st)
        if isinstance(e, ast.Starred):
            return self.ev(e.value, st)
        if isinstance(e, ast.IfExp):
            return self.ev(e.body, st) | self.ev(e.orelse, st)
        if isinstance(e, ast.BoolOp):
            out = EMPTY
            for v in e.values:
                out |= self.ev(v, st)
            return out
        if isinstance(e, ast.Compare):
            return self.compare(e, st)
        if isinstance(e, ast.NamedExpr):
            return self.ev(e.value, st)
        if isinstance(e, (ast.Tuple, ast.List, ast.Set)):
            out = EMPTY
            for x in e.elts:
                out |= self.ev(x, st)
            return out
        if isinstance(e, ast.Dict):
            out = EMPTY
            for x in list(e.keys) + list(e.values):
                out |= self.ev(x, st)
            return out
        if isinstance(e, (ast.ListComp, ast.SetComp, ast.GeneratorExp, ast.DictComp)):
            st2 = self.bind_comprehension(e, st)
            if isinstance(e, ast.DictComp):
                return self.ev(e.key, st2) | self.ev(e.value, st2)
            return self.ev(e.elt, st2)
        if isinstance(e, ast.JoinedStr):
            out = EMPTY
            for v in e.values:
                out |= self.ev(v, st)
            return out
        if isinstance(e, ast.FormattedValue):
            return self.ev(e.value, st)
        if isinstance(e, (ast.BinOp,)):
            return self.ev(e.left, st) | self.ev(e.right, st)
        if isinstance(e, ast.UnaryOp):
            return self.ev(e.operand, st)
        if isinstance(e, ast.Lambda):
            return EMPTY
        if isinstance(e, ast.Await):
            return self.ev(e.value, st)
        if isinstance(e, ast.Slice):
            return self.ev(e.lower, st) | self.ev(e.upper, st) | self.ev(e.step, st)
        return EMPTY

    def bind_comprehension(self, e, st):
        st2 = dict(st)
        for g in e.generators:
            tags = self.ev(g.iter, st2)
            for n in ast.walk(g.target):
                if isinstance(n, ast.Name):
                    st2[n.id] = tags
        return st2


class TagFlow:
    def __init__(self, func_node, evaluator: Evaluator, init=None, refine=None, cfg: CFG | None = None):
        self.func = func_node
        self.cfg = cfg or CFG(func_node)
        self.evr = evaluator
        evaluator.flow = self
        self.refine = refine
        self.init = dict(init or {})
        self.IN = {}
        self._run()

    # -- transfer -------------------------------------------------------------------
    def _assign(self, target, tags, st, value=None):
        if isinstance(target, ast.Name):
            st[target.id] = tags
        elif isinstance(target, (ast.Tuple, ast.List)):
            if isinstance(value, (ast.Tuple, ast.List)) and len(value.elts) == len(target.elts) and not any(isinstance(x, ast.Starred) for x in list(target.elts) + list(value.elts)):
                for t, v in zip(target.elts, value.elts):
                    self._assign(t, self.evr.ev(v, st), st, v)
            else:
                for t in target.elts:
                    self._assign(t.value if isinstance(t, ast.Starred) else t, tags, st)
        elif isinstance(target, (ast.Subscript, ast.Attribute)):
            # storing into a container/attribute of a local: the base may now hold the value
            base = target
            while isinstance(base, (ast.Subscript, ast.Attribute)):
                base = base.value
            if isinstance(base, ast.Name) and base.id not in ("self", "cls"):
                st[base.id] = st.get(base.id, EMPTY) | self.evr.store_tags(target, st.get(base.id, EMPTY), tags)
        elif isinstance(target, ast.Starred):
            self._assign(target.value, tags, st)

    def _walrus(self, expr, st):
        for n in ast.walk(expr):
            if isinstance(n, ast.NamedExpr) and isinstance(n.target, ast.Name):
                st[n.target.id] = self.evr.ev(n.value, st)

    def _mutators(self, expr, st):
        """x.append(v) / x.extend(v) / x.update(v) / x.add(v) / x.setdefault(k, v): x may now hold v."""
        for n in ast.walk(expr):
            if isinstance(n, ast.Call):
                for name, tags in self.evr.side_effects(n, st).items():
                    if tags:
                        st[name] = st.get(name, EMPTY) | tags
            if isinstance(n, ast.Call) and isinstance(n.func, ast.Attribute) and n.func.attr in ("append", "extend", "update", "insert", "add", "setdefault", "appendleft"):
                recv = n.func.value
                nested = False
                # d[k].add(v) / d.get(k, ...).add(v) / d.setdefault(k, ...).add(v): the element container lives inside d
                while True:
                    if isinstance(recv, ast.Subscript):
                        recv, nested = recv.value, True
                    elif isinstance(recv, ast.Call) and isinstance(recv.func, ast.Attribute) and recv.func.attr in ("get", "setdefault"):
                        recv, nested = recv.func.value, True
                    else:
                        break
                if isinstance(recv, ast.Name) and recv.id not in ("self", "cls"):
                    tags = self.evr.mutator_tags(n, st)
                    if nested:
                        tags = frozenset((t + "[*]" if t in self.evr.ELEMENT_TAGS else t) for t in tags)
                    if tags:
                        st[recv.id] = st.get(recv.id, EMPTY) | tags

    def transfer(self, s, st):
        st = dict(st)
        if isinstance(s, ast.Assign):
            self._walrus(s.value, st)
            tags = self.evr.ev(s.value, st)
            for t in s.targets:
                self._assign(t, tags, st, s.value)
            self._mutators(s.value, st)
        elif isinstance(s, ast.AnnAssign):
            if s.value is not None:
                self._assign(s.target, self.evr.ev(s.value, st), st, s.value)
        elif isinstance(s, ast.AugAssign):
            tags = self.evr.ev(s.value, st) | self.evr.ev(s.target, st)
            self._assign(s.target, tags, st)
        elif isinstance(s, (ast.For, ast.AsyncFor)):
            self._assign(s.target, self.evr.iter_tags(s.iter, st), st)
        elif isinstance(s, (ast.With, ast.AsyncWith)):
            for it in s.items:
                if it.optional_vars is not None:
                    self._assign(it.optional_vars, self.evr.ev(it.context_expr, st), st)
        elif isinstance(s, (ast.If, ast.While)):
            self._walrus(s.test, st)
        elif isinstance(s, ast.Expr):
            self._walrus(s.value, st)
            self._mutators(s.value, st)
        elif isinstance(s, (ast.FunctionDef, ast.AsyncFunctionDef, ast.ClassDef)):
            st[s.name] = EMPTY
        elif isinstance(s, ast.Return):
            if s.value is not None:
                self._walrus(s.value, st)
        return st

    def _run(self):
        cfg = self.cfg
        IN = {cfg.entry: dict(self.init)}
        work = deque([cfg.entry])
        iters = 0
        while work and iters < 50000:
            iters += 1
            n = work.popleft()
            st = IN.get(n, {})
            out = self.transfer(n, st) if isinstance(n, ast.stmt) else st
            for lbl, m in cfg.succ[n]:
                o = self.refine(n, lbl, out) if self.refine else out
                cur = IN.get(m)
                if cur is None:
                    IN[m] = dict(o)
                    work.append(m)
                    continue
                changed = False
                for k, v in o.items():
                    old = cur.get(k)
                    if old is None:
                        cur[k] = v
                        changed = changed or bool(v)
                    elif not v <= old:
                        cur[k] = old | v
                        changed = True
                if changed:
                    work.append(m)
        self.IN = IN

    # -- queries ----------------------------------------------------------------------
    def visit(self, fn):
        """Call ``fn(stmt, node, state)`` for every expression node evaluated by every reachable
        statement (compound statements: header only), with the statement's IN-state."""
        for s in self.cfg.stmts():
            st = self.IN.get(s)
            if st is None:
                continue  # unreachable
            for root in self._header_roots(s):
                self._walk(root, st, fn, s)

    @staticmethod
    def _header_roots(s):
        if isinstance(s, (ast.If, ast.While)):
            return [s.test]
        if isinstance(s, (ast.For, ast.AsyncFor)):
            return [s.target, s.iter]
        if isinstance(s, (ast.With, ast.AsyncWith)):
            return list(s.items)
        if isinstance(s, ast.Try) or type(s).__name__ == "TryStar":
            return []
        if isinstance(s, ast.Match):
            return [s.subject]
        if isinstance(s, (ast.FunctionDef, ast.AsyncFunctionDef, ast.ClassDef)):
            return list(s.decorator_list)
        return [s]

    def _walk(self, node, st, fn, stmt):
        """Pre-order walk that extends the state with comprehension targets (nested scopes are
        not entered: lambdas and nested defs are separate functions)."""
        fn(stmt, node, st)
        if isinstance(node, (ast.ListComp, ast.SetComp, ast.GeneratorExp, ast.DictComp)):
            st2 = dict(st)
            for g in node.generators:
                self._walk(g.iter, st2, fn, stmt)
                tags = self.evr.ev(g.iter, st2)
                for n in ast.walk(g.target):
                    if isinstance(n, ast.Name):
                        st2[n.id] = tags
                for c in g.ifs:
                    self._walk(c, st2, fn, stmt)
            if isinstance(node, ast.DictComp):
                self._walk(node.key, st2, fn, stmt)
                self._walk(node.value, st2, fn, stmt)
            else:
                self._walk(node.elt, st2, fn, stmt)
            return
        if isinstance(node, (ast.Lambda, ast.FunctionDef, ast.AsyncFunctionDef, ast.ClassDef)) and node is not stmt:
            return
        for c in ast.iter_child_nodes(node):
            self._walk(c, st, fn, stmt)

    def state_at(self, stmt):
        return self.IN.get(stmt, {})

    def return_tags(self):
        out = EMPTY
        for r in self.cfg.returns:
            if r.value is not None and r in self.IN:
                out |= self.evr.ev(r.value, self.IN[r])
        return out

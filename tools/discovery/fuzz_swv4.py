import numpy as np, warnings, sys, random
warnings.simplefilter("ignore")
import dask_array as da
sw=np.lib.stride_tricks.sliding_window_view
seed=int(sys.argv[1]) if len(sys.argv)>1 else 0
random.seed(seed); bad=0
def mk():
    n=random.choice([40,33,24]); ch=random.choice([8,5,3,n]); win=random.choice([3,5,12])
    a=(np.arange(float(n))*7)%11-3
    red=random.choice(['sum','mean','max','min','var','std'])
    d=getattr(da.sliding_window_view(da.from_array(a,chunks=ch),win,axis=0),red)(axis=-1)
    v=getattr(sw(a,win),red)(axis=-1)
    return d,v
def mid(d,v):
    k=random.random()
    if k<0.25: return d*2+1, v*2+1
    if k<0.4: return d[1:-1], v[1:-1]
    if k<0.5: return d[::-1], v[::-1]
    if k<0.6: return abs(d), abs(v)
    if k<0.7: return d.rechunk(random.choice([4,7])), v
    if k<0.8: return da.where(d>0,d,-d), np.where(v>0,v,-v)
    return d,v
def fin(d,v):
    n=v.size; w=np.linspace(1,2,n); dw=da.from_array(w,chunks=random.choice([d.chunks,5,n]))
    k=random.choice(['average','bincount','histogram','map_overlap2','map_blocks2','concat_stack','setitem','bool','blockwise_adj','reshape','ccs','where','take','outer','block_info','blocks','repeat'])
    if k=='average': return k, da.average(d,weights=dw), np.average(v,weights=w)
    if k=='bincount':
        dw2=da.from_array(w,chunks=d.chunks); return k, da.bincount((abs(d)%5).astype(int),weights=dw2,minlength=5), np.bincount((abs(v)%5).astype(int),weights=w,minlength=5)
    if k=='histogram':
        dw2=da.from_array(w,chunks=d.chunks); return k, da.histogram(d,bins=4,range=(-10,60),weights=dw2)[0], np.histogram(v,bins=4,range=(-10,60),weights=w)[0]
    if k=='map_overlap2': return k, da.map_overlap(lambda p,q:p+np.roll(q,1),d,dw,depth=1,boundary='periodic',dtype=float), v+np.roll(w,1)
    if k=='map_blocks2':
        dw2=da.from_array(w,chunks=d.chunks); return k, da.map_blocks(lambda p,q:p*q,d,dw2,dtype=float), v*w
    if k=='concat_stack': return k, da.stack([d,dw]), np.stack([v,w])
    if k=='setitem':
        t=dw.copy(); t[2:6]=d[2:6]; e=w.copy(); e[2:6]=v[2:6]; return k,t,e
    if k=='bool': return k, d[dw>1.5].compute(), v[w>1.5]
    if k=='blockwise_adj': return k, da.blockwise(lambda b:np.repeat(b,2),'i',d,'i',dtype=float,adjust_chunks={'i':tuple(2*c for c in d.chunks[0])}), np.repeat(v,2)
    if k=='reshape': return k, d.reshape(-1,1)+dw.reshape(1,-1)[:, :1], v.reshape(-1,1)+w.reshape(1,-1)[:, :1]
    if k=='ccs':
        y=d[d>np.median(v)]; y.compute_chunk_sizes(); return k,y,v[v>np.median(v)]
    if k=='where': return k, da.where(dw>1.5,d,dw), np.where(w>1.5,v,w)
    if k=='take': return k, da.take(d,[0,n-1,1]), np.take(v,[0,n-1,1])
    if k=='outer': return k, da.outer(d,dw), np.outer(v,w)
    if k=='block_info':
        import itertools
        bounds=np.cumsum((0,)+d.chunks[0]); exp=np.concatenate([v[bounds[i]:bounds[i+1]]+bounds[i] for i in range(len(d.chunks[0]))])
        return k, d.map_blocks(lambda b,block_info=None:b+block_info[0]['array-location'][0][0],dtype=float), exp
    if k=='blocks': return k, d.blocks[0], v[:d.chunks[0][0]]
    if k=='repeat': return k, da.repeat(d,2), np.repeat(v,2)
for p in range(int(sys.argv[2]) if len(sys.argv)>2 else 200):
    log=[]
    try:
        d,v=mk()
        for _ in range(random.randint(0,2)): d,v=mid(d,v)
        if v.size<8: continue
        k,r,w=fin(d,v); log.append(k); log.append(d.chunks)
        import dask
        ep=random.choice(['compute','persist','dask.compute2','optimize','twice'])
        log.append(ep)
        if not hasattr(r,'compute'): g=np.asarray(r)
        elif ep=='compute': g=np.asarray(r.compute())
        elif ep=='persist': g=np.asarray((r.persist()+0).compute())
        elif ep=='dask.compute2': g=np.asarray(dask.compute(r, r*2)[1])/2
        elif ep=='optimize': g=np.asarray(r.optimize().compute()) if hasattr(r,'optimize') else np.asarray(r.compute())
        else: g=np.asarray((r.compute(), r.compute())[1])
        if g.shape!=np.shape(w) or not np.allclose(g,w,equal_nan=True): bad+=1; print('MISMATCH',seed,p,log)
    except Exception as e:
        bad+=1; print('RAISE',seed,p,type(e).__name__,str(e)[:100],log)
print('bad',bad)

"""The Python-visible interface of the pyo3 crate, read from its Rust sources without a Rust front end.

Only the pyo3 subset the crate uses is understood, and anything else raises AnalysisError (fail closed):

  #[pyclass] / #[pyclass(name = "X", ...)]  pub struct Name { ... }
  #[pymethods] impl Name { #[new] [#[pyo3(signature = (...))]] fn new(params) ...; fn method(&self, params) ... }
  #[pyfunction] [#[pyo3(signature = (...))]] fn name(params) ...
  #[pymodule] fn ...(m) { m.add_class::<module::Name>()?; m.add_function(wrap_pyfunction!(name, m)?)?; }

Comments and string/char literals are blanked first so that braces inside them cannot confuse the block matcher.
"""

from __future__ import annotations

import os
import re
from dataclasses import dataclass, field

from .model import AnalysisError


@dataclass
class Param:
    name: str
    optional: bool = False
    keyword_only: bool = False
    kind: str = "normal"  # normal | varargs | kwargs
    rust_type: str = ""

    @property
    def accepts(self):
        """Syntactic kinds of Python values pyo3 can extract into this parameter: a set drawn from
        {'str', 'seq', 'int', 'float', 'bool', 'none', 'dict'}, or None when anything goes (Py<PyAny>, Bound<PyAny>, unknown)."""
        t = self.rust_type.replace(" ", "")
        acc = set()
        if t.startswith("Option<"):
            acc.add("none")
            t = t[len("Option<"):-1]
        if t in ("String", "&str", "PyBackedStr"):
            acc.add("str")
        elif t in ("bool",):
            acc.add("bool")
        elif t in ("usize", "u8", "u16", "u32", "u64", "i8", "i16", "i32", "i64", "isize"):
            acc |= {"int", "bool"}
        elif t in ("f32", "f64"):
            acc |= {"float", "int", "bool"}
        elif t.startswith("Vec<") or t.startswith("("):
            acc.add("seq")
        elif t.startswith("HashMap<") or t.startswith("BTreeMap<"):
            acc.add("dict")
        else:
            return None
        return acc


@dataclass
class Callable_:
    name: str
    params: list = field(default_factory=list)
    file: str = ""
    line: int = 0
    from_signature: bool = False

    @property
    def positional(self):
        return [p for p in self.params if p.kind == "normal" and not p.keyword_only]

    @property
    def required_positional(self):
        return [p for p in self.positional if not p.optional]

    @property
    def has_varargs(self):
        return any(p.kind == "varargs" for p in self.params)

    @property
    def has_kwargs(self):
        return any(p.kind == "kwargs" for p in self.params)

    @property
    def names(self):
        return {p.name for p in self.params if p.kind == "normal"}


@dataclass
class RustClass:
    rust_name: str
    py_name: str
    file: str
    line: int
    new: Callable_ | None = None
    methods: dict = field(default_factory=dict)


def _blank(src: str) -> str:
    """Same length, with comments, string literals and char literals replaced by spaces (newlines kept)."""
    out = list(src)
    i, n = 0, len(src)

    def fill(a, b):
        for k in range(a, b):
            if out[k] != "\n":
                out[k] = " "

    while i < n:
        c = src[i]
        if src.startswith("//", i):
            j = src.find("\n", i)
            j = n if j < 0 else j
            fill(i, j)
            i = j
        elif src.startswith("/*", i):
            depth, j = 1, i + 2
            while j < n and depth:
                if src.startswith("/*", j):
                    depth, j = depth + 1, j + 2
                elif src.startswith("*/", j):
                    depth, j = depth - 1, j + 2
                else:
                    j += 1
            fill(i, j)
            i = j
        elif c == "r" and re.match(r'r#*"', src[i:]):
            m = re.match(r'r(#*)"', src[i:])
            end = '"' + m.group(1)
            j = src.find(end, i + len(m.group(0)))
            j = n if j < 0 else j + len(end)
            fill(i + 1, j - 0)
            i = j
        elif c == '"':
            j = i + 1
            while j < n and src[j] != '"':
                j += 2 if src[j] == "\\" else 1
            fill(i + 1, min(j, n))
            i = j + 1
        elif c == "'":
            # char literal ('a', '\n', '\'') vs lifetime ('py, '_): a char literal closes within 4 characters
            m = re.match(r"'(\\.|[^\\'])'", src[i:])
            if m:
                fill(i + 1, i + len(m.group(0)) - 1)
                i += len(m.group(0))
            else:
                i += 1
        else:
            i += 1
    return "".join(out)


def _match(src, i, open_="{", close="}"):
    """Index just after the bracket that closes the one at src[i]."""
    depth = 0
    for j in range(i, len(src)):
        if src[j] == open_:
            depth += 1
        elif src[j] == close:
            depth -= 1
            if depth == 0:
                return j + 1
    raise AnalysisError("unbalanced brackets in Rust source")


def _split_top(s):
    parts, depth, cur = [], 0, []
    prev = ""
    for ch in s:
        if ch in "([{<":
            depth += 1
        elif ch in ")]}":
            depth -= 1
        elif ch == ">" and prev != "-":
            depth -= 1
        if ch == "," and depth == 0:
            parts.append("".join(cur))
            cur = []
        else:
            cur.append(ch)
        prev = ch
    if "".join(cur).strip():
        parts.append("".join(cur))
    return [p.strip() for p in parts if p.strip()]


def _fn_params(text):
    """Parameters of ``fn name(<text>)`` that Python supplies: receivers and the ``Python<'_>`` token are dropped."""
    out = []
    for p in _split_top(text):
        p = re.sub(r"#\[[^\]]*\]\s*", "", p).strip()
        if re.fullmatch(r"&?\s*(mut\s+)?self", p) or re.match(r"(mut\s+)?self\s*:", p) or re.match(r"&\s*'?\w*\s*(mut\s+)?self$", p):
            continue
        m = re.match(r"(?:mut\s+)?(\w+)\s*:\s*(.+)$", p, re.S)
        if not m:
            raise AnalysisError(f"unrecognised Rust parameter: {p[:60]!r}")
        name, ty = m.group(1), " ".join(m.group(2).split())
        if re.match(r"Python\s*<", ty) or name == "_py":
            continue
        kind = "normal"
        if re.match(r"&?\s*Bound\s*<\s*'\w+\s*,\s*PyTuple\s*>", ty) and name in ("args", "py_args"):
            kind = "varargs"
        # pyo3 >= 0.23 (the crate pins 0.29): an `Option<T>` parameter is REQUIRED unless a #[pyo3(signature)] gives it a default
        out.append(Param(name, optional=False, kind=kind, rust_type=ty))
    return out


def _sig_params(text):
    out, kwonly = [], False
    for p in _split_top(text):
        if p == "*":
            kwonly = True
            continue
        if p == "/":
            continue
        if p.startswith("**"):
            out.append(Param(p[2:].strip(), optional=True, kind="kwargs"))
            continue
        if p.startswith("*"):
            out.append(Param(p[1:].strip(), optional=True, kind="varargs"))
            kwonly = True
            continue
        name, _, default = p.partition("=")
        out.append(Param(name.strip(), optional=bool(default.strip()), keyword_only=kwonly))
    return out


_ATTR = re.compile(r"#\[([^\]]*(?:\[[^\]]*\][^\]]*)*)\]")


def _attrs_before(src, pos):
    """Attribute texts (innermost last) directly preceding ``pos`` (only whitespace between them)."""
    attrs = []
    i = pos
    while True:
        j = i
        while j > 0 and src[j - 1].isspace():
            j -= 1
        if j > 0 and src[j - 1] == "]":
            # find the matching '#['
            depth, k = 0, j - 1
            while k >= 0:
                if src[k] == "]":
                    depth += 1
                elif src[k] == "[":
                    depth -= 1
                    if depth == 0:
                        break
                k -= 1
            if k >= 1 and src[k - 1] == "#":
                attrs.append(src[k + 1:j - 1].strip())
                i = k - 1
                continue
        break
    return list(reversed(attrs))


def _item_start(src, fn_pos):
    """Start of the item whose ``fn`` keyword is at fn_pos: visibility / const / async / unsafe / extern qualifiers are part of it."""
    i = fn_pos
    while True:
        m = re.search(r"(?:pub(?:\s*\([^)]*\))?|const|async|unsafe|extern(?:\s*\"[^\"]*\")?)\s+$", src[max(0, i - 40):i])
        if not m:
            return i
        i = max(0, i - 40) + m.start()


def _callable(name, src, fn_pos, file, line_of):
    attrs = _attrs_before(src, _item_start(src, fn_pos))
    par_open = src.index("(", fn_pos)
    par_close = _match(src, par_open, "(", ")")
    params = _fn_params(src[par_open + 1:par_close - 1])
    sig = None
    for a in attrs:
        m = re.match(r"pyo3\s*\((.*)\)\s*$", a, re.S)
        if m and "signature" in m.group(1):
            inner = m.group(1)
            k = inner.index("signature")
            p0 = inner.index("(", k)
            p1 = _match(inner, p0, "(", ")")
            sig = _sig_params(inner[p0 + 1:p1 - 1])
    if sig is not None:
        types = {p.name: p.rust_type for p in params}
        for p in sig:
            p.rust_type = types.get(p.name, "")
    c = Callable_(name, sig if sig is not None else params, file, line_of(fn_pos), from_signature=sig is not None)
    if sig is not None:
        # the signature must name exactly the function's Python-supplied parameters
        if [p.name for p in sig] != [p.name for p in params]:
            raise AnalysisError(f"{file}:{c.line}: #[pyo3(signature)] of {name} names {[p.name for p in sig]} but the function takes {[p.name for p in params]}")
    return c, attrs, par_close


class RustInterface:
    def __init__(self, src_dir):
        if not os.path.isdir(src_dir):
            raise AnalysisError(f"anchor vanished: Rust sources {src_dir}")
        self.src_dir = src_dir
        self.classes: dict[str, RustClass] = {}  # by Python-visible name
        self.by_rust: dict[str, RustClass] = {}
        self.functions: dict[str, Callable_] = {}
        self.registered_classes: set = set()
        self.registered_functions: set = set()
        self.constants: dict[str, str] = {}
        self.files = []
        for fn in sorted(os.listdir(src_dir)):
            if fn.endswith(".rs"):
                self._scan(os.path.join(src_dir, fn))
        if not self.classes:
            raise AnalysisError("no #[pyclass] found in the Rust sources")

    def _scan(self, path):
        raw = open(path, encoding="utf-8").read()
        src = _blank(raw)
        rel = os.path.relpath(path, os.path.dirname(os.path.dirname(os.path.dirname(self.src_dir))))
        self.files.append(rel)
        starts = [0]
        for m in re.finditer("\n", src):
            starts.append(m.end())

        import bisect

        def line_of(pos):
            return bisect.bisect_right(starts, pos)

        # classes
        for m in re.finditer(r"\b(?:pub(?:\([^)]*\))?\s+)?struct\s+(\w+)", src):
            attrs = _attrs_before(src, m.start())
            pc = [a for a in attrs if re.match(r"pyclass\b", a)]
            if not pc:
                continue
            # the name= argument is a string literal, blanked in src: read it from the raw text at the same offsets
            py_name = m.group(1)
            k = src.rfind("#[", 0, m.start())
            seg_start = src.rfind("pyclass", 0, m.start())
            nm = re.search(r'name\s*=\s*"(\w+)"', raw[seg_start:m.start()])
            if nm:
                py_name = nm.group(1)
            rc = RustClass(m.group(1), py_name, rel, line_of(m.start()))
            self.classes[py_name] = rc
            self.by_rust[m.group(1)] = rc
        # pymethods blocks
        for m in re.finditer(r"\bimpl\s+(\w+)\s*\{", src):
            attrs = _attrs_before(src, m.start())
            if not any(re.match(r"pymethods\b", a) for a in attrs):
                continue
            rc = self.by_rust.get(m.group(1))
            if rc is None:
                # the struct may be declared in a file scanned later: remember and resolve lazily
                rc = self.by_rust.setdefault(m.group(1), RustClass(m.group(1), m.group(1), rel, line_of(m.start())))
            body_start = m.end() - 1
            body_end = _match(src, body_start)
            i = body_start + 1
            while True:
                fm = re.compile(r"\bfn\s+(\w+)\s*(?:<[^>(]*>)?\s*\(").search(src, i, body_end)
                if not fm:
                    break
                # only functions at the top level of the impl block
                depth = src.count("{", body_start + 1, fm.start()) - src.count("}", body_start + 1, fm.start())
                c, fattrs, par_close = _callable(fm.group(1), src, fm.start(), rel, line_of)
                if depth == 0:
                    if any(a == "new" for a in fattrs):
                        rc.new = c
                    else:
                        rc.methods[fm.group(1)] = c
                i = par_close
        # free functions
        for m in re.finditer(r"\bfn\s+(\w+)\s*(?:<[^>(]*>)?\s*\(", src):
            attrs = _attrs_before(src, _item_start(src, m.start()))
            if any(re.match(r"pyfunction\b", a) for a in attrs):
                c, _a, _e = _callable(m.group(1), src, m.start(), rel, line_of)
                self.functions[m.group(1)] = c
        # registration
        for m in re.finditer(r"add_class::<\s*(?:\w+::)*(\w+)\s*>", src):
            self.registered_classes.add(m.group(1))
        for m in re.finditer(r"wrap_pyfunction!\s*\(\s*(?:\w+::)*(\w+)", src):
            self.registered_functions.add(m.group(1))
        for m in re.finditer(r"\bconst\s+(\w+)\s*:\s*[\w:<>]+\s*=\s*([^;]+);", src):
            self.constants[m.group(1)] = m.group(2).strip()

    def callable_for(self, py_name):
        """The constructor (for a class) or function exposed to Python under ``py_name``; None when nothing is."""
        rc = self.classes.get(py_name)
        if rc is not None and rc.rust_name in self.registered_classes:
            return rc.new, rc
        f = self.functions.get(py_name)
        if f is not None and py_name in self.registered_functions:
            return f, None
        return None, None

import sys, numpy as np, dask, dask_array as da
from dask_array.reductions import reduction
def chunk(x, w=None, axis=None, keepdims=False, **kw):
    return np.sum(x if w is None else x*w, axis=axis, keepdims=keepdims)
def agg(x, axis=None, keepdims=False, **kw): return np.sum(x, axis=axis, keepdims=keepdims)
def keys(x): return sorted(str(k) for k in x.__dask_graph__().keys())
def build():
    a = da.from_array(np.arange(120.), chunks=10); w = da.from_array(np.arange(120.)+1, chunks=20)
    return reduction(a, chunk, agg, dtype=float, weights=w)
A={"array.unify-chunks-policy":"refine"}; B={"array.unify-chunks-policy":"coarse"}
if sys.argv[1]=="history":
    with dask.config.set(A):
        f = build(); k1 = keys(f)
    with dask.config.set(B):
        s = build(); k2 = keys(s)
    print("history: same name", f.name==s.name, "tasks under A", len(k1), "under B after A", len(k2))
else:
    with dask.config.set(B):
        s = build(); print("fresh under B tasks", len(keys(s)))

import ast
for p,srcs in [('/repo/dask_array/io/_from_array.py',{'self.array','source','array'}),('/repo/dask_array/core/_conversion.py',{'x','a'}),('/repo/dask_array/_utils.py',{'x'})]:
    t=ast.parse(open(p).read())
    for fn in ast.walk(t):
        if not isinstance(fn,ast.FunctionDef): continue
        for n in ast.walk(fn):
            if isinstance(n,ast.Subscript) and isinstance(n.ctx,ast.Load) and ast.unparse(n.value) in srcs:
                print(p.split('/')[-1],fn.name,n.lineno,'SUBSCRIPT',ast.unparse(n)[:70])
            if isinstance(n,ast.Call):
                f=ast.unparse(n.func)
                if any(ast.unparse(a) in srcs for a in n.args) and f.split('.')[-1] in ('asarray','array','asanyarray','copy','list','tuple','iter','meta_from_array','tokenize','_tokenize_deterministic','len'):
                    print(p.split('/')[-1],fn.name,n.lineno,'CALL',ast.unparse(n)[:80])
                if isinstance(n.func,ast.Attribute) and ast.unparse(n.func.value) in srcs and n.func.attr not in ('get',):
                    print(p.split('/')[-1],fn.name,n.lineno,'METHOD',ast.unparse(n)[:80])

import numpy as np, warnings, sys, itertools
warnings.simplefilter("ignore")
import dask_array as da
a=(np.arange(48.).reshape(6,8)*7)%13-4
def X(ch=(2,3)): return da.from_array(a,chunks=ch)
b=a*2+1
TEMPL={
 'sum':(lambda x,p: x.sum(**p), [dict(axis=0),dict(axis=1),dict(axis=0,keepdims=True),dict(axis=0,split_every=2),dict(axis=0,dtype='f4'),dict()]),
 'mean':(lambda x,p: x.mean(**p), [dict(axis=0),dict(axis=1),dict(axis=(0,1)),dict(axis=0,keepdims=True)]),
 'var':(lambda x,p: x.var(**p), [dict(axis=0),dict(axis=0,ddof=1),dict(axis=1,ddof=1)]),
 'topk':(lambda x,p: da.topk(x,**p), [dict(k=2,axis=0),dict(k=-2,axis=0),dict(k=3,axis=0),dict(k=2,axis=1)]),
 'cumsum':(lambda x,p: da.cumsum(x,**p), [dict(axis=0),dict(axis=1),dict(axis=0,method='blelloch'),dict(axis=0,dtype='f4')]),
 'take':(lambda x,p: da.take(x,**p), [dict(indices=[0,1],axis=0),dict(indices=[1,0],axis=0),dict(indices=[0,1],axis=1),dict(indices=[0,1,1],axis=0)]),
 'slice':(lambda x,p: x[p], [(slice(1,3),),(slice(1,4),),(slice(None),slice(1,3)),(1,),(slice(1,3,2),),(slice(None,None,-1),),(None,slice(1,3))]),
 'rechunk':(lambda x,p: x.rechunk(**p), [dict(chunks=(3,4)),dict(chunks=(3,8)),dict(chunks=(3,4),balance=True),dict(chunks={0:3})]),
 'pad':(lambda x,p: da.pad(x,**p), [dict(pad_width=1),dict(pad_width=2),dict(pad_width=1,mode='edge'),dict(pad_width=1,mode='constant',constant_values=3),dict(pad_width=((1,0),(0,1)))]),
 'roll':(lambda x,p: da.roll(x,**p), [dict(shift=1,axis=0),dict(shift=2,axis=0),dict(shift=1,axis=1),dict(shift=1)]),
 'repeat':(lambda x,p: da.repeat(x,**p), [dict(repeats=2,axis=0),dict(repeats=3,axis=0),dict(repeats=2,axis=1)]),
 'clip':(lambda x,p: da.clip(x,*p), [(-1,3),(-1,4),(0,3)]),
 'astype':(lambda x,p: x.astype(p), ['f4','f8','i8','c16']),
 'where':(lambda x,p: da.where(x>p[0],x,p[1]), [(1,0),(2,0),(1,5)]),
 'map_blocks':(lambda x,p: x.map_blocks(lambda blk,k=1: blk*k,dtype=float,**p), [dict(k=1),dict(k=2),dict(k=2,name='foo')]),
 'map_overlap':(lambda x,p: da.map_overlap(lambda blk: blk+np.roll(blk,1,axis=0),x,dtype=float,**p), [dict(depth=1,boundary='reflect'),dict(depth=1,boundary='periodic'),dict(depth=1,boundary=0.0),dict(depth=2,boundary='reflect'),dict(depth={0:1},boundary='reflect')]),
 'transpose':(lambda x,p: x.transpose(p), [(0,1),(1,0)]),
 'reshape':(lambda x,p: x.reshape(p), [(48,),(8,6),(6,2,4),(6,4,2)]),
 'broadcast_to':(lambda x,p: da.broadcast_to(x,**p), [dict(shape=(2,6,8)),dict(shape=(3,6,8)),dict(shape=(2,6,8),chunks=(1,2,3))]),
 'concat':(lambda x,p: da.concatenate(p[0](x),axis=p[1]), [(lambda x:[x,x],0),(lambda x:[x,x],1),(lambda x:[x,x+1],0),(lambda x:[x+1,x],0)]),
 'stack':(lambda x,p: da.stack(p[0](x),axis=p[1]), [(lambda x:[x,x],0),(lambda x:[x,x],1),(lambda x:[x,x],2),(lambda x:[x,x+1],0)]),
 'tensordot':(lambda x,p: da.tensordot(x,x,axes=p), [((0,),(0,)),((1,),(1,)),((0,1),(0,1))]),
 'einsum':(lambda x,p: da.einsum(p,x,x), ['ij,ij->i','ij,ij->j','ij,kj->ik','ij,ik->jk']),
 'sliding':(lambda x,p: da.sliding_window_view(x,**p), [dict(window_shape=2,axis=0),dict(window_shape=3,axis=0),dict(window_shape=2,axis=1)]),
 'coarsen':(lambda x,p: da.coarsen(p[0],x.rechunk((2,4)),p[1]), [(np.sum,{0:2}),(np.mean,{0:2}),(np.sum,{1:2}),(np.sum,{0:2,1:2})]),
 'percentile':(lambda x,p: da.percentile(x.reshape(-1).rechunk(12),**p), [dict(q=50),dict(q=25),dict(q=[25,50]),dict(q=50,method='lower')]),
 'histogram':(lambda x,p: da.histogram(x,**p)[0], [dict(bins=4,range=(-5,9)),dict(bins=5,range=(-5,9)),dict(bins=4,range=(-5,10)),dict(bins=4,range=(-5,9),density=True)]),
 'bincount':(lambda x,p: da.bincount(abs(x).astype(int).reshape(-1).rechunk(12),**p), [dict(minlength=9),dict(minlength=12)]),
 'diff':(lambda x,p: da.diff(x,**p), [dict(axis=0),dict(axis=1),dict(n=2,axis=0)]),
 'flip':(lambda x,p: da.flip(x,p), [0,1,None]),
 'tril':(lambda x,p: da.tril(x,p), [0,1,-1]),
 'arg':(lambda x,p: getattr(x,p[0])(axis=p[1]), [('argmax',0),('argmin',0),('argmax',1)]),
 'nan':(lambda x,p: getattr(da,p[0])(x,axis=p[1]), [('nansum',0),('nanmean',0),('nanmax',0),('nansum',1)]),
 'ufunc2':(lambda x,p: getattr(da,p)(x,2.0), ['add','subtract','multiply','maximum','minimum','power','fmod']),
 'ufunc_scalar':(lambda x,p: x+p, [1,2,1.0,np.float32(1),True]),
 'from_array':(lambda x,p: da.from_array(a,**p), [dict(chunks=(2,3)),dict(chunks=(3,3)),dict(chunks=(2,3),asarray=False),dict(chunks=(2,3),fancy=False),dict(chunks=(2,3),inline_array=True),dict(chunks=(2,3),lock=True)]),
 'from_array_vals':(lambda x,p: da.from_array(p,chunks=(2,3)), [a,b,a.copy(),a.astype('f4')]),
 'full':(lambda x,p: da.full((4,4),**p), [dict(fill_value=1.0,chunks=2),dict(fill_value=2.0,chunks=2),dict(fill_value=1.0,chunks=4),dict(fill_value=1,chunks=2)]),
 'arange':(lambda x,p: da.arange(*p[0],**p[1]), [((10,),dict(chunks=5)),((11,),dict(chunks=5)),((0,10,2),dict(chunks=5)),((10,),dict(chunks=2)),((10,),dict(chunks=5,dtype='f8'))]),
 'linspace':(lambda x,p: da.linspace(*p[0],**p[1]), [((0,1,5),dict(chunks=5)),((0,2,5),dict(chunks=5)),((0,1,6),dict(chunks=5)),((0,1,5),dict(chunks=5,endpoint=False))]),
 'eye':(lambda x,p: da.eye(**p), [dict(N=4,chunks=2),dict(N=4,chunks=2,k=1),dict(N=4,M=6,chunks=2),dict(N=6,chunks=2)]),
 'setitem':(lambda x,p: (lambda d: (d.__setitem__(p[0],p[1]), d)[1])(x.copy()), [((0,),1.0),((1,),1.0),((0,),2.0),((slice(None),0),1.0)]),
 'vindex':(lambda x,p: x.vindex[p], [([0,1],[1,0]),([1,0],[1,0]),([0,1],[0,1])]),
 'blocks':(lambda x,p: x.blocks[p], [0,1,(0,1),(1,0)]),
 'squeeze':(lambda x,p: x[:1,:1][None].squeeze(axis=p), [0,1,(0,1),None]),
 'expand':(lambda x,p: da.expand_dims(x,p), [0,1,2,(0,1),(0,2)]),
 'moment':(lambda x,p: da.moment(x,p[0],axis=p[1]), [(2,0),(3,0),(2,1)]),
 'average':(lambda x,p: da.average(x,axis=p[0],weights=p[1]), [(0,None),(1,None),(0,da.from_array(b,chunks=(2,3))),(0,da.from_array(b+1,chunks=(2,3)))]),
 'isin':(lambda x,p: da.isin(x,p), [[1.,2.],[1.,3.],[2.,1.]]),
 'digitize':(lambda x,p: da.digitize(x,**p), [dict(bins=np.array([-3.,0.,4.])),dict(bins=np.array([-3.,0.,5.])),dict(bins=np.array([-3.,0.,4.]),right=True)]),
 'apply_along':(lambda x,p: da.apply_along_axis(p[0],p[1],x,dtype=float,shape=()), [(np.sum,0),(np.max,0),(np.sum,1)]),
 'random':(lambda x,p: da.random.default_rng(p[0]).normal(size=(4,4),chunks=p[1]), [(1,2),(2,2),(1,4)]),
 'random_rs':(lambda x,p: da.random.RandomState(p[0]).normal(p[1],1,size=(4,4),chunks=2), [(1,0),(2,0),(1,1)]),
}
bad=0;pairs=0
for name,(f,ps) in TEMPL.items():
    built=[]
    for p in ps:
        try:
            r=f(X(),p); v=np.asarray(r.compute()); built.append((p,r.name,v,r.chunks,r.dtype))
        except Exception as e:
            print('build-fail',name,str(p)[:50],type(e).__name__,str(e)[:60])
    for (p1,n1,v1,c1,d1),(p2,n2,v2,c2,d2) in itertools.combinations(built,2):
        pairs+=1
        same_val = v1.shape==v2.shape and v1.dtype==v2.dtype and np.array_equal(v1,v2,equal_nan=True) and c1==c2
        if n1==n2 and not same_val:
            bad+=1; print('COLLISION',name,str(p1)[:60],'|',str(p2)[:60])
    # determinism: rebuild gives same name
    for p in ps:
        try:
            if f(X(),p).name!=f(X(),p).name and name not in('random','random_rs'): print('NONDET',name,str(p)[:50])
        except Exception: pass
print('pairs',pairs,'bad',bad)

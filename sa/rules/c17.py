"""C17 - unification policy facts: refine only splits, the size guard has the last word, unification is applied at lowering."""

from __future__ import annotations

import ast

from ..dataflow import Defs
from ..model import body_walk, dotted, idents_in, norm, unparse
from ..refguards import check_reference
from ..report import RuleResult
from .common import cfg_of, need, site

PROP = "C17"

EXPLANATION = (
    "Decides the structural facts behind C17's policy clauses. R17.1 in unify_chunks_expr the unified layout `chunkss` is "
    "first produced by broadcast_dimensions(..., consolidate=<policy function>) with consolidate = common_blockdim exactly "
    "when policy == 'refine', and every later store to it is nested under a condition implying `consolidate is "
    "coarse_blockdim` - so under 'refine' the layout is the common refinement untouched ('only splits'); R17.2 the "
    "array.unify-chunks-limit block is the last writer of `chunkss`, is guarded only by `limit and consolidate is "
    "coarse_blockdim`, and its fallback replaces exactly the coarsened dimensions with the refinement; R17.3 "
    "Blockwise._lower / Elemwise._lower call unify_chunks_expr(*self.args) under self.align_arrays and rebuild the node "
    "when `changed`; R17.4 (REF) every controlling condition of the policy code (stores to chunkss/fine/limit, the rechunk "
    "of an operand, early exits of unify_chunks_expr, coarse_blockdim and common_blockdim) is structurally unchanged; "
    "R17.5 every operand appended to the result is the loop's own operand or its rechunk to the layout computed for *its* "
    "index pattern in the same iteration. That common_blockdim computes a refinement, byte bounds and values are arithmetic "
    "and not decided."
)
ASSUMPTIONS = ["dask.blockwise.broadcast_dimensions applies `consolidate` per index label (upstream)", "reference guards reviewed on the reference tree"]
TRUSTED = ["CPython ast", "sa.cfg", "sa.refguards", "sa.dataflow"]


def _unify(ctx):
    return ctx.repo.mod("dask_array._expr").func("unify_chunks_expr")


def r17_1(ctx):
    rr = RuleResult("R17.1", "GUARD", "later stores to the unified layout only happen under `consolidate is coarse_blockdim`; 'refine' selects common_blockdim", min_instances=3)
    f = _unify(ctx)
    cfg = cfg_of(ctx, f)
    stores = [s for s in cfg.stmts() if isinstance(s, ast.Assign) and any(unparse(t).split("[")[0] == "chunkss" for t in s.targets)]
    need(len(stores) >= 2, "stores to chunkss in unify_chunks_expr")
    first = [s for s in stores if isinstance(s.value, ast.Call) and dotted(s.value.func) == "broadcast_dimensions"]
    need(first, "initial chunkss = broadcast_dimensions(...)")
    kw = {k.arg: unparse(k.value) for k in first[0].value.keywords}
    rr.inst(site(f, first[0])[:150], consolidate=kw.get("consolidate"))
    if kw.get("consolidate") != "consolidate":
        ctx.finding(rr, site(f, first[0])[:150], "the initial unified layout is not computed with the policy's consolidate function", func=f, node=first[0])
    cons = [s for s in cfg.stmts() if isinstance(s, ast.Assign) and unparse(s.targets[0]) == "consolidate"]
    need(cons, "consolidate = ... in unify_chunks_expr")
    v = unparse(cons[0].value)
    rr.inst(site(f, cons[0]), value=v)
    if v != "common_blockdim if policy == 'refine' else coarse_blockdim":
        ctx.finding(rr, site(f, cons[0]), f"policy selection changed: consolidate = {v}", func=f, node=cons[0])
    for s in stores:
        if s is first[0]:
            continue
        g = cfg.guards(s)
        ok = any(pol and "consolidate is coarse_blockdim" in unparse(t) and not _negated(t, "consolidate is coarse_blockdim") for t, pol in g)
        c = site(f, s)[:150]
        rr.inst(c, guards=[(unparse(t)[:70], pol) for t, pol in g])
        if not ok:
            ctx.finding(rr, c, "the unified layout is modified outside `consolidate is coarse_blockdim`: under the 'refine' policy operands may now be merged or realigned, not only split", func=f, node=s)
    return rr


def _negated(test, text):
    for n in ast.walk(test):
        if isinstance(n, ast.UnaryOp) and isinstance(n.op, ast.Not) and text in unparse(n.operand):
            return True
        if isinstance(n, ast.BoolOp) and isinstance(n.op, ast.Or) and any(text in unparse(v) for v in n.values):
            return True
    return False


def r17_2(ctx):
    rr = RuleResult("R17.2", "PASS", "the unify-chunks-limit block is the last writer of the unified layout and is guarded only by the limit and the coarse policy", min_instances=2)
    f = _unify(ctx)
    cfg = cfg_of(ctx, f)
    lim = [s for s in cfg.stmts() if isinstance(s, ast.If) and "limit" in idents_in(s.test) and "worst" not in idents_in(s.test) and any(
        isinstance(x, ast.Assign) and unparse(x.targets[0]) == "worst" for x in ast.walk(s))]
    need(lim, "the `if limit and consolidate is coarse_blockdim:` block")
    blk = lim[0]
    conj = blk.test.values if isinstance(blk.test, ast.BoolOp) and isinstance(blk.test.op, ast.And) else [blk.test]
    texts = sorted(unparse(c) for c in conj)
    rr.inst(site(f, blk), conjuncts=texts)
    if texts != ["consolidate is coarse_blockdim", "limit"]:
        ctx.finding(rr, site(f, blk), f"the size guard runs under {texts}, not exactly under [`limit`, `consolidate is coarse_blockdim`]: some merged layouts escape the limit", func=f, node=blk)
    inner = [s for s in ast.walk(blk) if isinstance(s, ast.Assign) and unparse(s.targets[0]) == "chunkss"]
    need(inner, "the fallback store to chunkss inside the limit block")
    for s in inner:
        v = unparse(s.value)
        rr.inst(site(f, s)[:150], value=v[:100])
        if v != "{j: fine[j] if j in coarsened else c for j, c in chunkss.items()}":
            ctx.finding(rr, site(f, s)[:150], "the limit fallback no longer replaces exactly the coarsened dimensions with the refinement", func=f, node=s)
        seen, _ = cfg.reachable(s)
        later = [x for x in cfg.stmts() if x in seen and x is not s and isinstance(x, ast.Assign) and any(unparse(t).split("[")[0] == "chunkss" for t in x.targets)]
        for x in later:
            ctx.finding(rr, site(f, x)[:150], "the unified layout is written again after the size guard: the limit no longer has the last word", func=f, node=x)
    # the cost-aware block must precede the limit block
    for s in cfg.stmts():
        if isinstance(s, ast.Assign) and any(unparse(t).split("[")[0] == "chunkss" for t in s.targets) and s not in inner:
            seen, _ = cfg.reachable(blk)
            if s in seen and not any(s is y for y in ast.walk(blk)):
                ctx.finding(rr, site(f, s)[:150], "a store to the unified layout is reachable after the limit block", func=f, node=s)
    return rr


def r17_3(ctx):
    rr = RuleResult("R17.3", "PASS", "Blockwise._lower and Elemwise._lower unify chunks under self.align_arrays and rebuild when changed", min_instances=2)
    m = ctx.repo.mod("dask_array._blockwise")
    for cname in ("Blockwise", "Elemwise"):
        f = m.cls(cname).methods.get("_lower")
        need(f is not None, f"{cname}._lower")
        cfg = cfg_of(ctx, f)
        def unify_args(call):
            """Argument texts of the unify_chunks_expr call this call amounts to: the call itself, or a
            self.<helper>() whose every return is unify_chunks_expr(...) (a wrapper, e.g. one that pins settings)."""
            if dotted(call.func) == "unify_chunks_expr":
                return [unparse(a) for a in call.args]
            if isinstance(call.func, ast.Attribute) and isinstance(call.func.value, ast.Name) and call.func.value.id == "self" and not call.args:
                hit = ctx.repo.class_attr(m.cls(cname), call.func.attr)
                if hit and hasattr(hit[1], "node"):
                    rets = [r for r in ast.walk(hit[1].node) if isinstance(r, ast.Return) and r.value is not None]
                    if rets and all(isinstance(r.value, ast.Call) and dotted(r.value.func) == "unify_chunks_expr" for r in rets):
                        return [unparse(a) for a in rets[0].value.args]
            return None

        calls = [s for s in cfg.stmts() if isinstance(s, ast.Assign) and isinstance(s.value, ast.Call) and unify_args(s.value) is not None]
        rr.inst(site(f), unify_calls=len(calls))
        if not calls:
            ctx.finding(rr, site(f), f"{cname}._lower no longer unifies the operands' chunks", func=f)
            continue
        s = calls[0]
        if unify_args(s.value) != ["*self.args"]:
            ctx.finding(rr, site(f, s), "unify_chunks_expr is not applied to *self.args", func=f, node=s)
        from .common import chain_conjuncts

        if "self.align_arrays" not in chain_conjuncts(cfg, s):
            ctx.finding(rr, site(f, s), "unification is not conditional on self.align_arrays", func=f, node=s)
        rets = [r for r in cfg.returns if r.value is not None and not (isinstance(r.value, ast.Constant) and r.value.value is None)]
        ok = any("changed" in chain_conjuncts(cfg, r) for r in rets)
        if not ok:
            ctx.finding(rr, site(f), "the node is not rebuilt with the unified operands when `changed`", func=f)
    return rr


def r17_4(ctx):
    rr = RuleResult("R17.4", "REF", "controlling conditions of the unification policy code are structurally unchanged", min_instances=30)
    return check_reference(ctx, rr, PROP)


def r17_5(ctx):
    rr = RuleResult("R17.5", "COVER", "every operand returned by unification is the loop's own operand or its rechunk to the layout computed for its own index pattern", min_instances=1)
    f = _unify(ctx)
    loops = [n for n in body_walk(f.node) if isinstance(n, ast.For) and any(
        isinstance(x, ast.Call) and unparse(x.func) == "arrays.append" for x in ast.walk(n))]
    need(loops, "the final operand loop of unify_chunks_expr")
    lp = loops[-1]
    var = unparse(lp.target.elts[0]) if isinstance(lp.target, ast.Tuple) else unparse(lp.target)
    ind = unparse(lp.target.elts[1]) if isinstance(lp.target, ast.Tuple) and len(lp.target.elts) > 1 else None
    appended = [x for x in ast.walk(lp) if isinstance(x, ast.Call) and unparse(x.func) == "arrays.append"]
    for ap in appended:
        a = unparse(ap.args[0])
        c = site(f, ap)
        defs_in_loop = [s for s in ast.walk(lp) if isinstance(s, ast.Assign) and any(
            isinstance(n, ast.Name) and n.id == a for t in s.targets for n in ast.walk(t))]
        rr.inst(c, appended=a, redefinitions=[norm(s)[:80] for s in defs_in_loop])
        if a != var:
            ctx.finding(rr, c, f"the loop appends {a}, not its own operand {var}", func=f, node=ap)
        for s in defs_in_loop:
            v = s.value
            ok = isinstance(v, ast.Call) and unparse(v.func) == f"{var}.rechunk" and len(v.args) == 1 and len(s.targets) == 1
            if ok:
                tgt = unparse(v.args[0])
                cdefs = [x for x in ast.walk(lp) if isinstance(x, ast.Assign) and unparse(x.targets[0]) == tgt]
                ok = bool(cdefs) and all(ind in idents_in(x.value) and "chunkss" in idents_in(x.value) for x in cdefs)
            if not ok:
                ctx.finding(rr, site(f, s)[:150], f"{a} is rebound to something other than {var}.rechunk(<layout computed from chunkss for this operand's own index {ind}>): an operand can be returned with another occurrence's layout", func=f, node=s)
    return rr


RULES = [r17_1, r17_2, r17_3, r17_4, r17_5]

LEVEL_TEXT = (
    "Static decision of the policy facts behind 'refine only splits' and 'the size guard has the last word': guard-chain "
    "and ordering analysis of every store to the unified layout in unify_chunks_expr, must-call of unification at "
    "lowering, a def-use check of the operands returned, and REF fingerprints of all controlling conditions of the policy "
    "code (38 reference guards). Value preservation, that common_blockdim is a refinement, and byte arithmetic are not decided."
)
LEVEL_NOTE = "Trusted: CPython ast, engine CFG/guards, reviewed reference table (fixtures/ref_guards.json). Restructuring unify_chunks_expr needs the reference to be regenerated deliberately."
TECHNIQUE = "static analysis: guard/ordering analysis over the CFG of unify_chunks_expr + reference-guard fingerprints (ast)"

"""C12 - one clause: the per-chunk offset payload of integer-dask-array indexing is built against a pinned layout."""

from __future__ import annotations

import ast

from ..model import body_walk, dotted, idents_in, norm, unparse
from ..report import RuleResult
from .c20 import r20_7
from .common import cfg_index, cfg_of, need, site

PROP = "C12"

EXPLANATION = (
    "Decides one structural clause of C12 only. Indexing with an integer dask array is implemented by a blockwise kernel "
    "that receives, per block of x along the indexed axis, a literal offset computed from x.chunks[axis] at construction. "
    "R12.1 (an instance of the payload-layout rule R20.7): in slice_with_int_dask_array_on_axis the ArrayOffsetDep payload, "
    "the x handed to blockwise with it, and the x_chunks literal of the aggregation step are all derived from a "
    "layout-pinned x (x = x.freeze_chunks() on every path before them); R12.2 the unknown-chunks refusal still dominates "
    "the offset computation; R12.3 Array.__getitem__ still routes integer dask-array indices to that path before generic "
    "slicing; R12.5 REF: every condition under which the slicing code raises for an unsupported or out-of-bounds index (37 "
    "reference fingerprints) and the exits of take - in particular the identity shortcut that returns x unchanged - are structurally "
    "unchanged. Everything else about index semantics (normalisation, negative steps, fancy indices, .vindex, .blocks) is arithmetic "
    "over shapes and chunk boundaries and is not decided."
    " R12.6 GUARD a slice's stop is never used for its truth value (`idx.stop or None`, `if s.stop:`): 0 is the empty prefix x[:0] and "
    "must not be conflated with a missing stop (expected count zero; the matcher is exercised on an embedded positive example every run)."
)
ASSUMPTIONS = ["freeze_chunks()/ChunksFreeze restore the advertised layout at lowering (C03 R03.2 / C20 R20.3)"]
TRUSTED = ["CPython ast", "sa.cfg must-pass", "sa.dataflow"]
FN = "dask_array.slicing._basic:slice_with_int_dask_array_on_axis"


def r12_1(ctx):
    rr = r20_7(ctx, only={FN}, rule="R12.1", prop=PROP)
    f = ctx.repo.mod("dask_array.slicing._basic").func("slice_with_int_dask_array_on_axis")
    # the literal x_chunks=x.chunks[axis] of the aggregation step is the same kind of payload
    from .layout import check_pinned

    for n in body_walk(f.node):
        if isinstance(n, ast.Call) and dotted(n.func) == "blockwise":
            for k in n.keywords:
                if k.arg and "chunks" in k.arg and ".chunks" in unparse(k.value):
                    var = next((x.value.id for x in ast.walk(k.value) if isinstance(x, ast.Attribute) and x.attr == "chunks" and isinstance(x.value, ast.Name)), None)
                    c = f"{f.construct}::blockwise(..., {k.arg}={unparse(k.value)})"
                    rr.inst(c, layout_sources=[var])
                    w = check_pinned(ctx, f, n, var) if var else None
                    if w is not None:
                        ctx.finding(rr, c, f"the kernel literal {k.arg} is taken from {var}.chunks of an unpinned {var}", func=f, node=n, path=w)
            # the array passed alongside must be the same pinned variable
    return rr


def r12_2(ctx):
    rr = RuleResult("R12.2", "REF", "unknown chunks along the indexed axis are refused before any offset is computed", min_instances=1)
    f = ctx.repo.mod("dask_array.slicing._basic").func("slice_with_int_dask_array_on_axis")
    cfg = cfg_of(ctx, f)
    idx = cfg_index(ctx, f)
    pay = [n for n in body_walk(f.node) if isinstance(n, ast.Call) and dotted(n.func) == "ArrayOffsetDep"]
    need(pay, "ArrayOffsetDep construction in slice_with_int_dask_array_on_axis")
    for p in pay:
        s = idx.get(id(p))
        g = cfg.guards(s)
        ok = any(pol is False and "isnan" in idents_in(t) and "chunks" in idents_in(t) for t, pol in g)
        rr.inst(site(f, s), guards=[(unparse(t), pol) for t, pol in g])
        if not ok:
            ctx.finding(rr, site(f, s), "offsets are computed without the isnan(x.chunks[axis]) refusal dominating them: unknown sizes would yield NaN offsets and wrong elements instead of an error", func=f, node=s)
    return rr


def r12_3(ctx):
    rr = RuleResult("R12.3", "PASS", "Array.__getitem__ routes integer/boolean dask-array indices to their dedicated paths before slice_array", min_instances=1)
    arr = ctx.repo.mod("dask_array._collection").cls("Array")
    f = arr.methods.get("__getitem__")
    need(f is not None, "Array.__getitem__")
    cfg = cfg_of(ctx, f)
    idx = cfg_index(ctx, f)
    sl = [n for n in body_walk(f.node) if isinstance(n, ast.Call) and dotted(n.func) == "slice_array"]
    need(sl, "slice_array call in Array.__getitem__")
    int_route = [s for s in cfg.stmts() if isinstance(s, ast.If) and "slice_with_int_dask_array" in {dotted(c.func) for c in ast.walk(s) if isinstance(c, ast.Call)} and "iu" in idents_in(s.test)]
    bool_route = [s for s in cfg.stmts() if isinstance(s, ast.If) and "slice_with_bool_dask_array" in {dotted(c.func) for c in ast.walk(s) if isinstance(c, ast.Call)} and "bool" in idents_in(s.test)]
    for call in sl:
        s = idx.get(id(call))
        rr.inst(site(f, s), int_route=len(int_route), bool_route=len(bool_route))
        for name, route in (("integer", int_route), ("boolean", bool_route)):
            if not route:
                ctx.finding(rr, site(f, s), f"{name} dask-array indices are no longer routed to their dedicated path before generic slicing", func=f, node=s)
                continue
            p = cfg.path_avoiding(s, blocked=lambda n: n in route)
            if p is not None:
                ctx.finding(rr, site(f, s), f"a path reaches slice_array without passing the {name} dask-array routing test", func=f, node=s)
    return rr


def r12_4(ctx):
    rr = RuleResult("R12.4", "REF", "vindex keys are bounds-checked (raise IndexError) before they are wrapped with the modulo", min_instances=1)
    f = ctx.repo.mod("dask_array.slicing._vindex").func("_vindex")
    cfg = cfg_of(ctx, f)
    mods = [s for s in cfg.stmts() if isinstance(s, ast.AugAssign) and isinstance(s.op, ast.Mod)]
    mods += [s for s in cfg.stmts() if isinstance(s, ast.Assign) and isinstance(s.value, ast.BinOp) and isinstance(s.value.op, ast.Mod)]
    need(mods, "the negative-index wrap (ind %= size) in _vindex")
    for s in mods:
        var = unparse(s.target) if isinstance(s, ast.AugAssign) else unparse(s.targets[0])
        size = unparse(s.value) if isinstance(s, ast.AugAssign) else unparse(s.value.right)
        g = cfg.guards(s)
        ok = False
        for t, pol in g:
            ids = idents_in(t)
            cmp_ops = {type(o).__name__ for n in ast.walk(t) if isinstance(n, ast.Compare) for o in n.ops}
            lower = any(isinstance(n, ast.UnaryOp) and isinstance(n.op, ast.USub) for n in ast.walk(t))
            if pol is False and var in ids and size in ids and "GtE" in cmp_ops and "Lt" in cmp_ops and lower:
                ok = True
        rr.inst(site(f, s), wraps=var, by=size, guards=[(unparse(t)[:80], pol) for t, pol in g])
        if not ok:
            ctx.finding(rr, site(f, s), f"{var} is wrapped modulo {size} without a dominating `({var} >= {size}) | ({var} < -{size})` -> IndexError check: out-of-bounds keys silently select wrapped positions", func=f, node=s)
    return rr


def r12_5(ctx):
    from ..refguards import check_reference

    rr = RuleResult("R12.5", "REF", "the refusals of unsupported / out-of-bounds indices in the slicing code, and the exits of take (identity shortcut, unknown-size refusal), are structurally unchanged", min_instances=30)
    return check_reference(ctx, rr, PROP)


_STOP_POSITIVE_EXAMPLE = "def f(idx):\n    return slice(idx.start or None, idx.stop or None, None)\n"


def _truthiness_uses(fnode, attrs=("stop",)):
    """Places where ``<x>.stop`` is used for its truth value: left operand of ``or`` / any operand of ``and``, the test of
    if / while / conditional expression / comprehension filter, the operand of ``not``."""
    out = []
    for n in ast.walk(fnode):
        tests = []
        if isinstance(n, ast.BoolOp):
            tests += n.values[:-1] if isinstance(n.op, ast.Or) else n.values
        if isinstance(n, (ast.If, ast.While, ast.IfExp)):
            tests.append(n.test)
        if isinstance(n, ast.UnaryOp) and isinstance(n.op, ast.Not):
            tests.append(n.operand)
        if isinstance(n, ast.comprehension):
            tests += n.ifs
        for t in tests:
            if isinstance(t, ast.Attribute) and t.attr in attrs:
                out.append((t, n))
    return out


def r12_6(ctx):
    rr = RuleResult("R12.6", "GUARD", "a slice's stop is never used for its truth value (`idx.stop or None`, `if s.stop:`): 0 is a meaningful stop - the empty prefix - and must not be conflated with None", min_instances=1)
    # the matcher must recognise the pattern it forbids (expected count on the tree: zero)
    probe = ast.parse(_STOP_POSITIVE_EXAMPLE).body[0]
    hits = _truthiness_uses(probe)
    rr.inst("positive-example", matched=len(hits))
    if len(hits) != 1:
        from ..model import AnalysisError

        raise AnalysisError("R12.6 matcher no longer recognises its own positive example")
    n_funcs = 0
    for m in ctx.repo.units:
        if ".tests" in m.name:
            continue
        for f in m.functions.values():
            if f.parent is not None:
                continue
            n_funcs += 1
            for t, where in _truthiness_uses(f.node):
                c = site(f, where)[:170]
                rr.inst(c, expr=unparse(t))
                ctx.finding(rr, c, f"{unparse(t)} is used for its truth value: a stop of 0 (the empty prefix x[:0]) is treated like a missing stop, so the selection silently becomes the whole axis", func=f, node=where)
    rr.notes.append(f"{n_funcs} functions scanned")
    return rr


RULES = [r12_1, r12_2, r12_3, r12_4, r12_5, r12_6]

LEVEL_TEXT = (
    "Static decision of a single necessary condition of C12: the per-chunk offset literals (and the x_chunks literal) "
    "behind integer dask-array indexing are computed from a layout-pinned array, behind the unknown-size refusal, on the "
    "path Array.__getitem__ routes such indices to (CFG must-pass-through + def-use). This is the clause whose violation "
    "was a genuine defect on the pinned tree (fixed in /repo). NumPy index semantics as a whole are arithmetic and not decided."
)
LEVEL_NOTE = "Trusted: CPython ast, engine CFG/def-use. Assumes the ChunksFreeze barrier restores the frozen layout (decided under C03/C20)."
TECHNIQUE = "static analysis: payload-layout must-pass-through rule (CFG + def-use) on the integer-dask-index path (ast)"

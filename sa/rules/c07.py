"""C07 - only documented nondeterminism reaches a name; tokens and lazily derived name parts survive pickling."""

from __future__ import annotations

import ast

from ..model import FuncInfo, body_walk, const_value, dotted, unparse
from ..report import RuleResult
from ..tagflow import EMPTY, Evaluator, TagFlow
from .common import callgraph, cfg_of, need, site

PROP = "C07"

EXPLANATION = (
    "Decides the structural conditions for deterministic, pickle-stable names: R07.1 a flow-sensitive taint analysis from every "
    "process- or call-dependent source (uuid.*, id(), builtin hash(), time.*, os.getpid/urandom, secrets.*, stdlib random.*, "
    "unseeded numpy.random.*, and the iteration order of sets once it is frozen into a sequence or string) to every name sink "
    "(return value of a _name / __dask_tokenize__ / _info member, a store to _determ_token, a name=/token=/_determ_token=/"
    "_name_override=/name_prefix= argument) - every source-to-sink flow must be one of the documented, frozen cases; R07.2 "
    "ArrayExpr.__reduce__ rebuilds through Expr._reconstruct with type(self), all operands, the deterministic token and the "
    "cached-property cache collected over the whole MRO, and no expression class overrides the pickling protocol or switches the "
    "cache off; R07.3 every custom __dask_tokenize__ returns the cached self._determ_token and assigns it on every path first; "
    "R07.4 (= R23.6) lazily derived seed containers travel with the pickle; R07.5 Array.__getstate__ drops only re-derivable caches "
    "(never _expr, never the captured optimize-graph policy) and __setstate__ restores the dict unfiltered; R07.6 REF: the configuration "
    "keys readable on call-graph paths from a _lower/lower_once override are the reviewed set - lowering results are memoised by node name "
    "for the whole process, so such a read makes the optimized graph keys of a program depend on what was lowered before (two such reads "
    "are genuine on today's tree and are listed as known findings); R07.7 every Reduction is constructed with its split_every operand "
    "already normalised, so the reduction-tree fan-in is part of the name rather than read from configuration at lowering; R07.8 REF: "
    "the conditions under which dask_array's own tokenizer for callables and types declines the (module, qualname) reference token "
    "(__main__, <locals>/<lambda>, not importable, rebound) - each documented in the source as needed for cross-process stability - still "
    "guard the reference return. Stability of "
    "dask.tokenize on user objects across processes and value equality after a round trip are not decided."
)
ASSUMPTIONS = [
    "dask.tokenize._tokenize_deterministic either returns a process-independent token or raises TokenizationError",
    "dask.tokenize sorts the normalised elements of sets/frozensets/dicts (a set passed to tokenize as a set is order-free)",
    "Expr._reconstruct(type, *operands, token, cache) rebuilds with _determ_token=token and restores the cache into __dict__ (read from the installed dask source in the thorough tier)",
]
TRUSTED = ["CPython ast", "sa.cfg statement CFG", "sa.tagflow", "class/MRO resolver", "frozen allow-list of documented nondeterministic names in sa/rules/c07.py"]

NAME_KWS = {"name", "_name_override", "_determ_token", "token", "name_prefix", "_name_prefix"}
SINK_MEMBERS = {"_name", "__dask_tokenize__", "_info", "deterministic_token", "name"}
STDLIB_RANDOM = {"random", "randint", "randrange", "getrandbits", "choice", "choices", "shuffle", "sample", "uniform", "randbytes"}
NP_RANDOM_FUNCS = {"random", "rand", "randn", "randint", "random_sample", "bytes", "choice", "permutation", "shuffle", "normal", "uniform", "standard_normal", "integers"}
ORDER_FREE = {"sorted", "len", "min", "max", "sum", "any", "all", "bool", "set", "frozenset", "isinstance", "type"}
TOKENIZERS = {"tokenize", "_tokenize_deterministic"}

# (function construct, source kind) -> documented reason
ALLOWED = {
    ("dask_array/io/_from_array.py::FromArray.__dask_tokenize__", "uuid"): "documented: a source with no deterministic tokenizer (h5py dataset) gets a random token, computed once at construction and cached/pickled in _determ_token",
    ("dask_array/io/_from_array.py::FromArray.__dask_tokenize__", "id"): "documented: non-serializable locks are identity objects; the token is cached in _determ_token",
    ("dask_array/core/_conversion.py::from_array", "uuid"): "documented API: from_array(name=False) asks for a unique name; a user-supplied name carries a uuid1 token so two exact-name nodes never share a token",
    ("dask_array/_blockwise.py::Blockwise.__dask_tokenize__", "id"): "documented fallback: values that cannot be tokenized deterministically (and non-serializable locks) are named by identity; cached in _determ_token",
    ("dask_array/_blockwise.py::Elemwise.__dask_tokenize__", "id"): "documented fallback, mirrors Blockwise; cached in _determ_token",
    ("dask_array/io/_store.py::store", "id"): "a store node is an effect on a particular target object, so it is identified by WHICH object is written (id(target), the convention already used for lock objects); naming it by the target's current content made two equal-looking targets one node and dropped a write (C25 R25.6). Store graphs are executed, not rebuilt elsewhere by name",
    ("dask_array/io/_from_map.py::FromMap.__dask_tokenize__", "pickle"): "documented fast token for coalesced from_delayed call bundles: accepted only when two pickles agree byte-for-byte and the payload does not refer to __main__, else the stock tokenizer runs; shares the identity-structure sensitivity recorded as a known finding for Rechunk._name, but no witness was constructed for this site, so it is listed as reviewed",
}


PICKLER_CLASSES = {"pickle.Pickler", "pickle._Pickler", "cloudpickle.CloudPickler", "cloudpickle.Pickler", "cloudpickle.cloudpickle.CloudPickler"}


def _resolved_call_name(call, f, repo):
    fn = call.func
    name = dotted(fn) or ""
    if isinstance(fn, ast.Name):
        r = repo.resolve_name(fn.id, f.module, f)
        if r and r[0] == "ext":
            name = r[1]
    elif isinstance(fn, ast.Attribute):
        r = repo.resolve_expr(fn, f.module, f)
        if r and r[0] == "ext":
            name = r[1]
    return name


def _memo_off(f, call):
    """``<p> = <call>`` and ``<p>.fast = True`` both occur in f (the pickler's memo is disabled: the bytes depend on the
    value of the payload only)."""
    targets = {t.id for s in ast.walk(f.node) if isinstance(s, ast.Assign) and s.value is call for t in s.targets if isinstance(t, ast.Name)}
    for s in ast.walk(f.node):
        if isinstance(s, ast.Assign) and isinstance(s.value, ast.Constant) and s.value.value is True:
            for t in s.targets:
                if isinstance(t, ast.Attribute) and t.attr == "fast" and isinstance(t.value, ast.Name) and t.value.id in targets:
                    return True
    return False


def _source_kind(call: ast.Call, f: FuncInfo, repo):
    fn = call.func
    name = dotted(fn) or ""
    if isinstance(fn, ast.Name):
        if fn.id in ("id", "hash") and fn.id not in f.local_names:
            r = repo.resolve_name(fn.id, f.module, f)
            if r is None:
                return fn.id
        r = repo.resolve_name(fn.id, f.module, f)
        if r and r[0] == "ext":
            name = r[1]
    elif isinstance(fn, ast.Attribute):
        r = repo.resolve_expr(fn, f.module, f)
        if r and r[0] == "ext":
            name = r[1]
        elif r is None:
            base = fn
            while isinstance(base, ast.Attribute):
                base = base.value
            if isinstance(base, ast.Name):
                rb = repo.resolve_name(base.id, f.module, f)
                if rb and rb[0] in ("module", "ext"):
                    name = rb[1] + name[len(base.id):]
    parts = name.split(".")
    if parts[0] == "uuid" and len(parts) == 2 and parts[1].startswith("uuid"):
        return "uuid"
    if parts[0] == "time" and len(parts) == 2:
        return "time"
    if name in ("os.getpid", "os.urandom", "os.times", "os.getppid"):
        return "os"
    if parts[0] == "secrets":
        return "secrets"
    if parts[0] == "random" and len(parts) == 2 and parts[1] in STDLIB_RANDOM:
        return "random"
    if len(parts) >= 3 and parts[-2] == "random" and parts[0] in ("np", "numpy") and parts[-1] in NP_RANDOM_FUNCS:
        return "np.random"
    if name in ("datetime.datetime.now", "datetime.now", "datetime.datetime.utcnow"):
        return "time"
    if name in ("pickle.dumps", "cloudpickle.dumps", "dask_array.io._from_map._dumps5") or name.endswith("._dumps5") or name == "_dumps5":
        # the bytes of ONE pickle depend on which sub-objects the payload shares (memoisation) and on mapping order:
        # equal payloads need not pickle equally
        return "pickle"
    return None


STR_METHODS = {"replace", "split", "rsplit", "join", "strip", "lstrip", "rstrip", "lower", "upper", "format", "partition", "splitlines", "title"}


def _is_stringy(e, f: FuncInfo, repo, depth=0):
    """Syntactic evidence that ``e`` is a string / an iterable of strings (element type of a set built from it)."""
    if isinstance(e, ast.Constant):
        return isinstance(e.value, str)
    if isinstance(e, ast.JoinedStr):
        return True
    if isinstance(e, ast.Call) and isinstance(e.func, ast.Attribute) and e.func.attr in STR_METHODS:
        return True
    if isinstance(e, ast.Call) and isinstance(e.func, ast.Name) and e.func.id == "str":
        return True
    if isinstance(e, ast.Attribute) and e.attr in ("_name", "name", "__name__", "__qualname__"):
        return True  # node / collection names are strings
    if isinstance(e, (ast.List, ast.Tuple, ast.Set)) and e.elts:
        return all(_is_stringy(x, f, repo, depth) for x in e.elts)
    if isinstance(e, ast.BinOp) and isinstance(e.op, (ast.Add, ast.Mod)):
        return _is_stringy(e.left, f, repo, depth) or _is_stringy(e.right, f, repo, depth)
    if isinstance(e, ast.Name) and depth < 3:
        if e.id in f.local_names:
            vals = f.__dict__.setdefault("_c07_defs", None)
            if vals is None:
                from ..dataflow import Defs

                vals = f.__dict__["_c07_defs"] = Defs(f.node)
            ds = vals.defs.get(e.id, [])
            return bool(ds) and all(_is_stringy(d, f, repo, depth + 1) for d in ds)
        r = repo.resolve_name(e.id, f.module, f)
        if r and r[0] == "value":
            m, nm = r[1]
            v = m.assigns.get(nm)
            if v is not None:
                if isinstance(v, ast.Call) and isinstance(v.func, ast.Name) and v.func.id in ("set", "frozenset") and v.args:
                    return _is_stringy_mod(v.args[0], m, repo, depth + 1)
                return _is_stringy_mod(v, m, repo, depth + 1)
    return False


def _is_stringy_mod(e, m, repo, depth):
    if isinstance(e, ast.Constant):
        return isinstance(e.value, str)
    if isinstance(e, (ast.List, ast.Tuple, ast.Set)) and e.elts:
        return all(_is_stringy_mod(x, m, repo, depth) for x in e.elts)
    if isinstance(e, ast.Name) and depth < 4 and e.id in m.assigns:
        return _is_stringy_mod(m.assigns[e.id], m, repo, depth + 1)
    if isinstance(e, ast.Call) and isinstance(e.func, ast.Name) and e.func.id in ("set", "frozenset") and e.args:
        return _is_stringy_mod(e.args[0], m, repo, depth + 1)
    return False


def _strip(tags, *drop):
    return frozenset(t for t in tags if t not in drop)


class NondetEval(Evaluator):
    """Tags: ``src:<kind>@<line>`` a process/call dependent value; ``SS`` an unordered set of strings
    (iteration order depends on PYTHONHASHSEED); ``ord@<line>`` a sequence/string whose order was
    frozen from such a set; ``P:<param>`` placeholder: the value of parameter <param> (summaries)."""

    ELEMENT_TAGS = frozenset({"SS"})

    def __init__(self, ctx, f: FuncInfo, depth=0, stack=()):
        super().__init__()
        self.ctx, self.f, self.depth, self.stack = ctx, f, depth, stack

    @staticmethod
    def _freeze(tags, line):
        return frozenset((f"ord@{line}" if t == "SS" else f"dord@{line}" if t == "DV" else t) for t in tags if t != "SS[*]")

    def store_tags(self, target, base_tags, value_tags):
        # d[k] = v into a mapping: the order entries were inserted in is not content (it becomes order again only if
        # the mapping is later projected to a sequence, which is judged at that point)
        if isinstance(target, ast.Subscript) and "MAP" in base_tags:
            return frozenset(t for t in value_tags if not t.startswith("dord@"))
        return value_tags

    def iter_tags(self, it, st):
        # iterating a set of strings visits its elements in hash order: whatever the loop accumulates is ordered by it
        return self._freeze(self.ev(it, st), getattr(it, "lineno", 0))

    def side_effects(self, call, st):
        # ``p = pickle.Pickler(buf, ...)``: what lands in ``buf`` is one memoising pickle (the identity structure of the
        # payload leaks into the bytes) unless the memo is switched off (``p.fast = True``) in the same function
        name = _resolved_call_name(call, self.f, self.ctx.repo)
        if name in PICKLER_CLASSES:
            buf = call.args[0] if call.args else next((k.value for k in call.keywords if k.arg == "file"), None)
            if isinstance(buf, ast.Name) and not _memo_off(self.f, call):
                return {buf.id: frozenset({f"src:pickle@{call.lineno}"})}
        return {}

    def mutator_tags(self, call, st):
        tags = super().mutator_tags(call, st)
        if call.func.attr == "add" and call.args and _is_stringy(call.args[0], self.f, self.ctx.repo):
            tags = tags | {"SS"}
        return _strip(tags, "SS[*]") if call.func.attr != "update" else tags

    def name(self, n, st):
        if n.id in st:
            return st[n.id]
        if n.id not in self.f.local_names:
            r = self.ctx.repo.resolve_name(n.id, self.f.module, self.f)
            if r and r[0] == "value":
                m, nm = r[1]
                v = m.assigns.get(nm)
                if isinstance(v, ast.Call) and isinstance(v.func, ast.Name) and v.func.id in ("set", "frozenset") and v.args and _is_stringy_mod(v.args[0], m, self.ctx.repo, 0):
                    return frozenset({"SS"})
                if isinstance(v, (ast.Set,)) and _is_stringy_mod(v, m, self.ctx.repo, 0):
                    return frozenset({"SS"})
        return EMPTY

    def ev(self, e, st):
        if isinstance(e, ast.Set):
            inner = _strip(super().ev(e, st), "SS")
            return inner | ({"SS"} if _is_stringy(e, self.f, self.ctx.repo) else EMPTY)
        if isinstance(e, ast.SetComp):
            st2 = self.bind_comprehension(e, st)
            inner = _strip(super().ev(e.elt, st2), "SS")
            return inner | ({"SS"} if _is_stringy(e.elt, self.f, self.ctx.repo) else EMPTY)
        if isinstance(e, (ast.ListComp, ast.GeneratorExp, ast.DictComp)):
            st2 = dict(st)
            extra = EMPTY
            for g in e.generators:
                tags = self._freeze(self.ev(g.iter, st2), getattr(e, "lineno", 0))  # iterating fixes an order
                extra |= frozenset(t for t in tags if t.startswith("ord@"))
                for n in ast.walk(g.target):
                    if isinstance(n, ast.Name):
                        st2[n.id] = frozenset(t for t in tags if not t.startswith("ord@"))
            if isinstance(e, ast.DictComp):
                # a mapping: the order its entries were inserted in is not content
                return frozenset(t for t in self.ev(e.key, st2) | self.ev(e.value, st2) | extra if not t.startswith("dord@")) | {"MAP"}
            return self.ev(e.elt, st2) | extra
        if isinstance(e, ast.JoinedStr):
            return self._freeze(super().ev(e, st), getattr(e, "lineno", 0))
        if isinstance(e, ast.Dict):
            return frozenset(t for t in super().ev(e, st) if not t.startswith("dord@")) | {"MAP"}
        if isinstance(e, ast.BinOp) and isinstance(e.op, (ast.Sub, ast.BitOr, ast.BitAnd, ast.BitXor)):
            l, r = self.ev(e.left, st), self.ev(e.right, st)
            if "SS" in l or "SS" in r:
                return l | r  # set algebra on a set of strings is a set of strings
        return super().ev(e, st)

    def attribute(self, n, st):
        return _strip(self.ev(n.value, st), "SS", "SS[*]", "DV")

    def subscript(self, n, st):
        base = self.ev(n.value, st)
        out = _strip(base, "SS", "SS[*]", "DV") | ({"SS"} if "SS[*]" in base else EMPTY)
        # which element is selected depends on the index: an order-dependent index gives an order-dependent element
        return out | frozenset(t for t in self.ev(n.slice, st) if t.startswith(("ord@", "dord@", "src:", "P:")))

    def compare(self, n, st):
        return EMPTY

    def call(self, n, st):
        repo = self.ctx.repo
        kind = _source_kind(n, self.f, repo)
        if kind:
            return frozenset({f"src:{kind}@{n.lineno}"})
        fn = n.func
        tail = (dotted(fn) or "").rsplit(".", 1)[-1]
        argtags = EMPTY
        for a in n.args:
            argtags |= self.ev(a, st)
        for k in n.keywords:
            argtags |= self.ev(k.value, st)
        recv = self.ev(fn.value, st) if isinstance(fn, ast.Attribute) else EMPTY
        if isinstance(fn, ast.Attribute) and fn.attr in ("items", "keys", "values") and not n.args:
            # a view of a mapping: its order is the order the caller happened to spell the entries in
            return _strip(recv, "SS", "SS[*]", "DV") | {"DV"}
        if isinstance(fn, ast.Name) and fn.id == "dict" and fn.id not in self.f.local_names:
            return frozenset(t for t in argtags if t.startswith(("src:", "ord@", "P:"))) | {"MAP"}  # a mapping again: entry order is not content
        if isinstance(fn, ast.Name) and fn.id in ("set", "frozenset") and fn.id not in self.f.local_names:
            stringy = bool(n.args) and (_is_stringy(n.args[0], self.f, repo) or "SS" in argtags)
            return _strip(argtags, "SS") | ({"SS"} if stringy else EMPTY)
        if tail in ORDER_FREE:
            return _strip(argtags | recv, "SS", "DV")
        if tail in TOKENIZERS:
            return _strip(argtags, "SS", "DV")  # tokenize normalises sets and mappings order-free; an already frozen order is kept
        if isinstance(fn, ast.Attribute) and fn.attr in ("union", "intersection", "difference", "symmetric_difference", "copy") and "SS" in recv:
            return recv | _strip(argtags, "SS")
        if isinstance(fn, ast.Attribute) and fn.attr in ("get", "pop", "setdefault") and "SS[*]" in recv:
            return _strip(recv | argtags, "SS[*]") | {"SS"}  # an element of a mapping whose values are sets of strings
        if (isinstance(fn, ast.Name) and fn.id in ("list", "tuple", "str", "repr", "iter", "next", "enumerate", "zip", "map", "filter", "reversed", "dict")) or (isinstance(fn, ast.Attribute) and fn.attr == "join"):
            return self._freeze(argtags | recv, n.lineno)
        r = repo.resolve_expr(fn, self.f.module, self.f) if isinstance(fn, (ast.Name, ast.Attribute)) else None
        if r and r[0] == "class":
            return EMPTY  # object boundary: an object's own name is judged at its construction site
        if r and r[0] == "func" and r[1].module.is_unit:
            callee = r[1]
            if self.depth >= 4 or callee.fq in self.stack:
                return EMPTY
            sm = summary(self.ctx, callee, self.depth + 1, self.stack + (self.f.fq,))
            out = frozenset(t for t in sm["returns"] if not t.startswith("P:"))
            binding = _bind(callee, n)
            for p, exprs in binding.items():
                if f"P:{p}" in sm["returns"]:
                    for x in exprs:
                        out |= _strip(self.ev(x, st), "SS")
            return out
        return _strip(argtags | recv, "SS", "SS[*]", "DV")


def _bind(callee: FuncInfo, call: ast.Call):
    """parameter name -> [argument expressions] for a resolved call (varargs/kwargs splats go to every remaining parameter)."""
    a = callee.node.args
    pos = [x.arg for x in a.posonlyargs + a.args]
    if callee.cls is not None and callee.kind != "staticmethod" and pos and pos[0] in ("self", "cls") and not (isinstance(call.func, ast.Name)):
        pos = pos[1:]
    elif callee.cls is not None and callee.kind != "staticmethod" and pos and pos[0] in ("self", "cls"):
        pos = pos[1:]
    out = {}
    for i, arg in enumerate(call.args):
        if isinstance(arg, ast.Starred):
            for p in pos[i:] + ([a.vararg.arg] if a.vararg else []):
                out.setdefault(p, []).append(arg.value)
            break
        if i < len(pos):
            out.setdefault(pos[i], []).append(arg)
        elif a.vararg:
            out.setdefault(a.vararg.arg, []).append(arg)
    names = set(pos) | {x.arg for x in a.kwonlyargs}
    for k in call.keywords:
        if k.arg is None:
            for p in list(names) + ([a.kwarg.arg] if a.kwarg else []):
                out.setdefault(p, []).append(k.value)
        elif k.arg in names:
            out.setdefault(k.arg, []).append(k.value)
        elif a.kwarg:
            out.setdefault(a.kwarg.arg, []).append(k.value)
    return out


def _may_matter(f: FuncInfo):
    """Cheap syntactic pre-filter: the function mentions a source or builds a set."""
    src = f.__dict__.get("_c07_src")
    if src is None:
        src = ast.get_source_segment(f.module.src, f.node) or ""
        f.__dict__["_c07_src"] = src
    return any(k in src for k in ("uuid", "id(", "hash(", "time.", "getpid", "urandom", "secrets", "random.", "set(", "frozenset(", "_set", "datetime", "dumps")) or ("{" in src and any(isinstance(n, (ast.Set, ast.SetComp)) for n in ast.walk(f.node)))


def _expr_class(ctx, ci):
    key = ("c07exprs",)
    s = ctx._cache.get(key)
    if s is None:
        s = ctx._cache[key] = {c.fq for c in ctx.repo.expr_classes()}
    return ci.fq in s


def summary(ctx, f: FuncInfo, depth=0, stack=()):
    """{"returns": tags a call may return (src/ord from inside f, P:<param> for parameters that flow to the result),
    "sinks": [(tags, description, node)] name sinks reached inside f (transitively), tags again src/ord/P:<param>}."""
    key = ("c07sum", f.fq)
    if key in ctx._cache:
        return ctx._cache[key]
    ctx._cache[key] = {"returns": EMPTY, "sinks": []}  # recursion guard
    repo = ctx.repo
    evr = NondetEval(ctx, f, depth, stack)
    init = {p: frozenset({f"P:{p}"}) for p in f.params if p not in ("self", "cls")}
    flow = TagFlow(f.node, evr, init=init, cfg=cfg_of(ctx, f))
    sinks = []

    top = f
    while top.parent is not None:
        top = top.parent
    # mapping order is judged only where a mapping IS content being named: inside tokenizer / name bodies (operands are
    # user-supplied mappings there). Elsewhere dicts are mostly built internally, in a deterministic insertion order.
    in_namer = top.cls is not None and top.name in SINK_MEMBERS

    def interesting(tags):
        return frozenset(t for t in tags if t.startswith(("src:", "ord@", "P:")) or (in_namer and t.startswith("dord@")))

    def visit(stmt, n, st):
        if isinstance(n, ast.Call):
            for k in n.keywords:
                if k.arg in NAME_KWS:
                    tg = interesting(evr.ev(k.value, st))
                    if tg:
                        sinks.append((tg, f"{k.arg}= argument of {unparse(n.func)[:50]}(...)", n))
            r = repo.resolve_expr(n.func, f.module, f) if isinstance(n.func, (ast.Name, ast.Attribute)) else None
            if r and r[0] == "class" and r[1].module.is_unit and _expr_class(ctx, r[1]):
                for a in list(n.args) + [k.value for k in n.keywords if k.arg not in NAME_KWS]:
                    tg = interesting(evr.ev(a.value if isinstance(a, ast.Starred) else a, st))
                    if tg:
                        sinks.append((tg, f"operand of {r[1].name}(...) (operands are tokenized into the node name)", n))
            elif r and r[0] == "func" and r[1].module.is_unit and depth < 4 and r[1].fq not in stack and r[1] is not f:
                sm = summary(ctx, r[1], depth + 1, stack + (f.fq,))
                if sm["sinks"]:
                    binding = _bind(r[1], n)
                    for tg, what, _node in sm["sinks"]:
                        for t in tg:
                            if t.startswith("P:") and t[2:] in binding:
                                for x in binding[t[2:]]:
                                    tx = interesting(evr.ev(x, st))
                                    if tx:
                                        sinks.append((tx, f"argument {t[2:]!r} of {r[1].qualname}(...) -> {what}"[:200], n))
        if isinstance(stmt, ast.Assign) and n is stmt:
            for t in stmt.targets:
                if isinstance(t, ast.Attribute) and t.attr == "_determ_token":
                    tg = interesting(evr.ev(stmt.value, st))
                    if tg:
                        sinks.append((tg, "store to _determ_token", stmt))
        if isinstance(stmt, ast.Return) and n is stmt and stmt.value is not None and f.name in SINK_MEMBERS and f.cls is not None:
            tg = interesting(evr.ev(stmt.value, st))
            if tg:
                sinks.append((tg, f"return value of {f.qualname}", stmt))

    flow.visit(visit)
    out = {"returns": interesting(flow.return_tags()), "sinks": sinks}
    ctx._cache[key] = out
    return out


def _reaches_source(ctx, f: FuncInfo):
    """f or a package function it calls (depth 3, resolved calls) syntactically mentions a source."""
    key = ("c07reach", f.fq)
    if key in ctx._cache:
        return ctx._cache[key]
    cg = callgraph(ctx)
    seen = {f.fq}
    frontier = [f.fq]
    res = False
    for _ in range(4):
        nxt = []
        for fq in frontier:
            g = cg.funcs.get(fq)
            if g is not None and _may_matter(g):
                res = True
                break
            for e in cg.edges.get(fq, []):
                tfq = e.target.fq
                if tfq not in seen and e.exact and e.kind == "call":
                    seen.add(tfq)
                    nxt.append(tfq)
        if res:
            break
        frontier = nxt
    ctx._cache[key] = res
    return res


def _kind_of(tag):
    if tag.startswith("src:"):
        return tag[4:].split("@")[0]
    if tag.startswith("ord@"):
        return "set-order"
    if tag.startswith("dord@"):
        return "mapping-order"
    return None


def r07_1(ctx):
    rr = RuleResult("R07.1", "WHO", "every flow from a nondeterministic source (uuid/id/hash/time/pid/random/iteration order of a set of strings) into a name sink is a documented, frozen case", min_instances=5)
    repo = ctx.repo
    analysed = 0
    source_sites = 0
    for m in repo.units:
        for f in m.functions.values():
            if not (_reaches_source(ctx, f) or (f.cls is not None and f.name in SINK_MEMBERS)):
                continue
            analysed += 1
            source_sites += sum(1 for n in body_walk(f.node) if isinstance(n, ast.Call) and _source_kind(n, f, repo))
            sm = summary(ctx, f)
            by_kind = {}
            for tags, what, node in sm["sinks"]:
                for t in tags:
                    k = _kind_of(t)
                    if k:
                        by_kind.setdefault(k, []).append((node, what, t))
            for k, lst in sorted(by_kind.items()):
                cst = f"{f.construct}::{k}"
                node, what, tag = lst[0]
                rr.inst(cst, sinks=sorted({w for _n, w, _t in lst})[:6], source_lines=sorted({t.split("@")[-1] for _n, _w, t in lst}))
                reason = ALLOWED.get((f.construct, k))
                if reason:
                    rr.exempt(cst, reason)
                    continue
                why = {
                    "pickle": "the bytes of a single pickle depend on which sub-objects the payload happens to share (memoisation) and on mapping order, so EQUAL inputs can get different names",
                    "mapping-order": "the order in which the caller spelled the entries of a mapping is frozen into the token, so EQUAL mappings (e.g. the same keyword arguments in another order) get different names",
                    "set-order": "the iteration order of a set of strings depends on PYTHONHASHSEED, so a fresh process gives another name / other graph keys",
                }.get(k, "building the same program again - in this process or a fresh one (another pid, clock, object address) - gives another name / other graph keys")
                ctx.finding(
                    rr, cst,
                    f"a {k} value (source line {tag.split('@')[-1]}) flows into a name in {f.qualname}: {what}; {why}; this is not one of the documented untokenizable-source cases",
                    func=f, node=node,
                )
    rr.notes.append(f"{analysed} functions analysed (those that reach a source within 4 resolved calls); {source_sites} nondeterministic call sites in them")
    seen = {e["construct"] for e in rr.exemptions}
    for (cst, k) in ALLOWED:
        need(f"{cst}::{k}" in seen, f"documented nondeterministic name flow {cst} [{k}] is no longer detected (taint analysis lost an anchor or the code changed: update the table)")
    return rr


def r07_2(ctx):
    rr = RuleResult("R07.2", "COVER", "ArrayExpr.__reduce__ rebuilds with type, all operands, the token and the MRO-wide cached-property cache; no expression class overrides pickling", min_instances=100)
    repo = ctx.repo
    ae = repo.mod("dask_array._expr").cls("ArrayExpr")
    red = ae.methods.get("__reduce__")
    need(red is not None, "ArrayExpr.__reduce__")
    rets = [n for n in body_walk(red.node) if isinstance(n, ast.Return)]
    ok = False
    why = "no return of the form `Expr._reconstruct, (type(self), *self.operands, self.deterministic_token, cache)`"
    for r in rets:
        v = r.value
        if isinstance(v, ast.Tuple) and len(v.elts) == 2 and unparse(v.elts[0]).endswith("_reconstruct") and isinstance(v.elts[1], ast.Tuple):
            args = [unparse(x) for x in v.elts[1].elts]
            has = args[:1] == ["type(self)"] and "*self.operands" in args and "self.deterministic_token" in args
            tok_after_ops = has and args.index("self.deterministic_token") == args.index("*self.operands") + 1
            cache_last = len(args) >= 4 and isinstance(v.elts[1].elts[-1], ast.Name)
            if has and tok_after_ops and cache_last:
                ok = True
                cache_name = v.elts[1].elts[-1].id
            else:
                why = f"reconstruct arguments are {args}"
    rr.inst(red.construct, reconstruct_args_ok=ok)
    if not ok:
        ctx.finding(rr, red.construct, f"ArrayExpr.__reduce__: {why} - an unpickled node re-tokenizes (unstable sources get another name) or loses operands", func=red)
    else:
        # the cache is filled from _cached_property_names minus the exclusion set, values read from __dict__
        loops = [n for n in body_walk(red.node) if isinstance(n, ast.For) and "_cached_property_names" in unparse(n.iter)]
        fills = [n for n in body_walk(red.node) if isinstance(n, ast.Assign) and any(isinstance(t, ast.Subscript) and unparse(t.value) == cache_name for t in n.targets)]
        okc = bool(loops) and bool(fills) and all("__dict__" in unparse(x.value) for x in fills)
        rr.inst(site(red) + "::cache", loops=len(loops), fills=len(fills))
        if not okc:
            ctx.finding(rr, site(red) + "::cache", "the cache handed to _reconstruct is no longer filled from type(self)._cached_property_names out of self.__dict__", func=red)
        guards = []
        for x in fills:
            guards += [unparse(t) for t, pol in cfg_of(ctx, red).guards(x)]
        if okc and not any("_pickle_excluded_cached_properties" in g for g in guards):
            ctx.finding(rr, site(red) + "::cache", "the exclusion set _pickle_excluded_cached_properties is no longer honoured when filling the pickle cache", func=red)
    isc = ae.methods.get("__init_subclass__")
    coll = repo.mod("dask_array._expr").functions.get("_collect_cached_property_names")
    need(isc is not None and coll is not None, "ArrayExpr.__init_subclass__ / _collect_cached_property_names")
    sets = [n for n in body_walk(isc.node) if isinstance(n, ast.Assign) and any(unparse(t) == "cls._cached_property_names" for t in n.targets)]
    ok_isc = bool(sets) and all(isinstance(s.value, ast.Call) and dotted(s.value.func) == "_collect_cached_property_names" for s in sets)
    rr.inst(isc.construct, sets_names=ok_isc)
    if not ok_isc:
        ctx.finding(rr, isc.construct, "__init_subclass__ no longer computes cls._cached_property_names with _collect_cached_property_names(cls)", func=isc)
    walks_mro = any(isinstance(n, ast.Attribute) and n.attr in ("__mro__", "mro") for n in ast.walk(coll.node))
    rr.inst(coll.construct, walks_mro=walks_mro)
    if not walks_mro:
        ctx.finding(rr, coll.construct, "_collect_cached_property_names no longer walks the MRO: inherited cached properties (lazily derived name parts such as Random._info in RandomNormal) are dropped from the pickle", func=coll)
    # no expression class overrides the protocol / disables the cache
    for c in repo.expr_classes():
        over = [m for m in ("__reduce__", "__reduce_ex__", "__getstate__", "__setstate__", "__getnewargs__", "__getnewargs_ex__", "__copy__", "__deepcopy__") if m in c.methods and c is not ae]
        flag = c.attrs.get("_pickle_functools_cache")
        rr.inst(c.construct, overrides=over, cache_flag=unparse(flag) if flag is not None else None)
        for m in over:
            ctx.finding(rr, f"{c.construct}::{m}", f"{c.name} overrides {m}: its pickles bypass ArrayExpr.__reduce__ (token and cached name parts are not guaranteed to travel)", func=c.methods[m])
        if flag is not None and const_value(flag) is not True:
            ctx.finding(rr, f"{c.construct}::_pickle_functools_cache", f"{c.name} sets _pickle_functools_cache = {unparse(flag)}: lazily derived name parts are re-derived after unpickling", file=c.module.path, line=flag.lineno)
    return rr


def r07_3(ctx):
    rr = RuleResult("R07.3", "PASS", "every custom __dask_tokenize__ returns the cached self._determ_token, assigned on every path before the return", min_instances=5)
    repo = ctx.repo
    for c in repo.expr_classes():
        t = c.methods.get("__dask_tokenize__")
        if t is None:
            continue
        cfg = cfg_of(ctx, t)
        rets = cfg.returns
        all_cached = bool(rets) and all(r.value is not None and unparse(r.value) == "self._determ_token" for r in rets)

        def assigns(n):
            return isinstance(n, ast.Assign) and any(unparse(x) == "self._determ_token" for x in n.targets)

        def cached_edge(a, lbl, b):
            # leaving `if not self._determ_token:` on the False edge = the token was already cached
            if isinstance(a, ast.If):
                tt = unparse(a.test)
                if tt == "not self._determ_token" and lbl is False:
                    return True
                if tt in ("self._determ_token", "self._determ_token is not None") and lbl is True:
                    return True
            return False

        bad = None
        for r in rets:
            p = cfg.path_avoiding(r, blocked=assigns, blocked_edge=cached_edge)
            if p is not None:
                bad = r
        rr.inst(t.construct, returns_cached_token=all_cached, every_path_assigns=bad is None)
        if not all_cached:
            ctx.finding(rr, t.construct, f"{c.name}.__dask_tokenize__ returns something other than the cached self._determ_token: a parent that re-tokenizes this node after a pickle round trip (or an unstable source) sees another token than the one baked into the node's own name", func=t)
        elif bad is not None:
            ctx.finding(rr, t.construct, f"{c.name}.__dask_tokenize__ can reach `return self._determ_token` (line {bad.lineno}) without having assigned it", func=t, node=bad)
    return rr


def r07_4(ctx):
    from .c23 import r23_6

    rr = r23_6(ctx)
    rr.rule = "R07.4"
    for f in rr.findings:
        f.rule = "R07.4"
        f.prop = PROP
    return rr


DERIVED_ARRAY_CACHES = {"_lowered_expr", "_cached_dask_keys"}  # re-derivable from _expr + the captured policy


def r07_5(ctx):
    rr = RuleResult("R07.5", "COVER", "Array.__getstate__ drops only re-derivable caches (never _expr or the captured optimize-graph policy); __setstate__ restores the dict unfiltered", min_instances=2)
    repo = ctx.repo
    arr = repo.mod("dask_array._collection").cls("Array")
    gs, ss = arr.methods.get("__getstate__"), arr.methods.get("__setstate__")
    need(gs is not None and ss is not None, "Array.__getstate__/__setstate__")
    dropped = []
    opaque = False

    def keys_of(e):
        """String keys an index expression may denote: a literal, or the target of a ``for`` over a literal collection."""
        v = const_value(e)
        if isinstance(v, str):
            return [v]
        if isinstance(e, ast.Name):
            out = []
            for loop in ast.walk(gs.node):
                if isinstance(loop, ast.For) and isinstance(loop.target, ast.Name) and loop.target.id == e.id:
                    vals = const_value(loop.iter)
                    if isinstance(vals, (tuple, list, set, frozenset)) and all(isinstance(x, str) for x in vals):
                        out.extend(vals)
                    else:
                        return None
            return out or None
        return None

    for n in body_walk(gs.node):
        if isinstance(n, ast.Call) and isinstance(n.func, ast.Attribute) and n.func.attr == "pop" and n.args:
            ks = keys_of(n.args[0])
            if ks is None:
                opaque = True
            else:
                dropped.extend(ks)
        if isinstance(n, ast.Delete):
            for t in n.targets:
                if isinstance(t, ast.Subscript):
                    ks = keys_of(t.slice)
                    if ks is None:
                        opaque = True
                        dropped.append("?")
                    else:
                        dropped.extend(ks)
        if isinstance(n, (ast.DictComp,)):
            opaque = True  # filtering comprehension: cannot enumerate what is kept
    rets = [n for n in body_walk(gs.node) if isinstance(n, ast.Return)]
    copies = any(isinstance(n, ast.Call) and unparse(n.func) in ("self.__dict__.copy", "dict") for n in body_walk(gs.node))
    rr.inst(gs.construct, dropped=sorted(dropped), starts_from_full_dict=copies)
    bad = [d for d in dropped if d not in DERIVED_ARRAY_CACHES]
    if bad:
        ctx.finding(rr, gs.construct, f"Array.__getstate__ drops {bad}: only {sorted(DERIVED_ARRAY_CACHES)} are re-derivable; dropping _expr loses the array, dropping _lowered_expr_optimize_graph lets the receiver lower under its own policy (other graph / Frisky output keys than the sender advertised)", func=gs)
    if opaque or not copies or not rets:
        ctx.finding(rr, gs.construct, "Array.__getstate__ no longer starts from a full copy of __dict__ with an enumerable list of dropped keys", func=gs)
    upd = [n for n in body_walk(ss.node) if isinstance(n, ast.Call) and unparse(n.func) == "self.__dict__.update" and n.args and isinstance(n.args[0], ast.Name) and n.args[0].id in ss.params]
    other = [n for n in body_walk(ss.node) if isinstance(n, (ast.If, ast.For, ast.Delete)) or (isinstance(n, ast.Call) and isinstance(n.func, ast.Attribute) and n.func.attr == "pop")]
    rr.inst(ss.construct, restores_whole_state=bool(upd), filters=len(other))
    if not upd or other:
        ctx.finding(rr, ss.construct, "Array.__setstate__ no longer restores the pickled dict unfiltered (self.__dict__.update(state))", func=ss)
    return rr


def r07_6(ctx):
    from .c09 import lowering_config_rule

    rr = lowering_config_rule(ctx, "R07.6")
    for f in rr.findings:
        f.prop = PROP
    return rr


class _SplitEveryEval(Evaluator):
    """``N``: the value came out of _normalize_split_every(...); ``RAW``: anything else (the raw parameter, None, a literal)."""

    def name(self, n, st):
        return st.get(n.id, frozenset({"RAW"}))

    def attribute(self, n, st):
        return frozenset({"RAW"})

    def call(self, n, st):
        if (dotted(n.func) or "").rsplit(".", 1)[-1] == "_normalize_split_every":
            return frozenset({"N"})
        return frozenset({"RAW"})

    def ev(self, e, st):
        if isinstance(e, ast.Constant):
            return frozenset({"RAW"})
        return super().ev(e, st)


def r07_7(ctx):
    rr = RuleResult("R07.7", "WHO", "every construction of a Reduction passes _normalize_split_every(...) as its split_every operand (planner defaults that shape the graph are resolved into the name at construction)", min_instances=1)
    repo = ctx.repo
    red = repo.find_class("Reduction")
    from ..namedeps import params_of

    P = params_of(repo, red)
    need("split_every" in P, "Reduction no longer has a split_every operand")
    idx = P.index("split_every")
    fam = {c.fq for c in repo.subclasses(red)}
    from ..cfg import build_index

    for m in repo.units:
        for f in m.functions.values():
            cls_params = set()
            a = f.node.args
            pos = a.posonlyargs + a.args
            for prm, d in list(zip(reversed(pos), reversed(a.defaults))) + [(k, d) for k, d in zip(a.kwonlyargs, a.kw_defaults) if d is not None]:
                r = repo.resolve_expr(d, m, f) if isinstance(d, (ast.Name, ast.Attribute)) else None
                if r and r[0] == "class" and r[1].fq in fam:
                    cls_params.add(prm.arg)
            flow = None
            for n in body_walk(f.node):
                if not isinstance(n, ast.Call):
                    continue
                hit = False
                if isinstance(n.func, ast.Name) and n.func.id in cls_params:
                    hit = True
                else:
                    r = repo.resolve_expr(n.func, m, f) if isinstance(n.func, (ast.Name, ast.Attribute)) else None
                    hit = bool(r and r[0] == "class" and r[1].fq in fam)
                if not hit:
                    continue
                arg = None
                if len(n.args) > idx and not any(isinstance(x, ast.Starred) for x in n.args[: idx + 1]):
                    arg = n.args[idx]
                for k in n.keywords:
                    if k.arg == "split_every":
                        arg = k.value
                cst = f"{f.construct}::{unparse(n.func)}(...).split_every"
                if arg is None:
                    rr.inst(cst, argument=None)
                    if any(isinstance(x, ast.Starred) for x in n.args):
                        rr.exempt(cst, "rebuild from existing operands (*operands): no new operand enters")
                        continue
                    ctx.finding(rr, cst, "this Reduction construction leaves split_every at its None default: the tree fan-in is then resolved from configuration at lowering time, and the name-keyed lowering cache serves it to the same program built under another setting", func=f, node=n)
                    continue
                if flow is None:
                    flow = TagFlow(f.node, _SplitEveryEval(), cfg=cfg_of(ctx, f))
                stmt = build_index(flow.cfg).get(id(n))
                tags = flow.evr.ev(arg, flow.state_at(stmt) if stmt is not None else {})
                rr.inst(cst, argument=unparse(arg)[:80], tags=sorted(tags))
                if tags != {"N"}:
                    ctx.finding(
                        rr, cst,
                        f"the split_every operand {unparse(arg)[:80]!r} is not always the result of _normalize_split_every(...): when it is empty the fan-in is read from "
                        f"configuration while lowering, is not part of the node name, and the process-wide lowering cache serves the first-lowered tree to later builds under other settings",
                        func=f, node=n,
                    )
    return rr


def r07_8(ctx):
    from ..refguards import check_reference

    rr = RuleResult("R07.8", "REF", "the decline guards of the package's own tokenizer for callables/types (_dispatch._importable_ref and the registered normalizers) are structurally unchanged", min_instances=12)
    return check_reference(ctx, rr, PROP)


RULES = [r07_1, r07_2, r07_3, r07_4, r07_5, r07_6, r07_7, r07_8]

from .upstream import upstream_facts  # noqa: E402

RULES_THOROUGH = RULES + [upstream_facts]

LEVEL_TEXT = (
    "Static decision of the naming-determinism discipline: a flow-sensitive taint analysis over the statement CFG of every "
    "function that can reach a nondeterministic source (uuid, id, hash, clock, pid, unseeded RNG, frozen set-iteration order) "
    "to every name sink, with interprocedural return summaries, judged against a frozen allow-list of the documented "
    "untokenizable-source cases; structural agreement of ArrayExpr.__reduce__ / __init_subclass__ / "
    "_collect_cached_property_names with Expr._reconstruct; a must-assign-before-return path check on every custom "
    "__dask_tokenize__; and the Array pickling hooks. A new uuid/id/hash/set-order value reaching a name, a token that is not "
    "cached, a pickle that loses the token / an inherited cached name part / the captured lowering policy is reported at its "
    "site. Cross-process stability of dask.tokenize on user objects and computed values are not decided."
)
LEVEL_NOTE = (
    "Trusted: CPython ast, sa.cfg, sa.tagflow, the frozen allow-list in sa/rules/c07.py (7 documented flows, each with its reason). "
    "Set-order tracking recognises set()/frozenset()/set displays and comprehensions; dict key order is insertion order and is not a source."
)
TECHNIQUE = "static analysis: flow-sensitive taint (nondeterministic sources -> name sinks) over a statement CFG with return summaries and a frozen allow-list; pickling-protocol structure checks; must-assign-before-return path rule (ast)"

"""Witness for R05.9 (repaired in /repo): dask.optimize / dask.persist of programs whose inputs are chunked differently.
Exit 0 when every entry point agrees with compute(), 1 otherwise."""
import sys

import numpy as np

import dask
import dask_array as da

a = np.arange(12.0)
b = np.arange(12.0) * 10
A = np.arange(24.0).reshape(4, 6)
bad = 0
cases = {}
for ca, cb in ((4, 6), (4, 2), (3, 12), (12, 5)):
    cases[f"x + y chunks {ca}/{cb}"] = (lambda ca=ca, cb=cb: da.from_array(a, chunks=ca) + da.from_array(b, chunks=cb), a + b)
cases["concatenate"] = (lambda: da.concatenate([da.from_array(A, chunks=(2, 3)), da.from_array(A, chunks=(4, 2)) + 1], axis=0), np.concatenate([A, A + 1]))
cases["stack"] = (lambda: da.stack([da.from_array(A, chunks=(2, 3)), da.from_array(A, chunks=(4, 2)) + 1]), np.stack([A, A + 1]))
for name, (mk, want) in cases.items():
    for ep, f in {"dask.optimize": lambda d: dask.optimize(d)[0].compute(), "dask.persist": lambda d: dask.persist(d)[0].compute(), "dask.optimize(sum)": lambda d: dask.optimize(d.sum())[0].compute()}.items():
        try:
            got = f(mk())
            ref = want.sum() if ep.endswith("(sum)") else want
            if not np.allclose(got, ref):
                bad += 1
                print(name, ep, "differs")
        except Exception as e:  # noqa: BLE001
            bad += 1
            print(name, ep, type(e).__name__, str(e)[:80])
sys.exit(1 if bad else 0)

"""Witness for R02.9 / R02.10 (repaired in /repo): a slice pushed through a multi-operand blockwise.
Exit 0 when every sliced result equals the slice of the unsliced result, 1 otherwise (before the repair: 'Missing
dependency' / IndexError for a broadcast operand; silently different values or ValueError for operands on different
grids under adjust_chunks)."""
import sys
import warnings

import numpy as np

import dask_array as da

warnings.simplefilter("ignore")
bad = 0


def check(label, r, want, keys):
    global bad
    for k in keys:
        try:
            if not np.allclose(r[k].compute(), want[k]):
                bad += 1
                print(label, k, "differs")
        except Exception as e:  # noqa: BLE001
            bad += 1
            print(label, k, type(e).__name__, str(e)[:80])


a = np.arange(12.0).reshape(3, 4)
b = np.arange(4.0).reshape(1, 4)
for cx in [(2, 2), (1, 2)]:
    x = da.from_array(a, chunks=cx)
    y = da.from_array(b, chunks=(1, 2))
    r = da.blockwise(np.add, "ij", x, "ij", y, "ij", dtype=float)
    check(f"broadcast {cx}", r, a + b, [(slice(1, 3),), (2,), (slice(0, 1),), (slice(2, None),), (slice(None), 1), (slice(0, 0),)])
    try:  # shuffle pushdown (repaired in 7727327)
        if not np.allclose(da.take(r, [2, 0, 1, 2], axis=0).compute(), (a + b)[[2, 0, 1, 2]]):
            bad += 1
            print("broadcast take", cx, "differs")
    except Exception as e:  # noqa: BLE001
        bad += 1
        print("broadcast take", cx, type(e).__name__, str(e)[:80])
    f = lambda p, q: np.repeat(p + q, 2, axis=0)  # noqa: E731
    r = da.blockwise(f, "ij", x, "ij", y, "ij", dtype=float, adjust_chunks={"i": lambda n: 2 * n})
    check(f"broadcast coarse {cx}", r, np.repeat(a + b, 2, axis=0), [(slice(2, 5),), (3,), (slice(0, 2),), (slice(None), slice(1, 3))])

a = np.arange(24.0).reshape(6, 4)
b = a * 10
want = np.repeat(a + b, 2, axis=0)
for cx, cy in [((1, 2), (3, 2)), ((2, 2), (3, 4)), ((3, 2), (2, 2)), ((6, 4), (1, 1)), ((2, 2), (2, 2))]:
    x = da.from_array(a, chunks=cx)
    y = da.from_array(b, chunks=cy)
    r = da.blockwise(f, "ij", x, "ij", y, "ij", dtype=float, adjust_chunks={"i": lambda n: 2 * n})
    check(f"unaligned {cx} {cy}", r, want, [(slice(2, 5),), (3,), (slice(0, 2),), (slice(7, 12),), (slice(None), slice(1, 3))])
sys.exit(1 if bad else 0)

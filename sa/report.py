"""Rules, findings, evidence and exit status (DESIGN.md 2.4)."""

from __future__ import annotations

import json
import os
import time
from dataclasses import dataclass, field

from .model import AnalysisError

VERIF = os.path.dirname(os.path.dirname(os.path.abspath(__file__)))
EVIDENCE_DIR = os.path.join(VERIF, "evidence")
KNOWN_FINDINGS = os.path.join(VERIF, "known_findings.json")


@dataclass
class Finding:
    prop: str
    rule: str
    construct: str  # relative/path.py::Qual.name[::normalised statement]
    reason: str
    file: str = ""
    line: int = 0
    path: list = field(default_factory=list)  # call-graph / CFG witness, printable strings

    @property
    def key(self):
        return f"{self.prop}|{self.rule}|{self.construct}"

    def to_json(self):
        return {
            "property": self.prop,
            "rule": self.rule,
            "construct": self.construct,
            "reason": self.reason,
            "file": self.file,
            "line": self.line,
            "path": self.path,
        }


@dataclass
class RuleResult:
    rule: str
    kind: str
    statement: str
    instances: list = field(default_factory=list)  # dicts: construct + facts
    findings: list = field(default_factory=list)
    min_instances: int = 1
    exemptions: list = field(default_factory=list)  # dicts {construct, reason}
    notes: list = field(default_factory=list)

    def inst(self, construct, **facts):
        d = {"construct": construct}
        d.update(facts)
        self.instances.append(d)
        return d

    def exempt(self, construct, reason):
        self.exemptions.append({"construct": construct, "reason": reason})


class Ctx:
    """Per-run context handed to rules."""

    def __init__(self, repo, prop, tier):
        self.repo = repo
        self.prop = prop
        self.tier = tier
        self._cache = {}

    def finding(self, rr: RuleResult, construct, reason, func=None, node=None, path=None, file=None, line=None):
        if func is not None:
            file = file or os.path.join(self.repo.root, func.module.relpath)
            if line is None:
                line = getattr(node, "lineno", None) or func.lineno
        f = Finding(self.prop, rr.rule, construct, reason, file or "", int(line or 0), list(path or []))
        rr.findings.append(f)
        return f

    def cached(self, key, fn):
        if key not in self._cache:
            self._cache[key] = fn()
        return self._cache[key]


def load_known():
    if not os.path.exists(KNOWN_FINDINGS):
        return {}, []
    with open(KNOWN_FINDINGS) as f:
        data = json.load(f)
    known = {}
    for e in data.get("known", []):
        known[f"{e['property']}|{e['rule']}|{e['construct']}"] = e
    return known, data.get("fixed", [])


def evaluate(prop, rules, repo, tier):
    """Run the rules; return the list of RuleResult (raises AnalysisError when a
    rule's instance count fell below its confirmed minimum)."""
    ctx = Ctx(repo, prop, tier)
    results: list[RuleResult] = []
    for fn in rules:
        rr = fn(ctx)
        if rr is None:
            continue
        for r in rr if isinstance(rr, list) else [rr]:
            if len(r.instances) < r.min_instances:
                raise AnalysisError(
                    f"rule {r.rule} matched {len(r.instances)} instance(s), fewer than the {r.min_instances} "
                    f"confirmed by hand - its anchors have moved; refusing to pass vacuously"
                )
            results.append(r)
    return results


def run_property(prop, rules, repo, tier, seed, explanation, assumptions, trusted_base, extra=None, t0=None):
    """Run all rules of a property; write evidence; print report; return exit status."""
    t0 = t0 or time.time()
    results = evaluate(prop, rules, repo, tier)

    known, _fixed = load_known()
    all_findings = [f for r in results for f in r.findings]
    new = [f for f in all_findings if f.key not in known]
    old = [f for f in all_findings if f.key in known]

    obligations = sum(len(r.instances) for r in results)
    failing_constructs = {(f.rule, f.construct) for f in all_findings}
    discharged = obligations - len(failing_constructs)
    distinct = len({(r.rule, i["construct"]) for r in results for i in r.instances})

    samples = []
    for r in results:
        for i in r.instances[:3]:
            samples.append({"rule": r.rule, **{k: v for k, v in i.items()}})
    stats = repo.stats()
    ev = {
        "property_id": prop,
        "tier": tier,
        "seed": int(seed),
        "level": "other",
        "coverage": {
            "explanation": explanation,
            "obligations": obligations,
            "discharged": max(discharged, 0),
            "evaluations": obligations,
            "distinct_nontrivial": distinct,
            "rule": "one evaluation = one (rule, code site) obligation enumerated from the syntax tree / class "
            "hierarchy / call graph of /repo; distinct = distinct (rule, construct) pairs; non-trivial = the rule's "
            "slots were filled from the source at that site (sites where nothing was extracted are not counted)",
            "samples": samples[:60],
            "exhaustive": True,
            "analysed": stats,
            "rules": [
                {
                    "rule": r.rule,
                    "kind": r.kind,
                    "statement": r.statement,
                    "instances": len(r.instances),
                    "minimum_instances": r.min_instances,
                    "findings": len(r.findings),
                    "exemptions": r.exemptions,
                    "notes": r.notes,
                    "constructs": [i["construct"] for i in r.instances][:400],
                }
                for r in results
            ],
            "trusted_base": trusted_base,
            "checker_cmd": f"./vcheck {prop} --tier {tier}",
        },
        "assumptions": assumptions,
        "wall_s": 0.0,
        "violations": len(new),
        "known_findings_reported": [f.key for f in old],
    }
    if extra:
        ev["coverage"].update(extra)

    print(f"[{prop}] tier={tier} modules={stats['modules']} classes={stats['classes']} functions={stats['functions']}")
    for r in results:
        status = "ok" if not r.findings else f"{len(r.findings)} finding(s)"
        print(f"  {r.rule:8s} {r.kind:8s} instances={len(r.instances):4d} (min {r.min_instances}) exemptions={len(r.exemptions)} {status}")
    for f in old:
        print(f"KNOWN-FINDING: property={prop} {f.rule} {f.construct} {f.reason}")
    status = 0
    if new:
        vdir = os.path.join(EVIDENCE_DIR, "violations")
        os.makedirs(vdir, exist_ok=True)
        replay = os.path.join(vdir, f"{prop}.json")
        with open(replay, "w") as fh:
            json.dump({"property": prop, "tier": tier, "findings": [f.to_json() for f in new]}, fh, indent=1)
        for f in new:
            print(f"{f.file}:{f.line}: {f.rule} {f.construct}: {f.reason}")
            for p in f.path:
                print(f"      via {p}")
        print(f"VIOLATION property={prop} replay={replay}")
        status = 1
    ev["wall_s"] = round(time.time() - t0, 3)
    os.makedirs(EVIDENCE_DIR, exist_ok=True)
    with open(os.path.join(EVIDENCE_DIR, f"{prop}.json"), "w") as fh:
        json.dump(ev, fh, indent=1, default=str)
    print(f"[{prop}] obligations={obligations} discharged={max(discharged,0)} new={len(new)} known={len(old)} wall={ev['wall_s']}s")
    return status

"""C03 - the two layout barriers re-establish the advertised chunks on every path."""

from __future__ import annotations

import ast

from ..dataflow import Defs
from ..model import FuncInfo, body_walk, dotted, full_walk, idents_in, norm, unparse
from ..report import RuleResult
from .common import cfg_of, need, site

PROP = "C03"

EXPLANATION = (
    "Decides the structural part of C03: when optimization settles on a block layout other than the advertised one, the "
    "two layout barriers restore it. R03.1 in _materialize every path that reaches the RootAlias pin has either seen "
    "_chunks_match(optimized, advertised) hold or has rebound the expression through .rechunk(<advertised chunks>), where "
    "the advertised chunks/name are captured from the raw expression before any rewrite; R03.2 the same shape in "
    "ChunksFreeze.lower_once for every value stored under its name; R03.3 the pin/override/freeze nodes advertise the "
    "wrapped/frozen chunks and alias same-coordinate keys over exactly that grid; R03.4 the collection's "
    "shape/chunks/dtype/numblocks/ndim delegate to the raw expression; R03.6 sibling agreement inside one node class: an operand that "
    "several members read only through sorted(...) (an unordered set of axes: ExpandDims.axes today, discovered on every run) is never "
    "consumed in its given order by another member - chunks, _layer, _meta and the rewrites must enumerate the axes alike; R03.7 the grid "
    "contract that lets a rewrite change an interior node's block structure only when nobody above observes it is transitive (a consumer "
    "holding a per-block literal is protected at any distance, not only as a direct dependent); R03.8 a _simplify_down rewrite, which "
    "cannot see consumers at all, hands back a replacement only under a chunks-equality guard or at a reviewed site; R03.10 every hand-built task "
    "whose kernel is a def of this package passes an argument list that def can bind (writer/reader agreement; sa/rules/taskarity.py), R03.11 the same for package kernels handed to "
    "blockwise()/elemwise()/map_blocks(). Per-operation chunk formulas, dtype inference "
    "and the sizes of computed blocks are arithmetic/values and are not decided."
)
ASSUMPTIONS = [
    "rechunk(chunks) produces blocks of exactly `chunks` (C14, not decided here)",
    "_chunks_match compares layouts element-wise (its body is checked to compare lengths and sizes, not evaluated)",
]
TRUSTED = ["CPython ast", "sa.cfg path queries (must-pass-through)", "sa.dataflow def-use"]


def _has_rechunk_to(value, target_names, module=None, depth=0):
    """value contains a call ``<x>.rechunk(T)`` with T one of target expressions - directly, or through a same-module
    helper every normal return of which rechunks to the parameter that the call binds to T (a wrapper: the bridge
    extracted into a private function is still the bridge)."""
    for n in ast.walk(value):
        if isinstance(n, ast.Call) and isinstance(n.func, ast.Attribute) and n.func.attr == "rechunk" and n.args:
            if unparse(n.args[0]) in target_names:
                return True
        if module is not None and depth < 2 and isinstance(n, ast.Call) and isinstance(n.func, ast.Name):
            g = module.functions.get(n.func.id)
            if g is None or g.cls is not None:
                continue
            pos = [a.arg for a in g.node.args.posonlyargs + g.node.args.args]
            bound = {pos[i] for i, a in enumerate(n.args) if i < len(pos) and not isinstance(a, ast.Starred) and unparse(a) in target_names}
            bound |= {k.arg for k in n.keywords if k.arg in pos and unparse(k.value) in target_names}
            if not bound:
                continue
            rets = [r for r in body_walk(g.node) if isinstance(r, ast.Return)]
            if rets and all(r.value is not None and _has_rechunk_to(r.value, bound, module, depth + 1) for r in rets):
                return True
    return False


def _match_edge(test):
    """For an ``if`` test built around _chunks_match(...): the edge label on which the layouts match."""
    t = test
    pol = True
    while isinstance(t, ast.UnaryOp) and isinstance(t.op, ast.Not):
        pol = not pol
        t = t.operand
    if isinstance(t, ast.Call) and (dotted(t.func) or "").endswith("_chunks_match"):
        return pol, t
    return None, None


def r03_1(ctx):
    rr = RuleResult(
        "R03.1", "PASS",
        "_materialize: every path to the RootAlias pin saw _chunks_match(optimized, advertised) or rebound expr via .rechunk(advertised)",
        min_instances=3,
    )
    f = ctx.repo.mod("dask_array._materialize").func("_materialize")
    cfg = cfg_of(ctx, f)
    pins = [s for s in cfg.stmts() if isinstance(s, (ast.Assign, ast.Return, ast.Expr)) and any(
        isinstance(c, ast.Call) and dotted(c.func) == "RootAlias" for c in ast.walk(s))]
    need(pins, "_materialize no longer constructs RootAlias")
    # advertised layout: a local bound to <param>.chunks before the parameter is rebound
    param = f.params[0]
    adv = None
    name_var = None
    for s in f.node.body:
        if isinstance(s, ast.Assign) and len(s.targets) == 1 and isinstance(s.targets[0], ast.Name):
            v = unparse(s.value)
            if v == f"{param}.chunks":
                adv = (s.targets[0].id, s)
            if v == f"{param}._name":
                name_var = (s.targets[0].id, s)
    need(adv is not None, "_materialize no longer captures the raw expression's chunks in a local")
    need(name_var is not None, "_materialize no longer captures the raw expression's _name in a local")
    rebinds = [s for s in cfg.stmts() if isinstance(s, ast.Assign) and any(isinstance(t, ast.Name) and t.id == param for t in s.targets)]
    # (a) the captures happen before any rebinding of the expression and are never reassigned
    for var, stmt in (adv, name_var):
        c = site(f, stmt)
        rr.inst(c, captures=var)
        for rb in rebinds:
            seen, _ = cfg.reachable(rb)
            if stmt in seen:
                ctx.finding(rr, c, f"'{var}' is captured after the expression was already rewritten ({norm(rb)}): it is no longer the advertised value", func=f, node=stmt)
        others = [s for s in cfg.stmts() if isinstance(s, (ast.Assign, ast.AugAssign)) and s is not stmt and any(
            isinstance(t, ast.Name) and t.id == var for t in (s.targets if isinstance(s, ast.Assign) else [s.target]))]
        for o in others:
            ctx.finding(rr, site(f, o), f"advertised '{var}' is reassigned", func=f, node=o)
    advn = adv[0]

    def blocked(n):
        return isinstance(n, ast.Assign) and any(isinstance(t, ast.Name) and t.id == param for t in n.targets) and _has_rechunk_to(n.value, {advn}, f.module)

    def blocked_edge(a, lbl, b):
        if isinstance(a, ast.If):
            pol, call = _match_edge(a.test)
            if pol is not None and lbl is pol:
                args = {unparse(x) for x in call.args}
                return args == {f"{param}.chunks", advn}
        return False

    for pin in pins:
        c = site(f, pin)
        call = next(c_ for c_ in ast.walk(pin) if isinstance(c_, ast.Call) and dotted(c_.func) == "RootAlias")
        rr.inst(c, pin_args=[unparse(a) for a in call.args])
        if len(call.args) >= 2 and unparse(call.args[1]) != name_var[0]:
            ctx.finding(rr, c, f"the pin is built with name {unparse(call.args[1])!r}, not the raw root name captured in '{name_var[0]}'", func=f, node=pin)
        p = cfg.path_avoiding(pin, blocked=blocked, blocked_edge=blocked_edge)
        if p is not None:
            ctx.finding(
                rr, c,
                "a path reaches the output-key pin with a block layout that was neither checked against nor rechunked to the advertised chunks",
                func=f, node=pin,
                path=[f"line {getattr(x, 'lineno', '?')}: {norm(x)}" for x in p if isinstance(x, ast.AST)],
            )
    # every normal return is either the pin, the untouched expression under an unchanged name, or an existing RootAlias
    for r in cfg.returns:
        rr.inst(site(f, r), guards=[(unparse(t), p) for t, p in cfg.guards(r)])
    return rr


def r03_2(ctx):
    rr = RuleResult(
        "R03.2", "PASS",
        "ChunksFreeze.lower_once: every value stored under the node's name is the settled child under a true "
        "_chunks_match(child.chunks, frozen) or the child rechunked to the frozen chunks",
        min_instances=2,
    )
    cls = ctx.repo.mod("dask_array._expr").cls("ChunksFreeze")
    f = cls.methods.get("lower_once")
    need(f is not None, "ChunksFreeze.lower_once")
    cfg = cfg_of(ctx, f)
    defs = Defs(f.node)
    stores = []
    for s in cfg.stmts():
        for n in ast.walk(s) if not isinstance(s, (ast.If, ast.While, ast.Try, ast.For, ast.With)) else []:
            if isinstance(n, ast.Call) and isinstance(n.func, ast.Attribute) and n.func.attr == "setdefault" and len(n.args) == 2:
                stores.append((s, n.args[0], n.args[1]))
        if isinstance(s, ast.Assign):
            for t in s.targets:
                if isinstance(t, ast.Subscript) and unparse(t.value) == "lowered":
                    stores.append((s, t.slice, s.value))
    need(stores, "ChunksFreeze.lower_once no longer stores into `lowered`")
    for s, key, val in stores:
        c = site(f, s)
        vtxt = unparse(val)
        rr.inst(c, key=unparse(key), value=vtxt)
        if unparse(key) != "self._name":
            ctx.finding(rr, c, "stored under a key other than self._name", func=f, node=s)
        vals = [val] + (defs.defs.get(val.id, []) if isinstance(val, ast.Name) else [])
        if any(_has_rechunk_to(v, {"self._chunks", "self.chunks"}) for v in vals):
            continue
        g = cfg.guards(s)
        ok = False
        for t, pol in g:
            p, call = _match_edge(t)
            if p is not None and pol is p:
                args = {unparse(x) for x in call.args}
                if args == {f"{vtxt}.chunks", "self._chunks"} or args == {f"{vtxt}.chunks", "self.chunks"}:
                    ok = True
        if not ok:
            ctx.finding(rr, c, f"'{vtxt}' is installed as this barrier's lowering without _chunks_match({vtxt}.chunks, self._chunks) holding and without a rechunk to the frozen chunks", func=f, node=s)
    # the child must be settled (lowered to a fixpoint) before its layout is compared
    from .common import with_helpers

    loops, direct = [], []
    for h in with_helpers(f, depth=1):  # the settle loop may live in a private method of the class
        loops += [n for n in body_walk(h.node) if isinstance(n, ast.While) and any(
            isinstance(c_, ast.Call) and isinstance(c_.func, ast.Attribute) and c_.func.attr in ("lower_once", "lower_completely") for c_ in ast.walk(n))]
        direct += [n for n in body_walk(h.node) if isinstance(n, ast.Call) and isinstance(n.func, ast.Attribute) and n.func.attr == "lower_completely"]
    settled = loops or direct
    rr.inst(f"{f.construct}::settles child before comparing", how=norm(settled[0]) if settled else None)
    if not settled:
        ctx.finding(rr, f"{f.construct}::settles child before comparing", "the frozen layout is compared against an unsettled (not fully lowered) child", func=f)
    return rr


def _single_return_expr(f):
    rets = [n for n in body_walk(f.node) if isinstance(n, ast.Return)]
    return [unparse(r.value) if r.value is not None else "None" for r in rets], rets


def r03_3(ctx):
    rr = RuleResult(
        "R03.3", "COVER",
        "RootAlias/ChunksOverride/ChunksFreeze advertise the wrapped/frozen chunks; the alias layers map (self._name,)+idx to "
        "(self.array._name,)+idx over exactly the advertised grid",
        min_instances=5,
    )
    m = ctx.repo.mod("dask_array._expr")
    want = {"RootAlias": {"self.array.chunks"}, "ChunksOverride": {"self._chunks"}, "ChunksFreeze": {"self._chunks"}}
    for cname, allowed in want.items():
        cls = m.cls(cname)
        ch = cls.methods.get("chunks")
        need(ch is not None, f"{cname}.chunks")
        vals, rets = _single_return_expr(ch)
        rr.inst(site(ch), returns=vals)
        for v, r in zip(vals, rets):
            if v not in allowed:
                ctx.finding(rr, site(ch, r), f"{cname}.chunks returns {v}, not {sorted(allowed)}", func=ch, node=r)
    for cname in ("RootAlias", "ChunksOverride"):
        cls = m.cls(cname)
        lay = cls.methods.get("_layer")
        need(lay is not None, f"{cname}._layer")
        defs = Defs(lay.node)
        aliases = [n for n in body_walk(lay.node) if isinstance(n, ast.Call) and (dotted(n.func) or "").endswith("Alias")]
        rr.inst(site(lay), alias_calls=len(aliases))
        if not aliases:
            ctx.finding(rr, site(lay), "no Alias task emitted", func=lay)
        loops = [n for n in body_walk(lay.node) if isinstance(n, (ast.For, ast.comprehension))]  # a dict comprehension iterates like the loop it replaces
        grid_ok = False
        for lp in loops:
            it = unparse(lp.iter)
            # the iteration space must be derived from this node's own advertised chunks
            src = it
            for nm in [n.id for n in ast.walk(lp.iter) if isinstance(n, ast.Name)]:
                for v in defs.defs.get(nm, []):
                    src += " " + unparse(v)
            if "product" in src and ("self.chunks" in src or "self._chunks" in src) and "len(" in src:
                grid_ok = True
                idx = unparse(lp.target)
        if not grid_ok:
            ctx.finding(rr, site(lay), "alias layer does not iterate product(range(len(c)) for c in <own chunks>)", func=lay)
            continue
        for a in aliases:
            if len(a.args) != 2:
                ctx.finding(rr, site(lay, a), "Alias(out_key, in_key) expected", func=lay, node=a)
                continue

            def key_shape(e):
                """(name expression text, index expression text) of a block key, or None."""
                vals = defs.defs.get(e.id, []) if isinstance(e, ast.Name) else [e]
                shapes = set()
                for v in vals:
                    if isinstance(v, ast.BinOp) and isinstance(v.op, ast.Add) and isinstance(v.left, ast.Tuple) and len(v.left.elts) == 1:
                        shapes.add((unparse(v.left.elts[0]), unparse(v.right)))
                    elif isinstance(v, ast.Tuple) and len(v.elts) == 2 and isinstance(v.elts[1], ast.Starred):
                        shapes.add((unparse(v.elts[0]), unparse(v.elts[1].value)))
                    else:
                        shapes.add((None, unparse(v)))
                return shapes

            out, inn = key_shape(a.args[0]), key_shape(a.args[1])
            ok_out = out == {("self._name", idx)}
            ok_in = inn == {("self.array._name", idx)}
            if not (ok_out and ok_in):
                ctx.finding(rr, site(lay, a), f"alias does not map (self._name,)+{idx} -> (self.array._name,)+{idx}: out={out} in={inn}", func=lay, node=a)
    return rr


def r03_4(ctx):
    rr = RuleResult("R03.4", "COVER", "Array.shape/chunks/dtype/numblocks/ndim/_meta delegate to the raw expression (self.expr)", min_instances=5)
    arr = ctx.repo.mod("dask_array._collection").cls("Array")
    for p in ("shape", "chunks", "dtype", "numblocks", "ndim", "_meta", "size"):
        f = arr.methods.get(p)
        need(f is not None, f"Array.{p}")
        vals, rets = _single_return_expr(f)
        rr.inst(site(f), returns=vals)
        for v, r in zip(vals, rets):
            if v not in (f"self.expr.{p}", f"self._expr.{p}"):
                ctx.finding(rr, site(f, r), f"Array.{p} returns {v} instead of the raw expression's advertised {p}", func=f, node=r)
    return rr


APPROXIMATE = {"allclose", "isclose", "approx", "round", "around", "floor", "ceil", "rint", "trunc", "array_equiv", "assert_allclose"}


def r03_5(ctx):
    rr = RuleResult("R03.5", "COVER", "the layout-equality test behind both barriers (_chunks_match) is exact: sizes are compared only with ==/!=/is and isnan, never with a tolerance, rounding or an order comparison", min_instances=1)
    repo = ctx.repo
    f = repo.mod("dask_array._expr").functions.get("_chunks_match")
    need(f is not None, "dask_array/_expr.py::_chunks_match")
    bad = []
    for n in ast.walk(f.node):
        if isinstance(n, ast.Call):
            tail = (dotted(n.func) or "").rsplit(".", 1)[-1]
            if tail in APPROXIMATE:
                bad.append((n, f"calls {dotted(n.func)}(...)"))
        if isinstance(n, ast.Compare) and any(isinstance(op, (ast.Lt, ast.LtE, ast.Gt, ast.GtE)) for op in n.ops):
            bad.append((n, f"order comparison `{unparse(n)[:50]}`"))
    # callers: both barriers decide with it
    users = [g.qualname for g in repo.all_functions() if any(isinstance(c, ast.Call) and dotted(c.func) == "_chunks_match" for c in ast.walk(g.node)) and g is not f]
    rr.inst(f.construct, approximate_constructs=len(bad), used_by=sorted(users))
    for n, what in bad:
        ctx.finding(
            rr, site(f, n)[:160],
            f"_chunks_match {what}: two layouts that differ by a few elements in large chunks would count as equal, the bridge back to the advertised chunks is skipped, and blocks of the "
            f"optimizer's layout are published under the advertised keys",
            func=f, node=n,
        )
    return rr


ORDER_NORMALISERS = ("sorted",)


def r03_6(ctx):
    rr = RuleResult(
        "R03.6", "COVER",
        "sibling agreement on operand order: when several members of an expression class read an operand only through sorted(...) (the operand is an unordered set of axes), every member that consumes its elements in order does - otherwise the advertised chunks and the produced blocks enumerate the axes differently",
        min_instances=1,
    )
    repo = ctx.repo
    for ci in repo.expr_classes():
        if not ci.module.is_unit:
            continue
        normalised, ordered = {}, {}
        # a property that returns the operand sorted (``tuple(sorted(self.axes))``) is a normalising reader; members that
        # go through it read the operand normalised
        via_prop = {}
        for mname, f in ci.methods.items():
            if f.kind in ("property", "cached_property"):
                body = [b for b in f.node.body if not (isinstance(b, ast.Expr) and isinstance(b.value, ast.Constant))]
                if len(body) == 1 and isinstance(body[0], ast.Return) and body[0].value is not None:
                    for x in ast.walk(body[0].value):
                        if isinstance(x, ast.Call) and isinstance(x.func, ast.Name) and x.func.id in ORDER_NORMALISERS and x.args and isinstance(x.args[0], ast.Attribute) and unparse(x.args[0].value) == "self":
                            via_prop[mname] = x.args[0].attr
        for mname, f in ci.methods.items():
            parent = {}
            for p in ast.walk(f.node):
                for ch in ast.iter_child_nodes(p):
                    parent[ch] = p
            # locals that are plain aliases of self.<operand>
            alias = {}
            for n in ast.walk(f.node):
                if isinstance(n, ast.Assign) and len(n.targets) == 1 and isinstance(n.targets[0], ast.Name):
                    v = n.value
                    if isinstance(v, ast.Attribute) and isinstance(v.value, ast.Name) and v.value.id == "self":
                        alias[n.targets[0].id] = v.attr
                    elif isinstance(v, ast.Call) and unparse(v.func) == "self.operand" and v.args and isinstance(v.args[0], ast.Constant):
                        alias[n.targets[0].id] = v.args[0].value

            def operand_of(e):
                if isinstance(e, ast.Attribute) and isinstance(e.value, ast.Name) and e.value.id == "self":
                    return e.attr
                if isinstance(e, ast.Call) and unparse(e.func) == "self.operand" and e.args and isinstance(e.args[0], ast.Constant):
                    return e.args[0].value
                if isinstance(e, ast.Name) and e.id in alias:
                    return alias[e.id]
                return None

            for n in ast.walk(f.node):
                if isinstance(n, ast.Attribute) and isinstance(n.value, ast.Name) and n.value.id == "self" and n.attr in via_prop and mname != n.attr:
                    normalised.setdefault(via_prop[n.attr], {}).setdefault(mname, n)
                    continue
                op = operand_of(n) if isinstance(n, (ast.Attribute, ast.Call, ast.Name)) else None
                if op is None or (isinstance(n, ast.Name) and isinstance(n.ctx, ast.Store)):
                    continue
                up = parent.get(n)
                if isinstance(up, ast.Assign) and n is up.value:
                    continue  # the aliasing assignment itself
                if isinstance(up, ast.Call) and isinstance(up.func, ast.Name) and up.func.id in ORDER_NORMALISERS and up.args and up.args[0] is n:
                    normalised.setdefault(op, {}).setdefault(mname, n)
                    continue
                in_order = (
                    (isinstance(up, (ast.For, ast.comprehension)) and up.iter is n)
                    or (isinstance(up, ast.Call) and isinstance(up.func, ast.Name) and up.func.id in ("enumerate", "zip", "list", "tuple", "reversed", "iter") and n in up.args)
                    or (isinstance(up, ast.Subscript) and up.value is n)
                    or (isinstance(up, ast.Starred))
                )
                if in_order:
                    ordered.setdefault(op, {}).setdefault(mname, (f, n))
        for op, members in sorted(normalised.items()):
            if len(members) < 2:
                continue
            raw = ordered.get(op, {})
            c = f"{ci.construct}::{op}"
            rr.inst(c, normalised_in=sorted(members), consumed_in_given_order_in=sorted(raw))
            for mname, (f, n) in sorted(raw.items()):
                ctx.finding(
                    rr, f"{c}::{mname}",
                    f"{ci.name}.{mname} consumes the elements of `{op}` in the order given, while {sorted(members)} read it through sorted(...): the members no longer agree on which axis comes first, so the layout one of them advertises is not the layout another produces",
                    func=f, node=n,
                )
    need(rr.instances, "an expression class that normalises an operand with sorted() in several members (ExpandDims.axes)")
    return rr


def r03_7(ctx):
    rr = RuleResult(
        "R03.7", "PASS",
        "the grid contract is transitive: ArrayExpr._has_grid_sensitive_dependent asks the question again for every dependent that does not itself observe the grid (an elementwise op, a slice, a transpose pass their input's block grid on to whoever holds a per-block literal above them)",
        min_instances=2,
    )
    ae = ctx.repo.mod("dask_array._expr").cls("ArrayExpr")
    f = ae.methods.get("_has_grid_sensitive_dependent")
    need(f is not None, "ArrayExpr._has_grid_sensitive_dependent")
    # the loop over the direct dependents
    loops = [n for n in body_walk(f.node) if isinstance(n, (ast.For, ast.While))]
    need(loops, "the loop over dependents in _has_grid_sensitive_dependent")
    direct = [c for c in ast.walk(f.node) if isinstance(c, ast.Call) and ("requires" in unparse(c.func) or "_requires_grid_preservation" in unparse(c.func)) and c.args]
    rr.inst(site(f) + "::direct observers", asked=bool(direct))
    if not direct:
        ctx.finding(rr, site(f) + "::direct observers", "_has_grid_sensitive_dependent no longer asks a dependent whether it observes the grid (_requires_grid_preservation)", func=f)
    # transitivity: a self-recursive call on the dependent node, or a worklist that receives it
    node_names = set()
    for lp in loops:
        if isinstance(lp, ast.For):
            node_names |= {x.id for x in ast.walk(lp.target) if isinstance(x, ast.Name)}
        for s_ in ast.walk(lp):
            if isinstance(s_, ast.Assign) and isinstance(s_.value, ast.Call) and not s_.value.args and len(s_.targets) == 1 and isinstance(s_.targets[0], ast.Name):
                node_names.add(s_.targets[0].id)  # node = ref()
    rec = [c for c in ast.walk(f.node) if isinstance(c, ast.Call) and unparse(c.func).endswith("_has_grid_sensitive_dependent") and c.args and isinstance(c.args[0], ast.Name) and c.args[0].id in node_names]
    work = [c for lp in loops if isinstance(lp, ast.While) for c in ast.walk(lp) if isinstance(c, ast.Call) and isinstance(c.func, ast.Attribute) and c.func.attr in ("append", "extend", "add", "appendleft") and any(isinstance(x, ast.Name) and x.id in node_names for a in c.args for x in ast.walk(a))]
    rr.inst(site(f) + "::transitive", recursive_calls=len(rec), worklist_pushes=len(work))
    if not rec and not work:
        ctx.finding(
            rr, site(f) + "::transitive",
            "_has_grid_sensitive_dependent looks at direct dependents only: a consumer that holds a per-block literal (map_blocks(chunks=...), repeat, block_info payloads) two or more nodes above a rewrite is not seen, "
            "the rewrite changes the block structure underneath it, and a computable program raises at optimization (e.g. da.repeat(abs(da.take(x + y, ix)), 2) with x and y chunked differently)",
            func=f,
        )
    for c in rec:
        # the recursive answer must be able to make the result True
        st = c
        par = {}
        for p_ in ast.walk(f.node):
            for ch in ast.iter_child_nodes(p_):
                par[ch] = p_
        while st in par and not isinstance(st, ast.stmt):
            st = par[st]
        ok = isinstance(st, ast.If) and any(isinstance(r, ast.Return) and isinstance(r.value, ast.Constant) and r.value.value is True for r in ast.walk(st)) or (isinstance(st, ast.Return))
        if not ok:
            ctx.finding(rr, site(f, st)[:170], "the recursive grid-sensitivity answer is computed but does not decide the result", func=f, node=st)
    return rr


# _simplify_down rewrites cannot see who consumes the node they replace: (class, what is returned) -> why the replacement
# advertises the same block grid.  Reviewed by reading; anything not listed must carry a chunks-equality guard.
SIMPLIFY_DOWN_REVIEWED = {
    ("MapOverlap", "self._native_moving_window"): "MapOverlap.chunks returns the replacement's own chunks whenever the replacement exists (`if self._native_moving_window is not None: return self._native_moving_window.chunks`); probed with bottleneck.move_sum over 15 chunk/window combinations under repeat / .blocks / map_blocks(chunks=) consumers",
    ("FromDelayed", "FromMap"): "the FromMap is built with chunks=self.chunks verbatim",
    ("ExpandDims", "FromMap"): "the chunks handed to FromMap are the child's with (1,) inserted at the sorted axes - the construction ExpandDims.chunks itself uses (order agreement: R03.6)",
    ("Transpose", "Transpose"): "Transpose(Transpose(x)) -> one Transpose with the composed permutation: the same source chunks permuted the same way",
    ("Transpose", "self.array"): "identity permutation: the operand itself",
    ("Transpose", "self._pushdown_through_elemwise"): "every operand is transposed and the same Elemwise rebuilt; unification works per axis label, so the unified layout of the transposed operands is the transposed unified layout (probed over 75 chunk / policy combinations under grid consumers)",
    ("SliceSlicesIntegers", "self.array"): "identity slice (every axis a full slice): the operand itself",
    ("Concatenate", "_merge_from_maps"): "merges FromMap pieces into one FromMap whose block grid is the pieces' grids laid side by side along the axis - what Concatenate.chunks advertises for them",
    ("Stack", "_merge_from_maps"): "as for Concatenate, with the new axis of one block per piece that Stack.chunks advertises",
}


def r03_8(ctx):
    rr = RuleResult(
        "R03.8", "GUARD",
        "a _simplify_down rewrite (which cannot see the node's consumers) hands back a replacement only under a condition that compares its chunks with the chunks the node advertises, or at a reviewed site where the grids agree by construction",
        min_instances=8,
    )
    from .common import chain_conjuncts

    repo = ctx.repo
    for c in repo.expr_classes():
        f = c.methods.get("_simplify_down")
        if f is None or not c.module.is_unit:
            continue
        cfg = cfg_of(ctx, f)
        for r in cfg.returns:
            v = r.value
            if v is None or (isinstance(v, ast.Constant) and v.value is None):
                continue
            what = unparse(v.func) if isinstance(v, ast.Call) else unparse(v)
            cst = f"{c.construct}::_simplify_down::return {what}"
            conj = chain_conjuncts(cfg, r, f.node, f.module)
            guarded = any("chunks" in x and ("==" in x or "_same_grid(" in x or "_chunks_match(" in x) and "self.chunks" in x.replace(" ", "") or ("chunks" in x and "self.array.chunks" in x and "==" in x) for x in conj)
            rr.inst(cst, chunks_guard=guarded, reviewed=(c.name, what) in SIMPLIFY_DOWN_REVIEWED)
            if guarded:
                continue
            if (c.name, what) in SIMPLIFY_DOWN_REVIEWED:
                rr.exempt(cst, SIMPLIFY_DOWN_REVIEWED[(c.name, what)])
                continue
            ctx.finding(
                rr, cst,
                f"{c.name}._simplify_down returns {what} without checking that it advertises the chunks the node advertised: the rewrite cannot see its consumers, so one holding a per-block literal "
                "(map_blocks(chunks=...), repeat, .blocks) is handed another block grid (e.g. two fused strided slices keep a block the outer slice dropped) and raises while the program is optimized",
                func=f, node=r,
            )
    return rr


def r03_9(ctx):
    rr = RuleResult(
        "R03.9", "PASS",
        "a weighted Reduction produces the block grid it advertises (x's): reduction() puts the weights on x's grid before the node is built and the lowering pairs blocks without re-unifying",
        min_instances=1,
    )
    from .c09 import reduction_lowering_aligned

    ok, why = reduction_lowering_aligned(ctx)
    m = ctx.repo.mod("dask_array.reductions._reduction")
    f = m.functions.get("reduction")
    need(f is not None, "dask_array/reductions/_reduction.py::reduction")
    c = f.construct + "::weights on x's grid"
    rr.inst(c, aligned=ok, how=why)
    if not ok:
        ctx.finding(rr, c, why + ": Reduction.chunks advertises x's chunks, but lowering then unifies x with differently chunked weights into another grid - a consumer holding a per-block literal (repeat, .blocks, map_blocks(chunks=...)) raises while the program is optimized", func=f)
    return rr


def r03_10(ctx):
    from .taskarity import task_arity_rule

    return task_arity_rule(
        ctx, "R03.10",
        "writer/reader agreement between every hand-built task and its kernel: a task Task(key, f, a1..an, k=v) (or a legacy "
        "(f, a1..an) graph value) whose callee resolves to a def in this package (or to an operator.* function) passes a number of "
        "positional arguments and keyword names the def can bind - otherwise the block the node advertises is never produced (TypeError on every execution)",
        in_scope=lambda rel: rel.startswith("dask_array/") and "/tests/" not in rel,
        min_decided=50,
        consequence="every execution of that task raises TypeError, so the advertised block is never produced",
    )


def r03_11(ctx):
    from .taskarity import wrapper_arity_rule

    return wrapper_arity_rule(
        ctx, "R03.11",
        "a package kernel handed to blockwise()/elemwise()/map_blocks() can bind what those wrappers call it with: one positional block "
        "per array operand ((array, index) pair for blockwise) plus every keyword the wrapper does not consume itself (block_info/block_id "
        "are supplied by map_blocks when the kernel names them)",
        min_decided=15,
        consequence="every block task of the node raises TypeError",
    )


def r03_12(ctx):
    rr = RuleResult(
        "R03.12", "GUARD",
        "a node that advertises UNKNOWN chunk sizes is protected by the grid contract: _materialize cannot restore an unknown layout by a rechunk (it raises), so the default answer "
        "ArrayExpr._requires_grid_preservation tests the node's own chunks for NaN, and every class whose own chunks property manufactures NaN sizes resolves the question to that "
        "default or to its own `return True`",
        min_instances=4,
    )
    repo = ctx.repo
    base = repo.mod("dask_array._expr").cls("ArrayExpr")
    f = base.methods.get("_requires_grid_preservation")
    need(f is not None, "ArrayExpr._requires_grid_preservation")

    def nan_test_on_own_chunks(fn):
        for n in full_walk(fn):
            if isinstance(n, (ast.GeneratorExp, ast.ListComp)) and any("self.chunks" in unparse(g.iter) for g in n.generators):
                for m in ast.walk(n.elt):
                    if isinstance(m, ast.Compare) and len(m.ops) == 1 and isinstance(m.ops[0], ast.NotEq) and unparse(m.left) == unparse(m.comparators[0]):
                        return True
                    if isinstance(m, ast.Call) and (dotted(m.func) or "").rsplit(".", 1)[-1] == "isnan":
                        return True
        return False

    ok = nan_test_on_own_chunks(f.node)
    rr.inst(site(f), tests_own_chunks_for_nan=ok)
    if not ok:
        ctx.finding(
            rr, site(f),
            "the default _requires_grid_preservation does not look at the node's own chunks: a node of unknown chunk sizes (d[d > c], unique, a QR stage) lets a rewrite below change the number of "
            "blocks it was built over, and _materialize then raises 'optimization changed the block structure ... and the advertised chunks are unknown' - d[d > 10].compute() on a rolling sum "
            "d = sliding_window_view(x, 12).sum(-1) failed",
            func=f,
        )
    # the guard this contract answers to: _materialize refuses to bridge an unknown layout
    mat = repo.mod("dask_array._materialize").func("_materialize")
    from .common import with_helpers

    refuses = any(any(isinstance(n, ast.Raise) for n in body_walk(h.node)) and "isnan" in unparse(h.node) for h in with_helpers(mat, depth=2))
    rr.inst(site(mat) + "::unknown layout is not bridged", present=refuses)  # informative: R03.1 owns that path
    for c in repo.expr_classes():
        if not c.module.is_unit:
            continue
        g = c.methods.get("chunks")
        if g is None or "nan" not in unparse(g.node):
            continue
        hit = repo.class_attr(c, "_requires_grid_preservation")
        owner = hit[0] if hit else None
        rets = [unparse(r.value) for r in body_walk(hit[1].node) if isinstance(r, ast.Return) and r.value is not None] if hit and isinstance(hit[1], FuncInfo) else []
        cst = f"{c.construct}::chunks manufactures nan"
        rr.inst(cst, answered_by=owner.name if owner else None)
        if owner is not None and (owner.fq == base.fq or rets == ["True"]):
            continue
        ctx.finding(rr, cst, f"{c.name} builds unknown chunk sizes but answers the grid contract through {owner.name if owner else 'nothing'} ({rets}), which neither tests for NaN nor says True", file=c.module.path, line=c.node.lineno)
    return rr


# node classes built under a condition on their input's grid whose layer re-plans from the input's CURRENT chunks (or that are barriers)
GRID_GUARDED_REVIEWED = {
    "Rechunk": "the condition only decides whether a rechunk is needed at all; the node's target is a literal and its plan is computed from the input's current chunks at lowering",
    "TasksRechunk": "as Rechunk (built by Rechunk._lower / P2PRechunk from the input's chunks at that moment, after simplification of the input has settled inside lower_once)",
    "P2PRechunk": "as Rechunk",
    "Reshape": "Reshape recomputes its in/out chunk plan from the input's current chunks (the single-partition sibling ReshapeLowered is not exempt: R04.12)",
    "ChunksFreeze": "a layout barrier: it restores the frozen chunks by a rechunk whatever arrives (R03.2)",
}


def r03_13(ctx):
    rr = RuleResult(
        "R03.13", "GUARD",
        "a node class that is built only under a condition on the block grid of the expression that becomes its input (a precondition of the node's algorithm: "
        "`supports_native_sliding_window(x.chunks[axis], w)`, `len(x.chunks[1]) == 1`) declares that it observes that grid - the precondition was established once, "
        "at construction, and a rewrite below may invalidate it",
        min_instances=6,
    )
    from ..cfg import CFG, stmt_of
    from ..dataflow import Defs
    from ..refguards import _inline
    from .common import chain_conjuncts

    repo = ctx.repo
    expr_cls = {c.fq: c for c in repo.expr_classes() if c.module.is_unit}
    seen = {}
    for f in repo.all_functions():
        if "/tests/" in f.module.relpath or f.parent is not None:
            continue
        cfg = None
        defs = None
        for n in body_walk(f.node):
            if not (isinstance(n, ast.Call) and isinstance(n.func, (ast.Name, ast.Attribute)) and n.args and not isinstance(n.args[0], ast.Starred)):
                continue
            r = repo.resolve_expr(n.func, f.module, f)
            if not (r and r[0] == "class" and r[1].fq in expr_cls):
                continue
            if cfg is None:
                cfg, defs = CFG(f.node), Defs(f.node)
            st = stmt_of(cfg, n)
            if st is None:
                continue
            texts = {unparse(n.args[0]), unparse(_inline(n.args[0], defs, module=f.module))}
            conj = chain_conjuncts(cfg, st, f.node, f.module)
            hits = sorted(c for c in conj if any((t + ".chunks") in c or (t + ".numblocks") in c for t in texts))
            if hits:
                seen.setdefault(r[1].fq, []).append((f, n, hits[0]))
    for fq, sites in sorted(seen.items()):
        c = expr_cls[fq]
        f, n, cond = sites[0]
        cst = f"{c.construct}::built under a condition on its input's grid"
        hit = repo.class_attr(c, "_requires_grid_preservation")
        rets = [unparse(x.value) for x in body_walk(hit[1].node) if isinstance(x, ast.Return) and x.value is not None] if hit and isinstance(hit[1], FuncInfo) else []
        rr.inst(cst, sites=[s_[0].construct for s_ in sites][:3], condition=cond[:90], answered_by=hit[0].name if hit else None)
        if rets == ["True"]:
            continue
        if c.name in GRID_GUARDED_REVIEWED:
            rr.exempt(cst, GRID_GUARDED_REVIEWED[c.name])
            continue
        ctx.finding(
            rr, cst,
            f"{c.name} is built in {f.qualname} only when `{cond[:80]}` holds for its input, but does not declare _requires_grid_preservation: the rolling sum of a column of a rolling sum, "
            f"sliding_window_view(s[:, 0], 3).sum(-1) with s = sliding_window_view(x, 3, axis=-1).sum(-1), SILENTLY computed window + block total - the banded kernel had been chosen for s's advertised "
            f"chunks (2, 2, 2) and ran on the single block s was later fused to",
            func=f, node=n,
        )
    return rr


def r03_14(ctx):
    rr = RuleResult(
        "R03.14", "GUARD",
        "check at use, not only at choice: a node class that is built only when a NAMED predicate accepts its input's chunks (supports_native_sliding_window, "
        "supports_native_moving_window) calls the same predicate on its own input's chunks again when it is lowered - rewrites of one simplify pass share a dependents map "
        "taken at the start of the pass, so a node created in that pass is invisible to the grid contract until the next one",
        min_instances=2,
    )
    from ..cfg import CFG, stmt_of
    from ..dataflow import Defs
    from ..refguards import _inline

    repo = ctx.repo
    expr_cls = {c.fq: c for c in repo.expr_classes() if c.module.is_unit}
    found = {}
    for f in repo.all_functions():
        if "/tests/" in f.module.relpath or f.parent is not None:
            continue
        cfg = None
        for n in body_walk(f.node):
            if not (isinstance(n, ast.Call) and isinstance(n.func, (ast.Name, ast.Attribute)) and n.args and not isinstance(n.args[0], ast.Starred)):
                continue
            r = repo.resolve_expr(n.func, f.module, f)
            if not (r and r[0] == "class" and r[1].fq in expr_cls):
                continue
            if cfg is None:
                cfg, defs = CFG(f.node), Defs(f.node)
            st = stmt_of(cfg, n)
            if st is None:
                continue
            texts = {unparse(n.args[0]), unparse(_inline(n.args[0], defs, module=f.module))}
            from ..refguards import _conjuncts, _nnf

            for t, pol in cfg.guards(st):
                for m in _conjuncts(_nnf(_inline(t, defs, module=f.module), pol)):
                    # a positive literal that IS a predicate call on the input's chunks: P(<input>.chunks[...], ...)
                    if isinstance(m, ast.Call) and isinstance(m.func, ast.Name) and m.args and any((tx + ".chunks") in unparse(m.args[0]) for tx in texts):
                        pr = repo.resolve_name(m.func.id, f.module, f)
                        if pr and pr[0] == "func" and pr[1].module.is_unit:
                            found.setdefault(r[1].fq, set()).add(pr[1].name)
    for fq, preds in sorted(found.items()):
        c = expr_cls[fq]
        for pred in sorted(preds):
            cst = f"{c.construct}::precondition {pred}"
            rechecks = []
            for mname in ("_lower", "_layer", "lower_once"):
                g = c.methods.get(mname)
                if g is None:
                    continue
                gdefs = Defs(g.node)
                for m in full_walk(g.node):
                    if isinstance(m, ast.Call) and isinstance(m.func, ast.Name) and m.func.id == pred and m.args:
                        a0 = unparse(_inline(m.args[0], gdefs, module=g.module))
                        if "self." in a0 and ".chunks" in a0:
                            rechecks.append(mname)
            rr.inst(cst, rechecked_in=sorted(set(rechecks)))
            if not rechecks:
                ctx.finding(
                    rr, cst,
                    f"{c.name} is chosen when {pred}(<input>.chunks, ...) holds but never asks again: the predicate is the validity condition of its kernel (the banded decomposition double-counts a block "
                    f"longer than the window), and the input's grid can change between the choice and the lowering - a rolling sum of a row of tensordot(s, s) with s itself a rolling sum was silently wrong",
                    file=c.module.path, line=c.node.lineno,
                )
    return rr


def _replacements_inherit_consumers(func_node, callee_touches_dependents=None):
    """In a simplify driver: every ``expr = out`` that puts a rewrite's result in place of the node being simplified is
    directly preceded (same block) by a statement that hands the old node's recorded consumers to the new one - a call
    ``f(expr, out)`` of a local helper that writes ``dependents[<new>._name]`` from ``dependents...(<old>._name)``, or
    such a write inline.  Returns (number of replacement assignments, number of them that inherit)."""
    helpers = set()
    for n in ast.walk(func_node):
        if isinstance(n, ast.FunctionDef) and n is not func_node and len(n.args.args) == 2:
            old, new = n.args.args[0].arg, n.args.args[1].arg
            txt = unparse(n)
            if f"dependents[{new}._name]" in txt and f"{old}._name" in txt:
                helpers.add(n.name)
    # names that hold a rewrite's answer: ``out = expr._simplify_down()`` / ``out = child._simplify_up(expr, dependents)``
    results = set()
    for n in ast.walk(func_node):
        if isinstance(n, ast.Assign) and len(n.targets) == 1 and isinstance(n.targets[0], ast.Name) and isinstance(n.value, ast.Call) and isinstance(n.value.func, ast.Attribute) and n.value.func.attr in ("_simplify_down", "_simplify_up"):
            results.add(n.targets[0].id)
    total = ok = 0
    for blk in ast.walk(func_node):
        for seq in [getattr(blk, "body", None), getattr(blk, "orelse", None)]:
            if not isinstance(seq, list):
                continue
            for i, st in enumerate(seq):
                if isinstance(st, ast.Assign) and len(st.targets) == 1 and isinstance(st.targets[0], ast.Name) and isinstance(st.value, ast.Name) and st.value.id in results and st.targets[0].id not in results:
                    cur, res = st.targets[0].id, st.value.id
                    total += 1
                    prev = seq[i - 1] if i > 0 else None
                    if prev is not None:
                        t = unparse(prev)
                        if any(t.startswith(f"{h}({cur}, {res})") for h in helpers) or (f"dependents[{res}._name]" in t and f"{cur}._name" in t):
                            ok += 1
                        elif isinstance(prev, ast.Expr) and isinstance(prev.value, ast.Call):
                            # the hand-over extracted into a method / module helper: a call that receives both nodes (and the map)
                            names = {a.id for a in prev.value.args if isinstance(a, ast.Name)} | {k.value.id for k in prev.value.keywords if isinstance(k.value, ast.Name)}
                            if {cur, res} <= names and "dependents" in names | {"dependents"} and callee_touches_dependents is not None and callee_touches_dependents(prev.value):
                                ok += 1
    return total, ok


def r03_15(ctx):
    rr = RuleResult(
        "R03.15", "PASS",
        "writer/reader agreement on the dependents map the grid contract reads: the simplify driver hands the recorded consumers of a node to the node a rewrite puts in its place "
        "(the map is collected once per pass while rewrites keep descending within the pass; without the hand-over a gate asked about a just-created node sees no consumers)",
        min_instances=2,
    )
    repo = ctx.repo
    base = repo.mod("dask_array._expr").cls("ArrayExpr")
    reader = base.methods.get("_has_grid_sensitive_dependent")
    reads = reader is not None and any(
        (isinstance(n, ast.Call) and isinstance(n.func, ast.Attribute) and n.func.attr == "get" and isinstance(n.func.value, ast.Name) and n.func.value.id == "dependents")
        or (isinstance(n, ast.Subscript) and isinstance(n.value, ast.Name) and n.value.id == "dependents")
        for n in full_walk(reader.node)
    )
    need(reads, "the grid contract looks nodes up in the dependents map")
    rr.inst(site(reader), reads="dependents[<node>._name]")
    f = base.methods.get("simplify_once")
    if f is not None:
        def touches(call, f=f):
            g = None
            if isinstance(call.func, ast.Attribute) and isinstance(call.func.value, ast.Name) and call.func.value.id == "self":
                hit = repo.class_attr(base, call.func.attr)
                g = hit[1] if hit and isinstance(hit[1], FuncInfo) else None
            elif isinstance(call.func, ast.Name):
                r = repo.resolve_name(call.func.id, f.module, f)
                g = r[1] if r and r[0] == "func" else None
            return g is not None and any(isinstance(n, ast.Subscript) and isinstance(n.value, ast.Name) and n.value.id == "dependents" for n in full_walk(g.node))

        total, ok = _replacements_inherit_consumers(f.node, touches)
        cst = site(f)
        rr.inst(cst, replacement_assignments=total, inheriting=ok, driver="dask_array override")
        if total < 2 or ok != total:
            ctx.finding(rr, cst, f"ArrayExpr.simplify_once puts a rewrite's result in place of the node {total} time(s) but hands over the consumers only {ok} time(s)", func=f)
        return rr
    up = repo.module("dask._expr")
    need(up is not None and "Expr" in up.classes and "simplify_once" in up.classes["Expr"].methods, "dask._expr.Expr.simplify_once (the driver in use)")
    g = up.classes["Expr"].methods["simplify_once"]
    total, ok = _replacements_inherit_consumers(g.node)
    cst = "dask/_expr.py::Expr.simplify_once (inherited by ArrayExpr)"
    rr.inst(cst, replacement_assignments=total, inheriting=ok, driver="upstream")
    if total < 2 or ok != total:
        ctx.finding(
            rr, cst,
            f"the simplify driver ArrayExpr inherits replaces the node being simplified {total} time(s) (after _simplify_down, after a child's _simplify_up) and never records who consumes the "
            f"replacement: _has_grid_sensitive_dependent then finds no consumers for a node created earlier in the same pass and lets a grid-changing pushdown through under a per-block literal - "
            f"da.repeat((d[1:] - d[:-1])[:, None], 2, axis=0) raised 'Dimension 0 has 2 blocks, adjust_chunks specified with 1 blocks' (the piece slice went through ExpandDims, was fused with an identity slice by a "
            f"_simplify_down, and the fused node's consumers were unknown)",
            file=up.path, line=g.node.lineno,
        )
    return rr


RULES = [r03_1, r03_2, r03_3, r03_4, r03_5, r03_6, r03_7, r03_8, r03_9, r03_10, r03_11, r03_12, r03_13, r03_14, r03_15]

LEVEL_TEXT = (
    "Static decision of the layout-barrier clause of C03 ('even when optimization internally chose a different block "
    "layout'): CFG must-pass-through over _materialize and ChunksFreeze.lower_once showing that the advertised chunks - "
    "captured from the raw expression before any rewrite - are either matched or restored by a rechunk on every path to "
    "the output-key pin / barrier result, plus coverage checks of the alias layers and of the collection's metadata "
    "delegation; the grid contract's transitivity and the chunks-equality guard of consumer-blind rewrites; writer/reader agreement between every "
    "hand-built task (and blockwise-family kernel call) and the def of its kernel. Per-operation chunk formulas and block sizes at run "
    "time are arithmetic and not decided."
)
LEVEL_NOTE = (
    "Trusted: CPython ast, the engine's CFG (statement-level, exceptional edges for try/finally) and def-use. Assumes "
    "rechunk(chunks) yields exactly `chunks` and _chunks_match is an element-wise comparison."
)
TECHNIQUE = "static analysis: CFG must-pass-through / guard-chain rules on the two layout barriers + def-use coverage of alias layers (ast)"

import numpy as np, random, warnings, sys, threading, tempfile, os
warnings.simplefilter("ignore")
import dask_array as da
seed=int(sys.argv[1]) if len(sys.argv)>1 else 0
random.seed(seed); bad=0
def rch(n): return random.choice([1,2,3,n,(n-1,1) if n>1 else n])
class Src:
    """array-like without fancy indexing, counts reads"""
    def __init__(self,a): self.a=a; self.shape=a.shape; self.dtype=a.dtype; self.ndim=a.ndim; self.reads=[]
    def __getitem__(self,k):
        self.reads.append(k)
        if not isinstance(k,tuple): k=(k,)
        for i in k:
            if isinstance(i,(list,np.ndarray)): raise TypeError("no fancy")
        return self.a[k]
class Tgt:
    def __init__(self,shape): self.a=np.full(shape,-1.0); self.shape=shape; self.writes=[]
    def __setitem__(self,k,v): self.writes.append(k); self.a[k]=v
def rslice(s): return random.choice([slice(None), slice(1,None), slice(None,-1), slice(None,None,2), slice(None,None,-1), slice(1,2)])
for p in range(int(sys.argv[2]) if len(sys.argv)>2 else 300):
    n,m=random.choice([(6,4),(4,6),(5,3)])
    a=np.arange(float(n*m)).reshape(n,m)
    kind=random.choice(['src','src_lock','src_getitem','np','store','store_region','store_multi','npy_stack','src_nofancy'])
    log=[kind]
    try:
        if kind in('src','src_lock','src_getitem','np','src_nofancy'):
            src=Src(a) if kind!='np' else a
            kw={}
            if kind=='src_lock': kw['lock']=random.choice([True, threading.Lock()])
            if kind=='src_getitem': kw['getitem']=lambda arr,idx: arr[idx]
            if kind=='src_nofancy': kw['fancy']=False
            if random.random()<0.3: kw['asarray']=random.choice([True,False]) if kind!='np' else True
            if random.random()<0.3: kw['inline_array']=True
            x=da.from_array(src,chunks=(rch(n),rch(m)),**kw); want=a; log.append(sorted(kw)); log.append(x.chunks)
            for _ in range(random.randint(1,3)):
                k=random.random()
                if k<0.5:
                    idx=tuple(random.choice([rslice(s), random.randrange(s)]) for s in want.shape) if want.ndim else ()
                    if want.ndim==0 or 0 in want.shape: break
                    x=x[idx]; want=want[idx]; log.append(f'slice{idx}')
                elif k<0.65 and want.ndim>0 and 0 not in want.shape:
                    ax=random.randrange(want.ndim); ind=[random.randrange(want.shape[ax]) for _ in range(3)]; x=da.take(x,ind,axis=ax); want=np.take(want,ind,axis=ax); log.append(f'take{ax}{ind}')
                elif k<0.8: x=x+1; want=want+1; log.append('add1')
                elif want.ndim>0 and 0 not in want.shape:
                    ch=tuple(rch(s) for s in want.shape); x=x.rechunk(ch); log.append(f'rechunk{ch}')
            g=x.compute()
            if g.shape!=want.shape or not np.allclose(g,want): bad+=1; print('MISMATCH',seed,p,log)
        elif kind.startswith('store'):
            x=da.from_array(a,chunks=(rch(n),rch(m)))
            if random.random()<0.5: x=x[::-1]+1; src_np=a[::-1]+1
            else: src_np=a
            if kind=='store':
                t=Tgt(src_np.shape); da.store(x,t,lock=random.choice([True,False]))
                if not np.allclose(t.a,src_np): bad+=1; print('MISMATCH store',seed,p,log)
            elif kind=='store_region':
                big=Tgt((n+3,m+2)); reg=(slice(2,2+src_np.shape[0]), slice(1,1+src_np.shape[1]))
                da.store(x,big,regions=reg,lock=False)
                e=np.full((n+3,m+2),-1.0); e[reg]=src_np
                if not np.allclose(big.a,e): bad+=1; print('MISMATCH store_region',seed,p,log)
            else:
                t1=Tgt(src_np.shape); t2=Tgt(src_np.shape); y=x*2
                r=da.store([x,y],[t1,t2],lock=False,compute=random.choice([True,False]))
                if r is not None:
                    import dask; dask.compute(r)
                if not (np.allclose(t1.a,src_np) and np.allclose(t2.a,src_np*2)): bad+=1; print('MISMATCH store_multi',seed,p,log)
        elif kind=='npy_stack':
            d=tempfile.mkdtemp(dir='/tmp')
            ax=random.randrange(2)
            x=da.from_array(a,chunks=(rch(n),rch(m)))
            da.to_npy_stack(d,x,axis=ax)
            y=da.from_npy_stack(d)
            idx=tuple(rslice(s) for s in a.shape)
            g=y[idx].compute()
            if not np.allclose(g,a[idx]): bad+=1; print('MISMATCH npy',seed,p,log,ax,idx)
            import shutil; shutil.rmtree(d)
    except Exception as e:
        bad+=1; print('RAISE',seed,p,type(e).__name__,str(e)[:100],log)
print('bad',bad)

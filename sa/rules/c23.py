"""C23 - a random array is one fixed realization (structural clauses).

The realization of a random node is fixed by its per-block seeds.  Those are
*derived* from the ``rng`` operand, and a node is re-instantiated - and the
derivation re-run - whenever a rewrite rebuilds it, so the property can only
hold for every program if (1) the derivation is a pure function of the operand,
(2) the operand is a private snapshot nobody else advances, (3) the task kernels
never consume the seed literals that sit in the graph, (4) no rewrite re-chunks
or slices *into* a random node, (5) the name covers the seeds, and (6) the
seeds travel with a pickle.  Each of these is decided from the source below.
"""

from __future__ import annotations

import ast

from ..dataflow import Defs
from ..model import FuncInfo, body_walk, const_value, dotted, unparse
from ..namedeps import ALL, name_deps, params_of
from ..report import RuleResult
from ..tagflow import EMPTY, Evaluator, TagFlow
from .common import callgraph, need, site

PROP = "C23"

EXPLANATION = (
    "Decides the structural conditions under which a random array has ONE realization for every program and history: "
    "R23.1 the seed derivations (every method/property of the Random and RandomChoice families, followed into package "
    "helpers) call no state-advancing method on an alias of the rng operand - only on copy.deepcopy(...) of it - because "
    "nodes are re-instantiated by rewrites and the derivation re-runs; R23.2 every construction site of the families inside "
    "the package hands the node a deep-copied snapshot of the caller's live generator (never the live object); R23.3 the "
    "task kernels referenced by the families draw only from generator objects they construct themselves from (a copy of) "
    "the seed literal, and the producer ships the immutable seed kind each kernel assumes; R23.4 the families define no "
    "slice/rechunk/shuffle/simplify/lower hook and keep _can_rechunk_pushdown falsy; R23.5 the node name depends on the "
    "derived seeds (and, for choice nodes, on the state operand), so two realizations never share a name; R23.6 the lazily "
    "derived seed containers are cached properties that __reduce__ carries; R23.7 within Random._task the seed and the "
    "block size are selected by the same index. The statistical quality of the streams and the values drawn are not decided."
)
ASSUMPTIONS = [
    "numpy semantics: copy.deepcopy of a Generator/RandomState/BitGenerator/SeedSequence yields an independent object; "
    "BitGenerator(SeedSequence) and SeedSequence(int) construct fresh state without mutating their argument; "
    "SeedSequence.generate_state is pure; reading .state returns a copy",
    "rewrites re-instantiate nodes through type(self)(*operands) (Expr.substitute / _simplify paths of upstream dask), "
    "so every cached derivation may be evaluated again on the same operands",
]
TRUSTED = ["CPython ast", "sa.cfg statement CFG", "sa.tagflow (flow-sensitive may-tag analysis)", "sa.callgraph construction sites", "sa.namedeps"]

FAMILY_ROOTS = {"Random": "rng", "RandomChoice": "_state"}  # family root class -> name of the rng operand
COPY_CALLS = {"deepcopy", "_snapshot_rng"}  # _snapshot_rng is verified to be deepcopy in R23.2
FRESH_CTORS = {"SeedSequence", "MT19937", "PCG64", "PCG64DXSM", "Philox", "SFC64"}  # construct independent state from seed material
WRAP_CTORS = {"default_rng", "Generator", "RandomState"}  # share the bit generator they are given
SAFE_CALLS = {"tokenize", "isinstance", "type", "typename", "len", "id", "repr", "str", "hasattr", "print", "issubclass", "from_bytes"}
NONADVANCING_METHODS = {"generate_state", "__reduce__", "__getstate__", "get_state", "__class__"}
HOOKS = ("_accept_slice", "_accept_rechunk", "_accept_shuffle", "_simplify_up", "_simplify_down", "_lower", "_slice_pushdown", "_rechunk_pushdown", "_shuffle_pushdown")

# (kernel construct, parameter) -> reason the kernel may use that argument without copying it
KERNEL_PARAM_EXEMPT = {}


class RngEval(Evaluator):
    """Tags: ``R:<root>`` the value may be (or share mutable state with) the rng reached from <root>;
    ``M:<root>`` the value may be a bound method of such an object; ``S`` the value is known to be a
    SeedSequence (immutable seed material) on this path."""

    def __init__(self, ctx, f: FuncInfo, self_ops=(), depth=0, stack=()):
        super().__init__()
        self.ctx, self.f, self.self_ops, self.depth, self.stack = ctx, f, set(self_ops), depth, stack
        self.params = set(f.params)

    def attribute(self, n, st):
        if isinstance(n.value, ast.Name) and n.value.id == "self" and n.attr in self.self_ops:
            return frozenset({f"R:self.{n.attr}"})
        base = self.ev(n.value, st)
        if n.attr == "state":
            return EMPTY  # the state getter returns a copy
        return frozenset(t for t in base if t.startswith("R:"))

    def subscript(self, n, st):
        return frozenset(t for t in self.ev(n.value, st) if not t == "S") | (frozenset({"S"}) if "S" in self.ev(n.value, st) else EMPTY)

    def call(self, n, st):
        fn = n.func
        name = dotted(fn) or ""
        tail = name.rsplit(".", 1)[-1]
        argtags = EMPTY
        for a in n.args:
            argtags |= self.ev(a, st)
        for k in n.keywords:
            argtags |= self.ev(k.value, st)
        if name == "self.operand" and n.args and const_value(n.args[0]) in self.self_ops:
            return frozenset({f"R:self.{const_value(n.args[0])}"})
        if tail in COPY_CALLS or tail in FRESH_CTORS or tail in SAFE_CALLS:
            return EMPTY
        if tail == "getattr" and n.args:
            base = self.ev(n.args[0], st)
            return frozenset(t for t in base if t.startswith("R:")) | frozenset("M:" + t[2:] for t in base if t.startswith("R:"))
        if isinstance(fn, ast.Attribute):
            recv = self.ev(fn.value, st)
            if any(t.startswith("R:") for t in recv):
                return EMPTY  # results of methods on the rng are new values (the call itself is judged as a sink)
        # a parameter used as a constructor on seed-sequence material: BitGenerator class applied to a SeedSequence
        if isinstance(fn, ast.Name) and fn.id in self.params and argtags and argtags <= {"S"}:
            return EMPTY
        # type(x)(seed): constructing a new object of x's class from the arguments
        if isinstance(fn, ast.Call) and dotted(fn.func) == "type":
            return frozenset(t for t in argtags if t.startswith("R:"))
        r = self.ctx.repo.resolve_expr(fn, self.f.module, self.f) if isinstance(fn, (ast.Name, ast.Attribute)) else None
        if r and r[0] == "func" and r[1].module.is_unit and self.depth < 4 and r[1].fq not in self.stack:
            callee = r[1]
            init = _bind_args(callee, n, lambda e: frozenset(t for t in self.ev(e, st) if t.startswith("R:")))
            if not any(init.values()):
                return EMPTY
            sub = analyse(self.ctx, callee, init, (), self.depth + 1, self.stack + (self.f.fq,))
            ret = sub["returns"]
            return frozenset(t for t in ret if t.startswith(("R:", "M:")))
        # unknown/external callable (wrapping constructors included): the result may share the argument's state
        return frozenset(t for t in argtags if t.startswith("R:"))


def _bind_args(callee: FuncInfo, call: ast.Call, tagger):
    """Initial state of ``callee`` for this call: parameter -> tags of the matching argument."""
    params = [p for p in callee.params]
    if callee.cls is not None and callee.kind not in ("staticmethod",) and params and params[0] in ("self", "cls"):
        params = params[1:]
    init = {}
    for i, a in enumerate(call.args):
        if isinstance(a, ast.Starred):
            tg = tagger(a.value)
            for p in params[i:]:
                init[p] = init.get(p, EMPTY) | tg
            break
        if i < len(params):
            init[params[i]] = tagger(a)
    for k in call.keywords:
        if k.arg is None:
            tg = tagger(k.value)
            for p in params:
                init[p] = init.get(p, EMPTY) | tg
        elif k.arg in params:
            init[k.arg] = tagger(k.value)
    return init


def _refine_seedseq(a, lbl, st):
    """``isinstance(P, ...SeedSequence...)`` true edge: P is immutable seed material on that path."""
    if not isinstance(a, (ast.If, ast.While)) or lbl is not True:
        return st
    t = a.test
    if isinstance(t, ast.Call) and dotted(t.func) == "isinstance" and len(t.args) == 2 and isinstance(t.args[0], ast.Name) and "SeedSequence" in unparse(t.args[1]):
        st = dict(st)
        st[t.args[0].id] = frozenset({"S"})
    return st


def analyse(ctx, f: FuncInfo, init, self_ops=(), depth=0, stack=()):
    """Advance sites of ``f`` given initially tagged parameters; memoised per (function, initial tags)."""
    key = ("c23flow", f.fq, tuple(sorted((k, tuple(sorted(v))) for k, v in init.items() if v)), tuple(sorted(self_ops)))
    hit = ctx._cache.get(key)
    if hit is not None:
        return hit
    ctx._cache[key] = {"sites": [], "returns": EMPTY}  # recursion guard
    evr = RngEval(ctx, f, self_ops, depth, stack)
    flow = TagFlow(f.node, evr, init=init, refine=_refine_seedseq)
    sites = []  # (func, node, roots, what, via path)

    def roots_of(tags, prefix="R:"):
        return sorted(t[len(prefix):] for t in tags if t.startswith(prefix))

    def visit(stmt, n, st):
        if isinstance(n, ast.Call):
            fn = n.func
            if isinstance(fn, ast.Attribute):
                recv = evr.ev(fn.value, st)
                rs = roots_of(recv)
                if rs and fn.attr not in NONADVANCING_METHODS:
                    sites.append((f, n, rs, f"calls .{fn.attr}(...) on the rng reached from {rs}", []))
            ft = evr.ev(fn, st) if isinstance(fn, ast.Name) else EMPTY
            ms = roots_of(ft, "M:")
            if ms:
                sites.append((f, n, ms, f"calls a method obtained with getattr from the rng reached from {ms}", []))
            r = ctx.repo.resolve_expr(fn, f.module, f) if isinstance(fn, (ast.Name, ast.Attribute)) else None
            if r and r[0] == "func" and r[1].module.is_unit and depth < 4 and r[1].fq not in stack and (dotted(fn) or "").rsplit(".", 1)[-1] not in COPY_CALLS:
                callee = r[1]
                init2 = _bind_args(callee, n, lambda e: frozenset(t for t in evr.ev(e, st) if t.startswith("R:")))
                if any(init2.values()):
                    sub = analyse(ctx, callee, init2, (), depth + 1, stack + (f.fq,))
                    for (g, node, rs2, what, via) in sub["sites"]:
                        sites.append((g, node, rs2, what, [f"{f.construct}:{n.lineno} {unparse(n)[:90]}"] + via))
        elif isinstance(n, ast.Attribute) and isinstance(n.ctx, ast.Store):
            rs = roots_of(evr.ev(n.value, st))
            if rs:
                sites.append((f, n, rs, f"assigns .{n.attr} of the rng reached from {rs}", []))

    flow.visit(visit)
    out = {"sites": sites, "returns": flow.return_tags()}
    ctx._cache[key] = out
    return out


def family(repo, root_name):
    root = repo.find_class(root_name)
    return [c for c in repo.subclasses(root)]


def families(repo):
    out = []
    for root_name, op in FAMILY_ROOTS.items():
        for c in family(repo, root_name):
            out.append((c, op))
    return out


def r23_1(ctx):
    rr = RuleResult("R23.1", "PURE", "no method/property of a random node (followed into package helpers) advances an alias of its rng operand; draws go through copy.deepcopy", min_instances=20)
    repo = ctx.repo
    seen = set()
    for c, op in families(repo):
        need(op in params_of(repo, c), f"{c.name} no longer has the operand {op!r}")
        for mname, mf in c.methods.items():
            if mf.fq in seen:
                continue
            seen.add(mf.fq)
            res = analyse(ctx, mf, {}, (op,))
            reads = sum(1 for n in ast.walk(mf.node) if isinstance(n, ast.Attribute) and n.attr == op and isinstance(n.value, ast.Name) and n.value.id == "self")
            rr.inst(mf.construct, rng_operand=op, operand_reads=reads, advance_sites=len(res["sites"]))
            for g, node, rs, what, via in res["sites"]:
                cst = site(g, node)[:220]
                ctx.finding(
                    rr, cst,
                    f"{mf.cls.name}.{mname} {what} without copying it first: the node's seeds then depend on how often the derivation ran "
                    f"(nodes are re-instantiated by every rewrite that replaces a dependency) and on what else drew from the generator",
                    func=g, node=node, path=via,
                )
    return rr


def _returns_deepcopy_of_param(f: FuncInfo):
    rets = [n for n in body_walk(f.node) if isinstance(n, ast.Return)]
    if not rets:
        return False
    for r in rets:
        v = r.value
        if not (isinstance(v, ast.Call) and (dotted(v.func) or "").rsplit(".", 1)[-1] == "deepcopy" and v.args and isinstance(v.args[0], ast.Name) and v.args[0].id in f.params):
            return False
    return True


class LiveEval(Evaluator):
    """Tag ``L`` = the value may be (an alias of) an object the caller keeps using (a parameter, an
    attribute of one); deep copies are private."""

    def __init__(self, params):
        super().__init__()
        self.params = set(params)

    def name(self, n, st):
        return st.get(n.id, EMPTY)

    def attribute(self, n, st):
        return self.ev(n.value, st)

    def call(self, n, st):
        tail = (dotted(n.func) or "").rsplit(".", 1)[-1]
        if tail in COPY_CALLS:
            return EMPTY
        return super().call(n, st)


def r23_2(ctx):
    rr = RuleResult("R23.2", "WHO", "every package construction site of a random node passes a deep-copied snapshot as the rng operand", min_instances=6)
    repo = ctx.repo
    cg = callgraph(ctx)
    snap = repo.mod("dask_array.random._utils").functions.get("_snapshot_rng")
    need(snap is not None, "dask_array/random/_utils.py::_snapshot_rng")
    ok = _returns_deepcopy_of_param(snap)
    rr.inst(snap.construct, returns_deepcopy_of_parameter=ok)
    if not ok:
        ctx.finding(rr, snap.construct, "_snapshot_rng no longer returns copy.deepcopy(<its parameter>): the 'snapshot' handed to random nodes is the live generator", func=snap)
    seen_sites = set()
    for c, op in families(repo):
        P = params_of(repo, c)
        idx = P.index(op)
        for f, m, call in cg.constructions.get(c.fq, []):
            if id(call) in seen_sites:
                continue
            if isinstance(call.func, ast.Call):
                continue  # type(self)(*operands): generic rebuild from existing operands, no new operand enters
            seen_sites.add(id(call))
            arg = None
            if len(call.args) > idx and not any(isinstance(a, ast.Starred) for a in call.args[: idx + 1]):
                arg = call.args[idx]
            for k in call.keywords:
                if k.arg == op:
                    arg = k.value
            where = f.construct if f else f"{m.relpath}::<module>"
            cst = f"{where}::{c.name}.{op}"
            if f is None or arg is None:
                rr.inst(cst, argument=None)
                ctx.finding(rr, cst, f"cannot see the {op!r} argument of this {c.name}(...) construction (starred/keyword-splat or module level)", file=m.path, line=call.lineno)
                continue
            init = {p: frozenset({"L"}) for p in f.params}
            flow = TagFlow(f.node, LiveEval(f.params), init=init)
            stmt = None
            from ..cfg import build_index

            stmt = build_index(flow.cfg).get(id(call))
            st = flow.state_at(stmt) if stmt is not None else {}
            tags = flow.evr.ev(arg, st)
            rr.inst(cst, argument=unparse(arg), live=bool(tags))
            if tags:
                ctx.finding(
                    rr, cst,
                    f"{c.name}(...) receives {unparse(arg)} - the caller's live generator - as its {op!r} operand instead of a deep-copied snapshot: "
                    f"later draws advance it, and a re-instantiated node derives different seeds",
                    func=f, node=call,
                )
    return rr


def kernels_of(ctx):
    """Package functions that random-family classes put into tasks (referenced as values, not called)."""
    repo = ctx.repo
    out = {}
    for c, _op in families(repo):
        for mf in c.methods.values():
            called = {id(n.func) for n in ast.walk(mf.node) if isinstance(n, ast.Call)}
            for n in ast.walk(mf.node):
                if isinstance(n, ast.Name) and isinstance(n.ctx, ast.Load) and id(n) not in called:
                    r = repo.resolve_name(n.id, mf.module, mf)
                    if r and r[0] == "func" and r[1].module.is_unit and r[1].cls is None:
                        out.setdefault(r[1].fq, (r[1], []))[1].append(mf)
    return out


def r23_3(ctx):
    rr = RuleResult("R23.3", "PURE", "random task kernels draw only from generators they build themselves from (a copy of) their seed argument; producers ship the seed kind the kernel assumes", min_instances=4)
    ks = kernels_of(ctx)
    need(len(ks) >= 4, "fewer than 4 random task kernels discovered")
    assumes_seedseq = []
    for fq, (k, users) in sorted(ks.items()):
        init = {p: frozenset({f"R:{p}"}) for p in k.params}
        res = analyse(ctx, k, init)
        idiom = [
            n for n in body_walk(k.node)
            if isinstance(n, ast.If) and isinstance(n.test, ast.Call) and dotted(n.test.func) == "isinstance" and len(n.test.args) == 2
            and isinstance(n.test.args[0], ast.Name) and n.test.args[0].id in k.params and "SeedSequence" in unparse(n.test.args[1])
        ]
        rr.inst(k.construct, used_by=sorted({u.construct for u in users}), parameters=k.params, draw_sites_on_argument_alias=len(res["sites"]), seedsequence_branch=bool(idiom))
        for g, node, rs, what, via in res["sites"]:
            live = [r for r in rs if (k.construct, r) not in KERNEL_PARAM_EXEMPT]
            if idiom and set(rs) <= {i.test.args[0].id for i in idiom}:
                # the draw happens on the argument itself only when it is NOT a SeedSequence; the producer must ship SeedSequences
                assumes_seedseq.append((k, rs, node))
                continue
            if not live:
                for r in rs:
                    rr.exempt(f"{k.construct}::{r}", KERNEL_PARAM_EXEMPT[(k.construct, r)])
                continue
            ctx.finding(
                rr, site(g, node)[:220],
                f"kernel {k.name} {what}: the seed literal lives in the task graph and is consumed by the first execution, so computing the "
                f"same collection twice (or the meta computation that calls the kernel at build time) changes later results",
                func=g, node=node, path=via,
            )
    # producer side of the SeedSequence assumption
    repo = ctx.repo
    for k, rs, node in assumes_seedseq:
        for fq, (kk, users) in ks.items():
            if kk is not k:
                continue
            for u in users:
                ok, what = _payload_is_seedseq(u, k)
                cst = f"{u.construct}::payload for {k.name}"
                rr.inst(cst, kernel=k.name, payload=what, seedsequence_payload=ok)
                if not ok:
                    ctx.finding(
                        rr, cst,
                        f"{k.name} only rebuilds a private generator for SeedSequence arguments, but {u.cls.name}.{u.name} ships {what} on the branch that selects it: "
                        f"the kernel would draw from (and advance) the graph literal",
                        func=u,
                    )
    return rr


def _payload_is_seedseq(u: FuncInfo, k: FuncInfo):
    """In the producer ``u``, on the branch that selects kernel ``k`` (an assignment of the kernel name),
    the last binding of the first returned element is a collection of ``<x>._seed_seq`` / SeedSequence objects."""
    rets = [n for n in body_walk(u.node) if isinstance(n, ast.Return) and isinstance(n.value, ast.Tuple)]
    if not rets:
        return False, "no tuple return"
    payload = rets[-1].value.elts[0]
    if not isinstance(payload, ast.Name):
        return False, unparse(payload)
    sel = [n for n in body_walk(u.node) if isinstance(n, ast.Assign) and isinstance(n.value, ast.Name) and n.value.id == k.name]
    if not sel:
        return False, f"no assignment selecting {k.name}"
    # the enclosing branch body
    branch = None
    for n in ast.walk(u.node):
        if isinstance(n, ast.If):
            for blk in (n.body, n.orelse):
                if sel[0] in blk:
                    branch = blk
    if branch is None:
        branch = u.node.body
    last = None
    for s in branch:
        if isinstance(s, ast.Assign) and any(isinstance(t, ast.Name) and t.id == payload.id for t in s.targets):
            last = s.value
    if last is None:
        return False, f"{payload.id} not bound on the branch"
    txt = unparse(last)
    if isinstance(last, (ast.ListComp, ast.GeneratorExp)) or (isinstance(last, ast.Call) and dotted(last.func) in ("list", "tuple")):
        elt = last.elt if isinstance(last, (ast.ListComp, ast.GeneratorExp)) else None
        if elt is not None and ((isinstance(elt, ast.Attribute) and elt.attr in ("_seed_seq", "seed_seq")) or (isinstance(elt, ast.Call) and (dotted(elt.func) or "").endswith("SeedSequence"))):
            return True, txt
    if isinstance(last, ast.Call) and isinstance(last.func, ast.Attribute) and last.func.attr == "spawn":
        return True, txt
    return False, txt


def r23_4(ctx):
    rr = RuleResult("R23.4", "COVER", "random nodes define no slice/rechunk/shuffle/simplify/lower hook and keep _can_rechunk_pushdown falsy", min_instances=5)
    repo = ctx.repo
    for c, _op in families(repo):
        rr.inst(c.construct, own_methods=sorted(c.methods))
        for h in HOOKS:
            hit = repo.class_attr(c, h)
            if hit is None or not isinstance(hit[1], FuncInfo):
                continue
            owner = hit[0]
            if owner in family(repo, "Random") or owner in family(repo, "RandomChoice"):
                ctx.finding(
                    rr, f"{owner.construct}::{h}",
                    f"{owner.name} defines {h}: a rewrite that pushes a slice/rechunk/shuffle into a random node (or lowers it to something else) regenerates it "
                    f"with another block structure, i.e. another realization ('Random generates different values with different chunks')",
                    func=hit[1],
                )
        hit = repo.class_attr(c, "_can_rechunk_pushdown")
        if hit is not None:
            owner, val = hit
            falsy = (not isinstance(val, FuncInfo)) and const_value(val) in (False, None, 0)
            rr.instances[-1]["_can_rechunk_pushdown"] = f"{owner.name}: {'property' if isinstance(val, FuncInfo) else unparse(val)}"
            if not falsy:
                ctx.finding(
                    rr, f"{c.construct}::_can_rechunk_pushdown",
                    f"{c.name} resolves _can_rechunk_pushdown to {'a property' if isinstance(val, FuncInfo) else unparse(val)} (defined in {owner.name}): "
                    f"Rechunk may be pushed into the random node, which regenerates it with other chunks - another realization",
                    file=owner.module.path, line=(val.lineno if isinstance(val, FuncInfo) else getattr(val, "lineno", owner.node.lineno)),
                )
    return rr


def _local_closure(expr, defs: Defs, lossy=("len", "type", "bool", "id", "hash", "isinstance")):
    """Local names ``expr`` is derived from (through assignments), not looking through lossy wrappers."""
    seen = set()
    work = [expr]
    while work:
        cur = work.pop()
        skip = set()
        for n in ast.walk(cur):
            if isinstance(n, ast.Call) and isinstance(n.func, ast.Name) and n.func.id in lossy:
                for a in n.args:
                    for s in ast.walk(a):
                        skip.add(id(s))
        for n in ast.walk(cur):
            if isinstance(n, ast.Name) and id(n) not in skip and n.id not in seen:
                seen.add(n.id)
                work.extend(defs.defs.get(n.id, []))
    return seen


def r23_5(ctx):
    rr = RuleResult("R23.5", "COVER", "the node name depends on the derived seeds / the state operand", min_instances=3)
    repo = ctx.repo
    rnd = repo.find_class("Random")
    info = rnd.methods.get("_info")
    namef = rnd.methods.get("_name")
    need(info is not None and namef is not None, "Random._info / Random._name")
    # _name is an element of _info
    rets = [n for n in body_walk(namef.node) if isinstance(n, ast.Return)]
    ok_name = bool(rets) and all(isinstance(r.value, ast.Subscript) and unparse(r.value.value) == "self._info" for r in rets)
    rr.inst(namef.construct, returns=[unparse(r.value) for r in rets])
    if not ok_name:
        ctx.finding(rr, namef.construct, "Random._name is no longer an element of Random._info (the seeds and the name would be derived separately)", func=namef)
    iret = [n for n in body_walk(info.node) if isinstance(n, ast.Return) and isinstance(n.value, ast.Tuple)]
    need(iret, "Random._info tuple return")
    defs = Defs(info.node)
    for r in iret:
        idx = const_value(rets[0].value.slice) if ok_name else 1
        idx = idx if isinstance(idx, int) else 1
        payload, name_elt = r.value.elts[0], r.value.elts[idx]
        clos = _local_closure(name_elt, defs)
        pname = payload.id if isinstance(payload, ast.Name) else None
        covered = pname in clos
        # per-branch: a branch that binds the seeds and an intermediate token of the name must derive that token from the seeds
        weak = []
        if covered:
            blocks = []
            for n in ast.walk(info.node):
                if isinstance(n, ast.If):
                    blocks.append(n.body)
                    if n.orelse and not (len(n.orelse) == 1 and isinstance(n.orelse[0], ast.If)):
                        blocks.append(n.orelse)
            for blk in blocks:
                binds_payload = any(isinstance(s, ast.Assign) and any(isinstance(t, ast.Name) and t.id == pname for t in s.targets) for s in blk)
                if not binds_payload:
                    continue
                toks = [s for s in blk if isinstance(s, ast.Assign) and any(isinstance(t, ast.Name) and t.id in clos and t.id != pname for t in s.targets) and isinstance(s.value, ast.Call)]
                toks = [s for s in toks if (dotted(s.value.func) or "").rsplit(".", 1)[-1] in ("tokenize", "_tokenize_deterministic")]
                direct = [s for s in toks if any(isinstance(x, ast.Name) and x.id == pname for x in ast.walk(s.value)) and not _only_lossy(s.value, pname)]
                if toks and not direct:
                    weak.append(unparse(toks[0])[:80])
        rr.inst(site(info, r)[:200], seeds=unparse(payload), name=unparse(name_elt), name_depends_on_seeds=covered and not weak)
        if not covered or weak:
            ctx.finding(
                rr, f"{info.construct}::name covers seeds",
                f"the name element {unparse(name_elt)!r} of Random._info does not depend on the seeds {unparse(payload)!r}"
                + (f" on the branch binding {weak[0]!r}" if weak else "")
                + ": two draws from one generator (different seeds, same size/chunks/args) get one name and are deduplicated into ONE array",
                func=info, node=r,
            )
    for c, op in families(repo):
        nd = name_deps(repo, c)
        ok = ALL in nd or op in nd
        rr.inst(f"{c.construct}::name covers {op}", covered=ok)
        if not ok:
            ctx.finding(rr, f"{c.construct}::name covers {op}", f"{c.name}._name does not depend on the {op!r} operand: arrays drawn from differently seeded generators share a name", file=c.module.path, line=c.node.lineno)
    return rr


def _only_lossy(value, pname, lossy=("len", "type", "bool", "id", "hash", "isinstance")):
    """True when every occurrence of ``pname`` in ``value`` sits under a lossy wrapper."""
    skip = set()
    for n in ast.walk(value):
        if isinstance(n, ast.Call) and isinstance(n.func, ast.Name) and n.func.id in lossy:
            for a in n.args:
                for s in ast.walk(a):
                    skip.add(id(s))
    occ = [n for n in ast.walk(value) if isinstance(n, ast.Name) and n.id == pname]
    return bool(occ) and all(id(n) in skip for n in occ)


SEED_CONTAINERS = {"Random": ["_info"], "RandomChoice": ["state_data"]}


def r23_6(ctx):
    rr = RuleResult("R23.6", "COVER", "lazily derived seed containers are cached properties that ArrayExpr.__reduce__ carries (collected through the whole MRO, not excluded)", min_instances=4)
    repo = ctx.repo
    expr_mod = repo.mod("dask_array._expr")
    coll = expr_mod.functions.get("_collect_cached_property_names")
    need(coll is not None, "dask_array/_expr.py::_collect_cached_property_names")
    walks_mro = any(isinstance(n, ast.Attribute) and n.attr in ("__mro__", "mro") for n in ast.walk(coll.node))
    rr.inst(coll.construct, walks_mro=walks_mro)
    if not walks_mro:
        ctx.finding(
            rr, coll.construct,
            "_collect_cached_property_names no longer walks the MRO: cached properties a class inherits (Random._info for RandomNormal/RandomPoisson, "
            "RandomChoice.state_data/sizes for RandomChoiceGenerator) are dropped from the pickle",
            func=coll,
        )
    for c, _op in families(repo):
        hit = repo.class_attr(c, "_pickle_functools_cache")
        if hit is not None and not isinstance(hit[1], FuncInfo) and hit[0].module.is_unit and const_value(hit[1]) is not True:
            ctx.finding(
                rr, f"{c.construct}::_pickle_functools_cache",
                f"{c.name} resolves _pickle_functools_cache to {unparse(hit[1])} (set in {hit[0].name}): the node is pickled without its cached seeds/chunks, and they are re-derived wherever it is "
                f"unpickled - under that side's configuration ('auto' chunks) - so the realization can change across a round trip",
                file=hit[0].module.path, line=hit[1].lineno,
            )
    for root_name, members in SEED_CONTAINERS.items():
        for c in family(repo, root_name):
            for mname in members:
                hit = repo.class_attr(c, mname)
                need(hit is not None and isinstance(hit[1], FuncInfo), f"{c.name}.{mname}")
                owner, mf = hit
                cached = mf.kind == "cached_property"
                excl = repo.class_attr(c, "_pickle_excluded_cached_properties")
                excluded = False
                if excl is not None and not isinstance(excl[1], FuncInfo):
                    excluded = mname in unparse(excl[1])
                cst = f"{c.construct}::{mname}"
                rr.inst(cst, defined_in=owner.name, cached_property=cached, excluded_from_pickle=excluded)
                if not cached:
                    ctx.finding(rr, cst, f"{owner.name}.{mname} (the seeds of {c.name}) is no longer a cached property: every access re-derives the seeds", func=mf)
                if excluded:
                    ctx.finding(rr, cst, f"{c.name} excludes {mname!r} (its seeds) from the pickled cache", func=mf)
    return rr


def r23_7(ctx):
    rr = RuleResult("R23.7", "COVER", "Random._task selects the seed and the block size with one index, derived from the block id", min_instances=1)
    repo = ctx.repo
    t = repo.find_class("Random").methods.get("_task")
    need(t is not None, "Random._task")
    subs = {}
    for n in body_walk(t.node):
        if isinstance(n, ast.Subscript) and isinstance(n.value, ast.Name) and n.value.id in ("bitgens", "sizes"):
            subs.setdefault(n.value.id, set()).add(unparse(n.slice))
    need("bitgens" in subs and "sizes" in subs, "Random._task no longer indexes bitgens/sizes (update R23.7)")
    rr.inst(t.construct, seed_index=sorted(subs["bitgens"]), size_index=sorted(subs["sizes"]))
    if subs["bitgens"] != subs["sizes"] or len(subs["bitgens"]) != 1:
        ctx.finding(rr, t.construct, f"Random._task picks the seed with {sorted(subs['bitgens'])} but the block size with {sorted(subs['sizes'])}: a block can be generated with another block's seed", func=t)
    else:
        ix = next(iter(subs["bitgens"]))
        defs = Defs(t.node)
        src = [unparse(v) for v in defs.defs.get(ix, [])]
        rr.instances[-1]["index_definition"] = src
        if not any("block_id" in s for s in src):
            ctx.finding(rr, t.construct, f"the seed index {ix!r} in Random._task is not derived from block_id ({src})", func=t)
    return rr


RULES = [r23_1, r23_2, r23_3, r23_4, r23_5, r23_6, r23_7]

from .upstream import upstream_facts  # noqa: E402

RULES_THOROUGH = RULES + [upstream_facts]

LEVEL_TEXT = (
    "Static decision of the conditions that make a random array one realization under every rewrite history: effect analysis "
    "(flow-sensitive alias tags over the statement CFG, followed into package helpers) showing that no method of a random "
    "node and no random task kernel advances an alias of the rng operand / seed literal; a who-constructs rule showing every "
    "package construction site hands the node a deep-copied snapshot; inertness of the families under pushdown; name-covers-"
    "seeds; seeds carried by __reduce__. A derivation that draws from the live generator, a construction site that forgets "
    "the snapshot, a kernel that consumes its graph literal, or a pushdown hook on a random node is reported at the call site. "
    "Values and stream quality are not decided."
)
LEVEL_NOTE = (
    "Trusted: CPython ast, sa.cfg, sa.tagflow, numpy's documented copy/seed semantics (listed in assumptions). The defect this "
    "rule set found on the pinned tree (Random._info / RandomChoice.state_data drew from the live generator) is repaired in "
    "/repo commit 'fix: derive random per-block seeds from a frozen snapshot of the generator' and recorded in known_findings.json."
)
TECHNIQUE = "static analysis: flow-sensitive alias/effect analysis over a statement CFG with interprocedural summaries (rng operand never advanced), who-constructs check, hook-inertness and name/pickle coverage (ast)"

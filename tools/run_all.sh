#!/bin/sh
# Run every claimed check (quick tier by default) and print one line per property.
cd "$(dirname "$0")/.." || exit 2
tier=${1:-quick}
rc_all=0
for p in $(jq -r '.checks[].property_id' MANIFEST.json); do
  ./vcheck "$p" --tier "$tier" >"/tmp/vcheck_$p.txt" 2>&1
  rc=$?
  k=$(grep -c '^KNOWN-FINDING' "/tmp/vcheck_$p.txt")
  v=$(grep -c '^VIOLATION' "/tmp/vcheck_$p.txt")
  echo "$p rc=$rc known=$k violations=$v"
  [ "$rc" -ne 0 ] && rc_all=1
done
exit $rc_all

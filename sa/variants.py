"""Seeded-defect variants and behaviour-preserving twins for the checker self-test.

Every variant edits the *current* source of /repo by exact-text substitution on
a scratch copy (the anchor text must occur exactly once; otherwise the variant
is reported as skipped, never as a pass).  ``rule`` must fire with ``expect``
contained in the reported construct; ``twin=True`` entries must stay silent.
"""

VARIANTS = []


def V(id, prop, rule, path, old, new, expect="", twin=False, edits=None, **kw):
    VARIANTS.append(
        {"id": id, "prop": prop, "rule": rule, "expect": expect, "twin": twin,
         "edits": edits or [(path, old, new)], **kw}
    )


# ---------------------------------------------------------------------------- C26
V("c26-top-import", "C26", "R26.1", "dask_array/_backends.py",
  "from __future__ import annotations\n", "from __future__ import annotations\nfrom dask_array import _xarray\n",
  expect="_backends.py")
V("c26-module-level-register", "C26", "R26.4", "dask_array/_backends.py",
  None, "\nfrom dask_array import xarray as _xr\n_xr.register()\n", expect="_backends.py")
V("c26-call-at-bottom-of-_xarray", "C26", "R26.4", "dask_array/_xarray.py",
  None, "\n_ensure_registered()\n", expect="_xarray.py")
V("c26-entry-point", "C26", "R26.5", "pyproject.toml",
  "[project.urls]", '[project.entry-points."xarray.chunkmanagers"]\ndask = "dask_array._xarray:DaskArrayExprManager"\n\n[project.urls]',
  expect="pyproject.toml")
V("c26-register-conditional", "C26", "R26.6", "dask_array/xarray.py",
  "    from dask_array._xarray import _ensure_registered\n\n    _ensure_registered()\n",
  "    from dask_array._xarray import _ensure_registered\n\n    if \"xarray\" in sys.modules:\n        _ensure_registered()\n",
  expect="register")
V("c26-isactive-eager-import", "C26", "R26.2", "dask_array/xarray.py",
  "    if \"dask_array._xarray\" not in sys.modules:\n        return False\n", "", expect="isactive")
V("c26-deferred-import-elsewhere", "C26", "R26.2", "dask_array/_new_collection.py",
  "def new_collection(expr):\n", "def new_collection(expr):\n    from dask_array import _xarray  # noqa\n", expect="new_collection")
V("c26-twin-reorder", "C26", "-", "dask_array/xarray.py",
  "import sys\n\n__all__", "import sys\nimport os  # noqa\n\n__all__", twin=True)

# ---------------------------------------------------------------------------- C11
V("c11-direct-expr-store", "C11", "R11.1", "dask_array/_collection.py",
  "        y = new_collection(SetItem(self.expr, snapshot_collections(key), value_expr))\n        self._replace_expr(y.expr)\n",
  "        y = new_collection(SetItem(self.expr, snapshot_collections(key), value_expr))\n        self._expr = y.expr\n",
  expect="Array.__setitem__")
V("c11-handle-out-direct-store", "C11", "R11.1", "dask_array/_core_utils.py",
  "        out._replace_expr(result._expr)\n", "        out._expr = result._expr\n", expect="handle_out")
V("c11-cache-not-popped", "C11", "R11.2", "dask_array/_collection.py",
  'for cached in ("_lowered_expr", "_lowered_expr_optimize_graph", "_cached_dask_keys"):',
  'for cached in ("_lowered_expr", "_lowered_expr_optimize_graph"):', expect="_cached_dask_keys")
V("c11-new-cache", "C11", "R11.2", "dask_array/_collection.py",
  "    @property\n    def _name(self):\n", "    @cached_property\n    def _block_count(self):\n        return len(self._cached_dask_keys)\n\n    @property\n    def _name(self):\n",
  expect="_block_count")
V("c11-copy-returns-self", "C11", "R11.5", "dask_array/_collection.py",
  "        return Array(self._expr)\n", "        return self\n", expect="Array.copy")
V("c11-snapshot-dropped-blockwise", "C11", "R11.7", "dask_array/core/_blockwise_funcs.py",
  "            snapshot_collections(kwargs),\n", "            kwargs,\n", expect="blockwise::Blockwise.kwargs")
V("c11-snapshot-dropped-setitem", "C11", "R11.7", "dask_array/_collection.py",
  "SetItem(self.expr, snapshot_collections(key), value_expr)", "SetItem(self.expr, key, value_expr)", expect="Array.__setitem__::SetItem.index")
V("c11-snapshot-dropped-elemwise", "C11", "R11.7", "dask_array/core/_blockwise_funcs.py",
  "user_kwargs = snapshot_collections(dict(kwargs)) if kwargs else None", "user_kwargs = dict(kwargs) if kwargs else None",
  expect="elemwise::Elemwise._user_kwargs")
V("c11-snapshot-noop", "C11", "R11.7", "dask_array/_core_utils.py",
  "    if isinstance(obj, Array):\n        return obj.copy()\n", "    if isinstance(obj, Array):\n        return obj\n", expect="snapshot_collections")
V("c11-twin-rename-local", "C11", "-", "dask_array/core/_blockwise_funcs.py",
  "    user_kwargs = snapshot_collections(dict(kwargs)) if kwargs else None\n\n    result = new_collection(Elemwise(op, dtype, name, where, out, user_kwargs, *args))",
  "    ukw = snapshot_collections(dict(kwargs)) if kwargs else None\n\n    result = new_collection(Elemwise(op, dtype, name, where, out, ukw, *args))", twin=True)
V("c11-twin-pop-explicit", "C11", "-", "dask_array/_collection.py",
  '        for cached in ("_lowered_expr", "_lowered_expr_optimize_graph", "_cached_dask_keys"):\n            self.__dict__.pop(cached, None)\n',
  '        self.__dict__.pop("_lowered_expr", None)\n        self.__dict__.pop("_lowered_expr_optimize_graph", None)\n        self.__dict__.pop("_cached_dask_keys", None)\n', twin=True)

# ---------------------------------------------------------------------------- C03
V("c03-bridge-deleted", "C03", "R03.1", "dask_array/_materialize.py",
  "            expr = _lower(expr.rechunk(chunks), optimize_graph=False)\n", "            pass\n", expect="_materialize")
V("c03-match-inverted", "C03", "R03.1", "dask_array/_materialize.py",
  "        if not _chunks_match(expr.chunks, chunks):", "        if _chunks_match(expr.chunks, chunks):", expect="_materialize")
V("c03-chunks-captured-late", "C03", "R03.1", "dask_array/_materialize.py",
  "    chunks = expr.chunks\n\n    expr = _lower(expr, optimize_graph)\n", "    expr = _lower(expr, optimize_graph)\n    chunks = expr.chunks\n", expect="_materialize")
V("c03-bridge-to-optimized-chunks", "C03", "R03.1", "dask_array/_materialize.py",
  "expr = _lower(expr.rechunk(chunks), optimize_graph=False)", "expr = _lower(expr.rechunk(expr.chunks), optimize_graph=False)", expect="_materialize")
V("c03-freeze-no-compare", "C03", "R03.2", "dask_array/_expr.py",
  "        if _chunks_match(array.chunks, self._chunks):\n            return lowered.setdefault(self._name, array)",
  "        if len(array.chunks) == len(self._chunks):\n            return lowered.setdefault(self._name, array)", expect="ChunksFreeze.lower_once")
V("c03-freeze-unsettled-child", "C03", "R03.2", "dask_array/_expr.py",
  "        array = self.array\n        while True:\n            new = array.lower_once(lowered)\n            if new._name == array._name:\n                break\n            array = new\n",
  "        array = self.array\n", expect="ChunksFreeze.lower_once")
V("c03-override-chunks-from-child", "C03", "R03.3", "dask_array/_expr.py",
  "    _parameters = [\"array\", \"_chunks\"]\n\n    @functools.cached_property\n    def _name(self):\n        return f\"chunks-override-{self.deterministic_token}\"\n\n    @functools.cached_property\n    def _meta(self):\n        return self.array._meta\n\n    @functools.cached_property\n    def chunks(self):\n        return self._chunks\n",
  "    _parameters = [\"array\", \"_chunks\"]\n\n    @functools.cached_property\n    def _name(self):\n        return f\"chunks-override-{self.deterministic_token}\"\n\n    @functools.cached_property\n    def _meta(self):\n        return self.array._meta\n\n    @functools.cached_property\n    def chunks(self):\n        return self.array.chunks\n",
  expect="ChunksOverride.chunks")
V("c03-rootalias-layer-wrong-source", "C03", "R03.3", "dask_array/_expr.py",
  "        for idx in product(*(range(len(c)) for c in self.chunks)):\n            out_key = (self._name,) + idx\n            in_key = (self.array._name,) + idx\n",
  "        for idx in product(*(range(len(c)) for c in self.chunks)):\n            out_key = (self._name,) + idx\n            in_key = (self.array._name,) + idx[::-1]\n",
  expect="RootAlias._layer", )
V("c03-array-chunks-from-lowered", "C03", "R03.4", "dask_array/_collection.py",
  "    @property\n    def chunks(self):\n        return self.expr.chunks\n", "    @property\n    def chunks(self):\n        return self._lowered_expr.chunks\n", expect="Array.chunks")
V("c03-twin-rename-local", "C03", "-", "dask_array/_materialize.py", None, None, twin=True, edits=[
  ("dask_array/_materialize.py", "    chunks = expr.chunks\n", "    advertised = expr.chunks\n"),
  ("dask_array/_materialize.py", "        if not _chunks_match(expr.chunks, chunks):", "        if not _chunks_match(expr.chunks, advertised):"),
  ("dask_array/_materialize.py", "            if any(math.isnan(s) for dim in chunks for s in dim):", "            if any(math.isnan(s) for dim in advertised for s in dim):"),
  ("dask_array/_materialize.py", "                    f\"({chunks} -> {expr.chunks}) and the advertised chunks \"", "                    f\"({advertised} -> {expr.chunks}) and the advertised chunks \""),
  ("dask_array/_materialize.py", "            expr = _lower(expr.rechunk(chunks), optimize_graph=False)", "            expr = _lower(expr.rechunk(advertised), optimize_graph=False)"),
])
V("c03-twin-positive-match-form", "C03", "-", "dask_array/_expr.py",
  "        if _chunks_match(array.chunks, self._chunks):\n            return lowered.setdefault(self._name, array)\n        if any(math.isnan(s) for dim in self._chunks for s in dim):",
  "        if not _chunks_match(array.chunks, self._chunks):\n            pass\n        else:\n            return lowered.setdefault(self._name, array)\n        if any(math.isnan(s) for dim in self._chunks for s in dim):", twin=True)

# ---------------------------------------------------------------------------- C04
V("c04-rootalias-in-pinned", "C04", "R04.1", "dask_array/_collection.py",
  "        return new_collection(self._lowered_expr)\n", "        return new_collection(RootAlias(self._lowered_expr, self._name))\n", expect="Array._pinned")
V("c04-embedded-root-guard-dropped", "C04", "R04.1", "dask_array/_materialize.py",
  "        if any(node._name == name for node in expr.walk()):", "        if False:", expect="_materialize")
V("c04-name-from-lowered", "C04", "R04.6", "dask_array/_collection.py",
  "        return self.expr._name\n", "        return self._lowered_expr._name\n", expect="Array._name")
V("c04-keys-from-lowering", "C04", "R04.2", "dask_array/_collection.py",
  "        name, chunks, numblocks = self._name, self.chunks, self.numblocks\n", "        name, chunks, numblocks = self.expr.lower_completely()._name, self.chunks, self.numblocks\n", expect="Array._cached_dask_keys")
V("c04-keys-numblocks-from-lowered", "C04", "R04.3", "dask_array/_collection.py",
  "        name, chunks, numblocks = self._name, self.chunks, self.numblocks\n", "        name, chunks, numblocks = self._name, self.chunks, self.__dict__.get('_nb', ())\n", expect="Array._cached_dask_keys")
V("c04-graph-from-raw", "C04", "R04.3", "dask_array/_collection.py",
  "        out = self._lowered_expr\n        return Expr.__dask_graph__(out)\n", "        out = self.expr.optimize()\n        return Expr.__dask_graph__(out)\n", expect="Array.__dask_graph__")
V("c04-elemwise-deps-drop-out-always", "C04", "R04.4", "dask_array/_blockwise.py",
  "        if self.where is True and self.out is not None:\n            out_name", "        if self.out is not None:\n            out_name", expect="Elemwise.dependencies")
V("c04-class-without-layer", "C04", "R04.5", "dask_array/_expr.py",
  None, "\n\nclass Passthrough(ArrayExpr):\n    _parameters = [\"array\"]\n\n    @functools.cached_property\n    def chunks(self):\n        return self.array.chunks\n\n\ndef passthrough(x):\n    return Passthrough(x)\n", expect="Passthrough")
V("c04-twin-rename-helper", "C04", "-", "dask_array/_collection.py",
  "        def keys(*args):\n            if not chunks:\n                return [(name,)]\n            ind = len(args)\n            if ind + 1 == len(numblocks):\n                return [(name,) + args + (i,) for i in range(numblocks[ind])]\n            return [keys(*(args + (i,))) for i in range(numblocks[ind])]\n\n        return keys()\n\n    def __dask_keys__",
  "        def build(*args):\n            if not chunks:\n                return [(name,)]\n            ind = len(args)\n            if ind + 1 == len(numblocks):\n                return [(name,) + args + (j,) for j in range(numblocks[ind])]\n            return [build(*(args + (j,))) for j in range(numblocks[ind])]\n\n        return build()\n\n    def __dask_keys__", twin=True)

# ---------------------------------------------------------------------------- C05
V("c05-persist-unpinned", "C05", "R05.1", "dask_array/_collection.py",
  "        return DaskMethodsMixin.persist(self._pinned(), **kwargs)", "        return DaskMethodsMixin.persist(self, **kwargs)", expect="Array.persist")
V("c05-compute-unpinned", "C05", "R05.1", "dask_array/_collection.py",
  "        return DaskMethodsMixin.compute(self._pinned(), **kwargs)", "        return DaskMethodsMixin.compute(new_collection(self.expr.optimize()), **kwargs)", expect="Array.compute")
V("c05-postpersist-lowered-name", "C05", "R05.3", "dask_array/_collection.py",
  "            [],\n            self._name,\n        )", "            [],\n            self._lowered_expr._name,\n        )", expect="__dask_postpersist__")
V("c05-postpersist-lowered-chunks", "C05", "R05.3", "dask_array/_collection.py",
  "            meta,\n            self.chunks,\n            [],", "            meta,\n            self._lowered_expr.chunks,\n            [],", expect="__dask_postpersist__")
V("c05-second-materialize-path", "C05", "R05.2", "dask_array/_collection.py",
  "        keys = self.__dask_keys__()\n        graph = self.__dask_graph__()\n", "        keys = self.__dask_keys__()\n        from dask._expr import Expr\n        graph = Expr.__dask_graph__(_materialize(self.expr, optimize_graph=optimize_graph))\n", expect="to_delayed")
V("c05-lowered-not-cached", "C05", "R05.2", "dask_array/_collection.py",
  "    @cached_property\n    def _lowered_expr(self):", "    @property\n    def _lowered_expr(self):", expect="_lowered_expr")
V("c05-frisky-from-raw", "C05", "R05.2", "dask_array/_frisky/collect.py",
  "    _walk_records([collection._lowered_expr], seen, records)", "    _walk_records([collection.expr.optimize()], seen, records)", expect="collect_task_records")
V("c05-to-delayed-lowered-keys", "C05", "R05.4", "dask_array/_collection.py",
  "        keys = self.__dask_keys__()\n        graph = self.__dask_graph__()\n", "        keys = self._lowered_expr.__dask_keys__()\n        graph = self.__dask_graph__()\n", expect="to_delayed")
V("c05-optimize-flag-missing", "C05", "R05.5", "dask_array/_collection.py",
  "        out.__dict__[\"_lowered_expr_optimize_graph\"] = True\n", "", expect="Array.optimize")
V("c05-twin-kwargs-order", "C05", "-", "dask_array/_collection.py",
  "    def compute(self, **kwargs):\n        return DaskMethodsMixin.compute(self._pinned(), **kwargs)", "    def compute(self, **kwargs):\n        # delegate\n        return DaskMethodsMixin.compute(self._pinned(), **kwargs)", twin=True)

# ---------------------------------------------------------------------------- C06
V("c06-blockwise-token-drops-align", "C06", "R06.1", "dask_array/_blockwise.py",
  "                self.new_axes,\n                self.align_arrays,\n                self.concatenate,\n",
  "                self.new_axes,\n                self.concatenate,\n", expect="Blockwise::align_arrays")
V("c06-partialreduce-token-drops-keepdims", "C06", "R06.1", "dask_array/reductions/_reduction.py",
  "                self.func, self.array, self.split_every, self.keepdims, self.dtype\n", "                self.func, self.array, self.split_every, self.dtype\n", expect="PartialReduce::keepdims")
V("c06-reduction-token-drops-weights", "C06", "R06.1", "dask_array/reductions/_reduction.py",
  "                self.output_size,\n                self.weights,\n            )", "                self.output_size,\n            )", expect="::weights")
V("c06-rechunk-name-drops-operands", "C06", "R06.1", "dask_array/_rechunk.py",
  "            non_array = [self.operand(p) for p in self._parameters if p != \"array\"]\n            return \"rechunk-merge-rc1\" + hash_buffer_hex(_dumps5_nomemo((self.array._name, *non_array)))",
  "            return \"rechunk-merge-rc1\" + hash_buffer_hex(_dumps5_nomemo((self.array._name, self.operand(\"_chunks\"))))", expect="Rechunk::")
V("c06-shuffle-name-forgets-axis", "C06", "R06.1", "dask_array/_shuffle.py",
  "        return f\"{self.operand('name')}-{self.deterministic_token}\"", "        return f\"{self.operand('name')}-{_tokenize_deterministic(self.array, self.indexer)}\"", expect="Shuffle::axis")
V("c06-new-conditional-pin", "C06", "R06.3", "dask_array/_shuffle.py",
  "        return f\"{self.operand('name')}-{self.deterministic_token}\"", "        if self.operand('name').startswith('pinned'):\n            return self.operand('name')\n        return f\"{self.operand('name')}-{self.deterministic_token}\"", expect="Shuffle")
V("c06-with-chunks-name-ignores-chunks", "C06", "R06.2", "dask_array/io/_from_array.py",
  "        name = f\"{self._name}-rechunk-{tokenize(self.chunks, chunks)}\"", "        name = f\"{self._name}-rechunk-{tokenize(self.chunks)}\"", expect="FromArray._with_chunks")
V("c06-accept-slice-name-ignores-slice", "C06", "R06.2", "dask_array/io/_from_array.py",
  "        name = f\"{self._name}-getitem-{tokenize(old_region, region_index, new_region)}\"", "        name = f\"{self._name}-getitem-{tokenize(old_region)}\"", expect="FromArray._accept_slice")
V("c06-rootalias-init-deleted", "C06", "R06.3", "dask_array/_expr.py",
  "    _parameters = [\"array\", \"name\"]\n\n    def __init__(self, *args, **kwargs):\n        # A non-trivial __init__ disables SingletonExpr's dedup-by-_name\n        # (it only dedups when cls.__init__ is object.__init__).\n        pass\n",
  "    _parameters = [\"array\", \"name\"]\n", expect="RootAlias")
V("c06-fromgraph-lower-once-deleted", "C06", "R06.3", "dask_array/io/_from_graph.py",
  "    def lower_once(self, lowered):\n        # An opaque graph with materialized dependencies — nothing to lower.\n        # Must never enter the (name-keyed) lowering cache: a persisted\n        # collection carries its original raw root name, and a later tree\n        # containing that raw subtree would get this node (and its futures)\n        # silently spliced in on a cache hit.\n        return self\n",
  "", expect="FromGraph")
V("c06-rootalias-lower-once-caches", "C06", "R06.3", "dask_array/_expr.py",
  "        # would get this pin spliced into its middle on a cache hit.\n        return self\n", "        # would get this pin spliced into its middle on a cache hit.\n        return lowered.setdefault(self._name, self)\n", expect="RootAlias")
V("c06-mapblocksoutput-unlowered-inputs", "C06", "R06.3", "dask_array/_map_blocks.py",
  "    input_exprs = [expr.lower_completely() for expr in input_exprs]\n", "    input_exprs = list(input_exprs)\n", expect="MapBlocksOutput")
V("c06-fromarray-exact-enters-cache", "C06", "R06.3", "dask_array/io/_from_array.py",
  "        if self.operand(\"_name_is_exact\"):\n            return self\n        return super().lower_once(lowered)", "        return super().lower_once(lowered)", expect="FromArray.lower_once")
V("c06-operand-assigned-in-hook", "C06", "R06.4", "dask_array/_expr.py",
  "    def _simplify_down(self):\n        return None\n\n\nclass ChunksOverride", "    def _simplify_down(self):\n        self.arr = self.arr.simplify()\n        return None\n\n\nclass ChunksOverride", expect="FinalizeComputeArray._simplify_down")
V("c06-lower-cache-written-elsewhere", "C06", "R06.5", "dask_array/_materialize.py",
  "    name = expr._name\n    chunks = expr.chunks\n", "    name = expr._name\n    chunks = expr.chunks\n    if name in _LOWER_CACHE:\n        return _LOWER_CACHE[name]\n", expect="_materialize")
V("c06-freeze-stores-under-child-name", "C06", "R06.5", "dask_array/_expr.py",
  "            return lowered.setdefault(self._name, array)\n", "            return lowered.setdefault(array._name, array)\n", expect="ChunksFreeze.lower_once")
V("c06-new-pinned-class", "C06", "R06.1", "dask_array/_expr.py",
  None, "\n\nclass Named(ArrayExpr):\n    _parameters = [\"array\", \"name\"]\n\n    @functools.cached_property\n    def _name(self):\n        return self.operand(\"name\")\n\n    @functools.cached_property\n    def chunks(self):\n        return self.array.chunks\n\n    def _layer(self):\n        return {}\n", expect="Named")
V("c06-twin-tokenizer-reordered", "C06", "-", "dask_array/reductions/_reduction.py",
  "                self.func, self.array, self.split_every, self.keepdims, self.dtype\n", "                self.func, self.array, self.keepdims, self.split_every, self.dtype\n", twin=True)

# ---------------------------------------------------------------------------- C10
V("c10-setitem-copy-deleted", "C10", "R10.1", "dask_array/slicing/_utils.py",
  "    x = np.asarray(x) if isinstance(x, np.generic) else x.copy()\n", "    x = np.asarray(x)\n", expect="setitem")
V("c10-setitem-copy-conditional", "C10", "R10.1", "dask_array/slicing/_utils.py",
  "    x = np.asarray(x) if isinstance(x, np.generic) else x.copy()\n", "    if isinstance(x, np.generic):\n        x = np.asarray(x)\n    elif not x.flags.owndata:\n        x = x.copy()\n", expect="setitem")
V("c10-reduce-block-no-copy", "C10", "R10.1", "dask_array/reductions/_reduction.py",
  "        out = np.array(block[tuple(index)], dtype=out_dtype, copy=True)", "        out = np.array(block[tuple(index)], dtype=out_dtype, copy=False)", expect="sliding_window_reduce_block")
V("c10-enforce-dtype-writes-arg", "C10", "R10.1", "dask_array/_core_utils.py",
  "    dtype = kwargs.pop(\"enforce_dtype\")\n    function = kwargs.pop(\"enforce_dtype_function\")\n", "    dtype = kwargs.pop(\"enforce_dtype\")\n    function = kwargs.pop(\"enforce_dtype_function\")\n    if args and hasattr(args[0], \"dtype\") and args[0].dtype == dtype:\n        np.copyto(args[0], function(*args, **kwargs), casting=\"unsafe\")\n        return args[0]\n", expect="_enforce_dtype")
V("c10-kernel-global-counter", "C10", "R10.2", "dask_array/_chunk.py",
  None, "\n\n_CALLS = {}\n", expect="", twin=True)
V("c10-from-array-no-copy", "C10", "R10.3", "dask_array/core/_conversion.py",
  "    if is_arraylike(x) and hasattr(x, \"copy\"):\n        x = x.copy()\n", "", expect="from_array")
V("c10-from-array-copy-only-small", "C10", "R10.3", "dask_array/core/_conversion.py",
  "    if is_arraylike(x) and hasattr(x, \"copy\"):\n        x = x.copy()\n", "    if is_arraylike(x) and hasattr(x, \"copy\"):\n        if getattr(x, \"nbytes\", 0) < 2**27:\n            x = x.copy()\n", expect="from_array")
V("c10-layer-single-block-no-copy", "C10", "R10.3", "dask_array/io/_from_array.py",
  "                dsk = {(self._name,) + (0,) * self.array.ndim: self.array.copy()}", "                dsk = {(self._name,) + (0,) * self.array.ndim: self.array}", expect="FromArray._layer")
V("c10-accept-slice-view", "C10", "R10.3", "dask_array/io/_from_array.py",
  "                source = source[new_region].copy()", "                source = source[new_region]", expect="FromArray._accept_slice")
V("c10-finalize-no-copy", "C10", "R10.3", "dask_array/_core_utils.py",
  "        return results.copy()  # numpy, sparse, scipy.sparse (any version)", "        return results", expect="finalize")
V("c10-twin-copy-via-np-array", "C10", "-", "dask_array/core/_conversion.py",
  "    if is_arraylike(x) and hasattr(x, \"copy\"):\n        x = x.copy()\n", "    if is_arraylike(x) and hasattr(x, \"copy\"):\n        # detach from the caller's buffer\n        x = x.copy()\n", twin=True)

# ---------------------------------------------------------------------------- C12 / C25 (payload-layout rule)
V("c12-freeze-removed", "C12", "R12.1", "dask_array/slicing/_basic.py",
  "    x = x.freeze_chunks()\n    x_axes = tuple(range(x.ndim))", "    x_axes = tuple(range(x.ndim))", expect="slice_with_int_dask_array_on_axis")
V("c12-freeze-after-offset", "C12", "R12.1", "dask_array/slicing/_basic.py", None, None, expect="slice_with_int_dask_array_on_axis", edits=[
  ("dask_array/slicing/_basic.py", "    x = x.freeze_chunks()\n    x_axes = tuple(range(x.ndim))", "    x_axes = tuple(range(x.ndim))"),
  ("dask_array/slicing/_basic.py", "    p_axes = x_axes[: axis + 1] + idx_axes + x_axes[axis + 1 :]\n", "    x = x.freeze_chunks()\n    p_axes = x_axes[: axis + 1] + idx_axes + x_axes[axis + 1 :]\n"),
])
V("c12-nan-guard-removed", "C12", "R12.2", "dask_array/slicing/_basic.py",
  "    if np.isnan(x.chunks[axis]).any():\n        raise NotImplementedError(\"Slicing an array with unknown chunks with a dask.array of ints is not supported\")\n", "", expect="slice_with_int_dask_array_on_axis")
V("c12-int-routing-removed", "C12", "R12.3", "dask_array/_collection.py",
  "        if any(isinstance(i, Array) and i.dtype.kind in \"iu\" for i in index2):\n            self, index2 = slice_with_int_dask_array(self, index2)\n", "", expect="Array.__getitem__")
V("c12-vindex-modulo-first", "C12", "R12.4", "dask_array/slicing/_vindex.py",
  "            if ((ind >= size) | (ind < -size)).any():", "            ind %= size\n            if ((ind >= size) | (ind < 0)).any():", expect="_vindex")
V("c12-twin-freeze-via-local", "C12", "-", "dask_array/slicing/_basic.py",
  "    x = x.freeze_chunks()\n    x_axes = tuple(range(x.ndim))", "    x = x.freeze_chunks()  # layout barrier\n    x_axes = tuple(range(x.ndim))", twin=True)
V("c25-freeze-removed", "C25", "R25.1", "dask_array/io/_store.py",
  "        s = s.freeze_chunks()\n        slices = ArraySliceDep(s.chunks)", "        slices = ArraySliceDep(s.chunks)", expect="store::ArraySliceDep")
V("c25-loadback-not-persisted", "C25", "R25.1", "dask_array/io/_store.py",
  "            stored_persisted = persist(*arrays, **kwargs)", "            stored_persisted = list(arrays)", expect="store::ArraySliceDep")
V("c25-kernel-writes-whole-target", "C25", "R25.2", "dask_array/io/_store.py",
  "            if is_arraylike(x):\n                out[index] = x", "            if is_arraylike(x) and index is None:\n                out[...] = x\n            elif is_arraylike(x):\n                out[index] = x", expect="load_store_chunk")
V("c25-load-chunk-passes-x", "C25", "R25.2", "dask_array/io/_store.py",
  "    return load_store_chunk(\n        None,", "    return load_store_chunk(\n        out[index],", expect="load_chunk")
V("c25-release-not-in-finally", "C25", "R25.3", "dask_array/io/_store.py",
  "        else:\n            return None\n    finally:\n        if lock:\n            lock.release()", "        else:\n            if lock:\n                lock.release()\n            return None\n    finally:\n        pass", expect="load_store_chunk")
V("c25-getter-release-dropped", "C25", "R25.3", "dask_array/_core_utils.py",
  "            c = np.asarray(c)\n    finally:\n        if lock:\n            lock.release()\n    return c", "            c = np.asarray(c)\n    finally:\n        pass\n    if lock:\n        lock.release()\n    return c", expect="getter")
V("c25-twin-guard-flipped", "C25", "-", "dask_array/io/_store.py",
  "        if index:\n            index = fuse_slice(region, index)\n        else:\n            index = region\n", "        if not index:\n            index = region\n        else:\n            index = fuse_slice(region, index)\n", twin=True)

# ---------------------------------------------------------------------------- C20
V("c20-freeze-only-block-info", "C20", "R20.1", "dask_array/_map_blocks.py",
  "    if has_keyword(func, \"block_id\") or has_keyword(func, \"block_info\"):\n        # The block_id/block_info payloads", "    if has_keyword(func, \"block_info\"):\n        # The block_id/block_info payloads", expect="payload keyword block_id")
V("c20-freeze-narrowed", "C20", "R20.1", "dask_array/_map_blocks.py",
  "            if isinstance(a, Array) and not isinstance(a.expr, (ChunksFreeze, RootAlias))\n", "            if isinstance(a, Array) and a.npartitions > 1 and not isinstance(a.expr, (ChunksFreeze, RootAlias))\n", expect="freeze condition")
V("c20-freeze-current-chunks-of-lowered", "C20", "R20.1", "dask_array/_map_blocks.py",
  "            Array(ChunksFreeze(a.expr, a.chunks))\n", "            Array(ChunksFreeze(a.expr, a.expr.optimize().chunks))\n", expect="map_blocks")
V("c20-args-derived-before-freeze", "C20", "R20.1", "dask_array/_map_blocks.py", None, None, expect="map_blocks", edits=[
  ("dask_array/_map_blocks.py", "    arrs = [a for a in args if isinstance(a, Array)]\n\n    def get_argpair(a):", "    def get_argpair(a):"),
  ("dask_array/_map_blocks.py", "    if has_keyword(func, \"block_id\") or has_keyword(func, \"block_info\"):\n        # The block_id/block_info payloads", "    arrs = [a for a in args if isinstance(a, Array)]\n    if has_keyword(func, \"block_id\") or has_keyword(func, \"block_info\"):\n        # The block_id/block_info payloads"),
])
V("c20-freeze-gets-simplify-up", "C20", "R20.2", "dask_array/_expr.py",
  "    def lower_once(self, lowered):\n        try:\n            return lowered[self._name]", "    def _simplify_up(self, parent, dependents):\n        return self.array._simplify_up(parent, dependents)\n\n    def lower_once(self, lowered):\n        try:\n            return lowered[self._name]", expect="ChunksFreeze")
V("c20-hook-looks-through-freeze", "C20", "R20.2", "dask_array/manipulation/_transpose.py",
  "    def _simplify_up(self, parent, dependents):", "    def _unwrap(self):\n        from dask_array._expr import ChunksFreeze\n\n        return self.array.array if isinstance(self.array, ChunksFreeze) else self.array\n\n    def _simplify_up(self, parent, dependents):", expect="Transpose._unwrap")
V("c20-gate-bypassed-slice", "C20", "R20.4", "dask_array/_expr.py",
  "        result = self._accept_slice(slice_expr)\n        result = self._preserve_grid_contract(slice_expr, result, dependents)\n", "        result = self._accept_slice(slice_expr)\n", expect="_slice_pushdown")
V("c20-contract-no-blockwise-decline", "C20", "R20.4", "dask_array/_expr.py",
  "        if isinstance(self, Blockwise):\n            return None\n        if getattr(result, \"chunks\", None) != parent.chunks:", "        if getattr(result, \"chunks\", None) != parent.chunks:", expect="_preserve_grid_contract")
V("c20-accept-slice-called-directly", "C20", "R20.5", "dask_array/slicing/_basic.py",
  "    def _simplify_down(self):\n        # A pure identity slice", "    def _simplify_down(self):\n        if hasattr(self.array, \"_accept_slice\") and len(self.index) == 1:\n            return self.array._accept_slice(self)\n        # A pure identity slice", expect="SliceSlicesIntegers._simplify_down")
V("c20-simplify-up-returns-accept", "C20", "R20.5", "dask_array/_shuffle.py",
  "            return self._slice_pushdown(parent, dependents)", "            return self._accept_slice(parent)", expect="Shuffle._simplify_up")
V("c20-map-blocks-aligned", "C20", "R20.6", "dask_array/_map_blocks.py",
  "            concatenate=needs_concatenate,\n            align_arrays=False,\n            adjust_chunks=dict(zip(out_ind, out.chunks)),", "            concatenate=needs_concatenate,\n            adjust_chunks=dict(zip(out_ind, out.chunks)),", expect="map_blocks")
V("c20-grid-sensitivity-always-false", "C20", "R20.6", "dask_array/_blockwise.py",
  "        if any(isinstance(v, (tuple, list)) for v in adjust_chunks.values()):\n            return True\n        return type(self) is Blockwise and not self.align_arrays\n", "        return False\n", expect="Blockwise._requires_grid_preservation")
V("c20-twin-comment", "C20", "-", "dask_array/_map_blocks.py",
  "    arrs = [a for a in args if isinstance(a, Array)]\n\n    def get_argpair(a):", "    arrs = [a for a in args if isinstance(a, Array)]  # after the freeze\n\n    def get_argpair(a):", twin=True)

# ---------------------------------------------------------------------------- C04 additions
V("c04-unoptimized-skips-pin", "C04", "R04.7", "dask_array/_materialize.py",
  "    expr = _lower(expr, optimize_graph)\n    if optimize_graph:\n        expr = expr.fuse()\n", "    expr = _lower(expr, optimize_graph)\n    if not optimize_graph:\n        return expr\n    expr = expr.fuse()\n", expect="_materialize")
V("c04-keys-cache-kept", "C04", "R04.8", "dask_array/_collection.py",
  'for cached in ("_lowered_expr", "_lowered_expr_optimize_graph", "_cached_dask_keys"):', 'for cached in ("_lowered_expr", "_lowered_expr_optimize_graph"):', expect="_cached_dask_keys")
V("c06-token-lossy-wrapper", "C06", "R06.1", "dask_array/reductions/_reduction.py",
  "                self.func, self.array, self.split_every, self.keepdims, self.dtype\n", "                self.func, self.array, tuple(sorted(self.split_every)), self.keepdims, self.dtype\n", expect="PartialReduce::split_every")

# ---------------------------------------------------------------------------- C02
V("c02-elemwise-input-id-identity", "C02", "R02.2", "dask_array/_blockwise.py",
  "        for arrays with fewer dimensions or single-block dimensions.\n        \"\"\"\n        return self._broadcast_block_id(dep, block_id)", "        for arrays with fewer dimensions or single-block dimensions.\n        \"\"\"\n        return block_id", expect="Elemwise")
V("c02-new-fusable-permuting-class", "C02", "R02.3", "dask_array/_expr.py",
  None, "\n\nclass _Swap01(ArrayExpr):\n    _parameters = [\"array\"]\n    _is_blockwise_fusable = True\n\n    @property\n    def chunks(self):\n        return self.array.chunks[::-1]\n\n    def _input_block_id(self, dep, block_id):\n        return block_id[::-1]\n\n    def _task(self, key, block_id):\n        return Task(key, np.transpose, TaskRef((self.array._name, *block_id[::-1])))\n\n    def _layer(self):\n        return {}\n", expect="_Swap01")
V("c02-delayed-guard-dropped", "C02", "R02.4", "dask_array/_blockwise.py",
  "        if any(isinstance(op, Delayed) for op in self.operands):\n            return False\n", "", expect="_is_blockwise_fusable")
V("c02-conflict-skip-pairs", "C02", "R02.4", "dask_array/_blockwise.py",
  "    if len(group) <= 1:\n        return group\n\n    expr_names", "    if len(group) <= 2:\n        return group\n\n    expr_names", expect="_remove_conflicting_exprs")
V("c02-accept-slice-none-guard-dropped", "C02", "R02.4", "dask_array/_blockwise.py",
  "        # Don't handle None/newaxis\n        if any(idx is None for idx in index):\n            return None\n\n        # Pad index to full output length", "        # Pad index to full output length", expect="Blockwise._accept_slice")
V("c02-fused-ignores-input-block-id", "C02", "R02.3", "dask_array/_blockwise.py",
  "                    dep_block_id = expr._input_block_id(dep, my_block_id)", "                    dep_block_id = my_block_id", expect="FusedBlockwise._compute_block_ids")
V("c02-fused-deps-include-fused", "C02", "R02.5", "dask_array/_blockwise.py",
  "                if dep._name not in fused_names and dep._name not in seen:", "                if dep._name not in seen:", expect="FusedBlockwise.dependencies")
V("c02-twin-rename-local-in-guard", "C02", "-", "dask_array/_blockwise.py",
  "        out_idx_set = set(self.out_ind)\n        if self.new_axes:\n            out_idx_set |= set(self.new_axes.keys())\n        for arr, ind in toolz.partition(2, self.args):\n            if ind is not None and hasattr(arr, \"numblocks\"):\n                for dim, i in enumerate(ind):\n                    if i not in out_idx_set and arr.numblocks[dim] > 1:",
  "        kept = set(self.out_ind)\n        if self.new_axes:\n            kept |= set(self.new_axes.keys())\n        for arr, ind in toolz.partition(2, self.args):\n            if ind is not None and hasattr(arr, \"numblocks\"):\n                for dim, i in enumerate(ind):\n                    if i not in kept and arr.numblocks[dim] > 1:", twin=True)

# ---------------------------------------------------------------------------- C17
V("c17-realign-outside-coarse", "C17", "R17.1", "dask_array/_expr.py",
  "    if consolidate is coarse_blockdim and policy != \"coarse\":", "    if policy != \"coarse\":", expect="unify_chunks_expr")
V("c17-limit-narrowed", "C17", "R17.2", "dask_array/_expr.py",
  "    if limit and consolidate is coarse_blockdim:", "    if limit and consolidate is coarse_blockdim and fine is None:", expect="unify_chunks_expr")
V("c17-operand-reused-by-name", "C17", "R17.5", "dask_array/_expr.py",
  "                if not (target_has_nan and source_is_known):\n                    a = a.rechunk(chunks)\n                    changed = True\n        arrays.append(a)",
  "                if not (target_has_nan and source_is_known):\n                    a = _done.setdefault(a._name, a.rechunk(chunks))\n                    changed = True\n        arrays.append(a)", expect="unify_chunks_expr")
V("c17-refine-policy-coarsens", "C17", "R17.1", "dask_array/_expr.py",
  "    consolidate = common_blockdim if policy == \"refine\" else coarse_blockdim", "    consolidate = common_blockdim if policy == \"refine\" and not warn else coarse_blockdim", expect="unify_chunks_expr")
V("c17-twin-rename", "C17", "-", "dask_array/_expr.py",
  "                target_has_nan = any(c is not None and np.isnan(sum(c)) for c in chunks)\n                source_is_known = not any(np.isnan(sum(c)) for c in a.chunks)\n                if not (target_has_nan and source_is_known):",
  "                to_unknown = any(c is not None and np.isnan(sum(c)) for c in chunks)\n                from_known = not any(np.isnan(sum(c)) for c in a.chunks)\n                if not (to_unknown and from_known):", twin=True)

# ---------------------------------------------------------------------------- C27
V("c27-nan-unguarded", "C27", "R27.2", "dask_array/_rechunk.py",
  "        lo, _ = _rechunk_stage_transfer(old, new, itemsize)\n        return TransferBytes(lo, self.array.nbytes)", "        lo, _ = _rechunk_stage_transfer(old, new, itemsize)\n        return TransferBytes(lo, self.array.nbytes if lo else math.nan)", expect="P2PRechunk.transfer_bytes")
V("c27-alias-cost-deleted", "C27", "R27.3", "dask_array/_expr.py",
  "    @functools.cached_property\n    def transfer_bytes(self):\n        # Pure 1:1 alias layer -- no data moves.\n        return TransferBytes(0.0, 0.0)\n\n    def _frisky_layer(self):\n        from dask_array._frisky.blocks import BlocksLayer\n\n        # 1:1 alias of every block (same coord), like ChunksOverride.",
  "    def _frisky_layer(self):\n        from dask_array._frisky.blocks import BlocksLayer\n\n        # 1:1 alias of every block (same coord), like ChunksOverride.", expect="RootAlias")
V("c27-returns-tuple", "C27", "R27.1", "dask_array/_expr.py",
  "                hi += nbytes\n        return TransferBytes(lo, hi)", "                hi += nbytes\n        return lo + hi", expect="ArrayExpr.transfer_bytes")
V("c27-moved-fraction-guard-folded", "C27", "R27.4", "dask_array/_expr.py",
  "    total = sum(src)\n    if not total or src == dst:\n        return 0.0\n", "    if src == dst:\n        return 0.0\n    total = sum(src)\n", expect="moved_fraction")
V("c27-twin-comment", "C27", "-", "dask_array/_expr.py",
  "    total = sum(src)\n    if not total or src == dst:\n        return 0.0\n", "    total = sum(src)\n    if src == dst or not total:  # nothing moves\n        return 0.0\n", twin=True)

# ---------------------------------------------------------------------------- C28
V("c28-slice-nan-loop-deleted", "C28", "R28.1", "dask_array/slicing/_basic.py",
  "    for dim, ind in zip(shape, index):\n        if np.isnan(dim) and ind != slice(None, None, None):\n            raise ValueError(f\"Arrays chunk sizes are unknown: {shape}{unknown_chunk_message}\")\n", "", expect="slice_slices_and_integers")
V("c28-validate-rechunk-and", "C28", "R28.1", "dask_array/_rechunk.py",
  "            if not (math.isnan(old_shape) and math.isnan(new_shape)) or not np.array_equal(", "            if not (math.isnan(old_shape) and math.isnan(new_shape)) and not np.array_equal(", expect="_validate_rechunk")
V("c28-setitem-guard-weakened", "C28", "R28.1", "dask_array/_collection.py",
  "        if np.isnan(self.shape).any():\n            raise ValueError(f\"Arrays chunk sizes are unknown. {unknown_chunk_message}\")", "        if np.isnan(self.shape).all():\n            raise ValueError(f\"Arrays chunk sizes are unknown. {unknown_chunk_message}\")", expect="Array.__setitem__")
V("c28-known-to-unknown-rechunk", "C28", "R28.2", "dask_array/_expr.py",
  "                if not (target_has_nan and source_is_known):\n                    a = a.rechunk(chunks)", "                if not target_has_nan or source_is_known:\n                    a = a.rechunk(chunks)", expect="unify_chunks_expr")
V("c28-rechunk-chunks-skips-validate", "C28", "R28.2", "dask_array/_expr.py",
  "        result = Rechunk(self, resolved_chunks, threshold, block_size_limit, balance, method)\n        # Ensure that chunks are compatible\n        result.chunks\n        return result", "        result = Rechunk(self, resolved_chunks, threshold, block_size_limit, balance, method)\n        return result", expect="ArrayExpr.rechunk")
V("c28-compute-chunk-sizes-direct-store", "C28", "R28.3", "dask_array/_collection.py",
  "        self._replace_expr(ChunksOverride(self._expr, new_chunks))\n\n        return self", "        self._replace_expr(ChunksOverride(self._lowered_expr, new_chunks))\n\n        return self", expect="compute_chunk_sizes")
V("c28-twin-reordered-conjuncts", "C28", "-", "dask_array/slicing/_basic.py",
  "        if np.isnan(dim) and ind != slice(None, None, None):", "        if ind != slice(None, None, None) and np.isnan(dim):", twin=True)

# ---------------------------------------------------------------------------- C21
V("c21-skip-check-complete", "C21", "R21.1", "dask_array/_frisky/collect.py",
  "    if not shared:\n        _check_complete(records)\n    return records", "    if not shared and len(records) < 100000:\n        _check_complete(records)\n    return records", expect="collect_task_records")
V("c21-shared-computed-late", "C21", "R21.1", "dask_array/_frisky/collect.py",
  "    shared = seen is not None\n    if seen is None:\n        seen = set()\n    records = []", "    if seen is None:\n        seen = set()\n    shared = seen is not None\n    records = []", expect="collect_task_records")
V("c21-check-complete-warns", "C21", "R21.1", "dask_array/_frisky/collect.py",
  "        raise NotImplementedError(f\"records graph has {len(dangling)} dangling dep(s), e.g. {next(iter(dangling))}\")", "        import warnings\n\n        warnings.warn(f\"records graph has {len(dangling)} dangling dep(s)\")", expect="_check_complete")
V("c21-fallback-catches-everything", "C21", "R21.2", "dask_array/_frisky/collect.py",
  "            try:\n                layer = make_layer()\n            except (NotImplementedError, ImportError):\n                layer = None\n        if layer is None:\n            layer = GraphRecordsLayer(e)\n        records.extend(layer.to_task_records())",
  "            try:\n                layer = make_layer()\n            except Exception:\n                layer = None\n        if layer is None:\n            layer = GraphRecordsLayer(e)\n        records.extend(layer.to_task_records())", expect="_walk_records")
V("c21-layer-raises-valueerror", "C21", "R21.2", "dask_array/_blockwise.py",
  "            raise NotImplementedError(\"concatenate (variable fan-in)\")", "            raise ValueError(\"concatenate (variable fan-in)\")", expect="Blockwise._frisky_layer")
V("c21-walker-drops-deps", "C21", "R21.3", "dask_array/_frisky/collect.py",
  "        records.extend(layer.to_task_records())\n\n        stack.extend(e.dependencies())", "        records.extend(layer.to_task_records())\n        if layer is not None and not isinstance(layer, GraphRecordsLayer):\n            stack.extend(e.dependencies())", expect="_walk_records")
V("c21-task-before-nested", "C21", "R21.4", "dask_array/_frisky/graph_records.py",
  "        if isinstance(arg, NestedContainer) and arg.klass in (list, tuple):\n            return arg.klass(self.resolve(a, deps) for a in arg.args)\n        if isinstance(arg, Task):",
  "        if isinstance(arg, Task) and not hasattr(arg, \"klass\"):\n            pass\n        if isinstance(arg, NestedContainer) and arg.klass in (list, tuple):\n            return arg.klass(self.resolve(a, deps) for a in arg.args)\n        if isinstance(arg, Task):", expect="_Flattener.resolve")
V("c21-taskref-unnormalised", "C21", "R21.5", "dask_array/_frisky/graph_records.py",
  "            k = _norm_key(arg.key)\n            deps.add(str(k))\n            return TaskRef(k)\n        if isinstance(arg, Alias):", "            k = arg.key\n            deps.add(str(k))\n            return TaskRef(k)\n        if isinstance(arg, Alias):", expect="_Flattener.resolve")
V("c21-subkey-from-len", "C21", "R21.5", "dask_array/_frisky/graph_records.py",
  "            self._n += 1\n            sub_key = f\"{self.parent_key}-sub{self._n}\"", "            sub_key = f\"{self.parent_key}-sub{len(self.extra) + 1}\"", expect="_Flattener.resolve")
V("c21-hook-skips-support-check", "C21", "R21.6", "dask_array/_collection.py",
  "        from dask.core import flatten\n\n        self._check_frisky_supported()\n        return list(", "        from dask.core import flatten\n\n        return list(", expect="__frisky_output_keys__")
V("c21-twin-handler-order", "C21", "-", "dask_array/_frisky/collect.py",
  "            try:\n                layer = make_layer()\n            except (NotImplementedError, ImportError):\n                layer = None\n        if layer is None:\n            layer = GraphRecordsLayer(e)\n        records.extend(layer.to_task_records())",
  "            try:\n                layer = make_layer()\n            except (ImportError, NotImplementedError):\n                layer = None\n        if layer is None:\n            layer = GraphRecordsLayer(e)\n        records.extend(layer.to_task_records())", twin=True)

# ---------------------------------------------------------------------------- C23
V("c23-info-draws-live", "C23", "R23.1", "dask_array/random/_expr.py",
  "root_entropy = int.from_bytes(copy.deepcopy(self.rng._numpy_state).bytes(16), \"little\")",
  "root_entropy = int.from_bytes(self.rng._numpy_state.bytes(16), \"little\")", expect="Random._info")
V("c23-spawn-live", "C23", "R23.1", "dask_array/random/_expr.py",
  "seeds = copy.deepcopy(bitgen._seed_seq).spawn(n_bitgens)", "seeds = bitgen._seed_seq.spawn(n_bitgens)", expect="_spawn_bitgens")
V("c23-choice-state-live", "C23", "R23.1", "dask_array/random/_choice.py",
  "root_entropy = int.from_bytes(copy.deepcopy(self._state).bytes(16), \"little\")",
  "root_entropy = int.from_bytes(self._state.bytes(16), \"little\")", expect="RandomChoice.state_data")
V("c23-info-draws-through-local", "C23", "R23.1", "dask_array/random/_expr.py",
  "root_entropy = int.from_bytes(copy.deepcopy(self.rng._numpy_state).bytes(16), \"little\")",
  "st = self.rng._numpy_state\n            root_entropy = int.from_bytes(st.bytes(16), \"little\")", expect="Random._info")
V("c23-shallow-copy", "C23", "R23.1", "dask_array/random/_expr.py",
  "seeds = copy.deepcopy(bitgen._seed_seq).spawn(n_bitgens)", "seeds = copy.copy(bitgen)._seed_seq.spawn(n_bitgens)", expect="_spawn_bitgens")
V("c23-wrapfunc-live-operand", "C23", "R23.2", "dask_array/random/_utils.py",
  "expr = RandomNormal(frozen, size, chunks, extra_chunks, loc, scale)", "expr = RandomNormal(rng, size, chunks, extra_chunks, loc, scale)", expect="_wrap_func::RandomNormal.rng")
V("c23-snapshot-noop", "C23", "R23.2", "dask_array/random/_utils.py",
  "    return copy.deepcopy(rng)\n", "    return rng\n", expect="_snapshot_rng")
V("c23-choice-live-state", "C23", "R23.2", "dask_array/random/_random_state.py",
  "RandomChoice(a_val, a_expr, chunks, meta, _snapshot_rng(self._numpy_state), replace, p_expr)",
  "RandomChoice(a_val, a_expr, chunks, meta, self._numpy_state, replace, p_expr)", expect="RandomChoice._state")
V("c23-choice-kernel-consumes", "C23", "R23.3", "dask_array/random/_choice.py",
  "state = _rng_from_bitgen(copy.deepcopy(state_data))", "state = _rng_from_bitgen(state_data)", expect="_choice_rng")
V("c23-ship-bitgens", "C23", "R23.3", "dask_array/random/_expr.py",
  "            bitgens = [_bitgen._seed_seq for _bitgen in bitgens]\n", "", expect="payload for _apply_random_func")
V("c23-accept-slice", "C23", "R23.4", "dask_array/random/_expr.py",
  "    @property\n    def _name(self):\n        return self._info[1]\n",
  "    @property\n    def _name(self):\n        return self._info[1]\n\n    def _accept_slice(self, slice_expr):\n        return None\n", expect="Random::_accept_slice")
V("c23-rechunk-pushdown-true", "C23", "R23.4", "dask_array/random/_expr.py",
  "    _is_blockwise_fusable = True\n\n    @cached_property\n    def kwargs(self):",
  "    _is_blockwise_fusable = True\n    _can_rechunk_pushdown = True\n\n    @cached_property\n    def kwargs(self):", expect="_can_rechunk_pushdown")
V("c23-token-no-seeds", "C23", "R23.5", "dask_array/random/_expr.py",
  "token = tokenize(bitgen_token, self.size, self.chunks, self.args, self.kwargs)", "token = tokenize(self.size, self.chunks, self.args, self.kwargs)", expect="name covers seeds")
V("c23-token-lossy", "C23", "R23.5", "dask_array/random/_expr.py",
  "            bitgen_token = tokenize(bitgens)\n            bitgens = [_bitgen._seed_seq for _bitgen in bitgens]",
  "            bitgen_token = tokenize(len(bitgens))\n            bitgens = [_bitgen._seed_seq for _bitgen in bitgens]", expect="name covers seeds")
V("c23-info-plain-property", "C23", "R23.6", "dask_array/random/_expr.py",
  "    @cached_property\n    def _info(self):", "    @property\n    def _info(self):", expect="_info")
V("c23-collect-no-mro", "C23", "R23.6", "dask_array/_expr.py",
  "    names = set()\n    for parent in cls.__mro__:\n        for k, v in parent.__dict__.items():\n            if isinstance(v, functools.cached_property):\n                names.add(k)\n    return frozenset(names)\n",
  "    return frozenset(k for k, v in cls.__dict__.items() if isinstance(v, functools.cached_property))\n", expect="_collect_cached_property_names")
V("c23-task-size-index", "C23", "R23.7", "dask_array/random/_expr.py",
  "            sizes[flat_idx],\n", "            sizes[block_id[0]],\n", expect="Random._task")
V("c23-twin-rename-local", "C23", "-", "dask_array/random/_expr.py", None, None, twin=True, edits=[
  ("dask_array/random/_expr.py", "root_entropy = int.from_bytes(copy.deepcopy(self.rng._numpy_state).bytes(16), \"little\")",
   "private = copy.deepcopy(self.rng._numpy_state)\n            ent = int.from_bytes(private.bytes(16), \"little\")"),
  ("dask_array/random/_expr.py", "np.random.SeedSequence(root_entropy)\n                .generate_state(len(sizes) * 4, dtype=np.uint32)\n                .reshape(len(sizes), 4)",
   "np.random.SeedSequence(ent)\n                .generate_state(len(sizes) * 4, dtype=np.uint32)\n                .reshape(len(sizes), 4)"),
])
V("c23-twin-kernel-two-steps", "C23", "-", "dask_array/random/_choice.py",
  "    state = _rng_from_bitgen(copy.deepcopy(state_data))\n", "    bg = copy.deepcopy(state_data)\n    state = _rng_from_bitgen(bg)\n", twin=True)
V("c23-twin-wrapfunc-rename", "C23", "-", "dask_array/random/_utils.py", None, None, twin=True, edits=[
  ("dask_array/random/_utils.py", "    frozen = _snapshot_rng(rng)\n", "    snap = copy.deepcopy(rng)\n"),
  ("dask_array/random/_utils.py", "expr = RandomNormal(frozen, size,", "expr = RandomNormal(snap, size,"),
  ("dask_array/random/_utils.py", "expr = RandomPoisson(frozen, size,", "expr = RandomPoisson(snap, size,"),
  ("dask_array/random/_utils.py", "expr = Random(frozen, funcname,", "expr = Random(snap, funcname,"),
])

# ---------------------------------------------------------------------------- C07
V("c07-rechunk-name-uuid", "C07", "R07.1", "dask_array/_rechunk.py",
  "            return \"rechunk-merge-\" + tokenize(*self.operands)\n", "            import uuid\n\n            return \"rechunk-merge-\" + uuid.uuid4().hex\n", expect="Rechunk._name::uuid")
V("c07-reduction-token-id", "C07", "R07.1", "dask_array/reductions/_reduction.py",
  "                type(self),\n                self.chunk,\n                self.aggregate,\n                self.array,\n                self.axis,\n                self.keepdims,\n                self.operand(\"dtype\"),",
  "                type(self),\n                id(self.chunk),\n                self.aggregate,\n                self.array,\n                self.axis,\n                self.keepdims,\n                self.operand(\"dtype\"),", expect="Reduction.__dask_tokenize__::id")
V("c07-einsum-unsorted", "C07", "R07.1", "dask_array/_einsum.py",
  "        unused = sorted(einsum_symbols_set - set(used))", "        unused = list(einsum_symbols_set - set(used))", expect="einsum::set-order")
V("c07-outer-name-pid", "C07", "R07.1", "dask_array/_ufunc.py",
  "            name=self.__name__ + \".outer-\" + _tokenize_deterministic(self._ufunc),",
  "            name=self.__name__ + \".outer-\" + _tokenize_deterministic(self._ufunc) + str(__import__(\"os\").getpid() if False else time.time()),", expect="ufunc.outer::time",
  edits=[("dask_array/_ufunc.py", "            name=self.__name__ + \".outer-\" + _tokenize_deterministic(self._ufunc),",
          "            name=self.__name__ + \".outer-\" + _tokenize_deterministic(self._ufunc) + str(time.time()),"),
         ("dask_array/_ufunc.py", "from __future__ import annotations\n", "from __future__ import annotations\n\nimport time\n")])
V("c07-helper-returns-uuid", "C07", "R07.1", "dask_array/_ufunc.py", None, None, expect="ufunc.outer::uuid",
  edits=[("dask_array/_ufunc.py", "            name=self.__name__ + \".outer-\" + _tokenize_deterministic(self._ufunc),",
          "            name=self.__name__ + \".outer-\" + _fresh_suffix(self._ufunc),"),
         ("dask_array/_ufunc.py", None, "\n\ndef _fresh_suffix(obj):\n    import uuid\n\n    parts = [type(obj).__name__, uuid.uuid4().hex]\n    return \"-\".join(parts)\n")])
V("c07-name-hash-of-string", "C07", "R07.1", "dask_array/_rechunk.py",
  "        return \"rechunk-p2p-\" + tokenize(*self.operands)", "        return \"rechunk-p2p-\" + str(hash(str(self.operands)))", expect="::hash")
V("c07-reduce-no-token", "C07", "R07.2", "dask_array/_expr.py",
  "            *self.operands,\n            self.deterministic_token,\n            cache,\n        )", "            *self.operands,\n            None,\n            cache,\n        )", expect="ArrayExpr.__reduce__")
V("c07-reduce-own-dict-only", "C07", "R07.2", "dask_array/_expr.py",
  "            for k in type(self)._cached_property_names:\n                if k in self.__dict__ and k not in type(self)._pickle_excluded_cached_properties:\n                    cache[k] = self.__dict__[k]\n",
  "            for k, v in type(self).__dict__.items():\n                if isinstance(v, functools.cached_property) and k in self.__dict__ and k not in type(self)._pickle_excluded_cached_properties:\n                    cache[k] = self.__dict__[k]\n", expect="ArrayExpr.__reduce__")
V("c07-collect-no-mro", "C07", "R07.2", "dask_array/_expr.py",
  "    names = set()\n    for parent in cls.__mro__:\n        for k, v in parent.__dict__.items():\n            if isinstance(v, functools.cached_property):\n                names.add(k)\n    return frozenset(names)\n",
  "    return frozenset(k for k, v in vars(cls).items() if isinstance(v, functools.cached_property))\n", expect="_collect_cached_property_names")
V("c07-class-overrides-reduce", "C07", "R07.2", "dask_array/_rechunk.py",
  "    @property\n    def _name(self):\n        return \"rechunk-p2p-\" + tokenize(*self.operands)\n",
  "    @property\n    def _name(self):\n        return \"rechunk-p2p-\" + tokenize(*self.operands)\n\n    def __reduce__(self):\n        return type(self), tuple(self.operands)\n", expect="__reduce__")
V("c07-fromarray-token-not-cached", "C07", "R07.3", "dask_array/io/_from_array.py",
  "                    self._determ_token = uuid.uuid4().hex\n        return self._determ_token", "                    return uuid.uuid4().hex\n        return self._determ_token", expect="FromArray.__dask_tokenize__")
V("c07-getstate-pops-policy", "C07", "R07.5", "dask_array/_collection.py",
  "        state.pop(\"_cached_dask_keys\", None)\n        return state", "        state.pop(\"_cached_dask_keys\", None)\n        state.pop(\"_lowered_expr_optimize_graph\", None)\n        return state", expect="Array.__getstate__")
V("c07-setstate-filters", "C07", "R07.5", "dask_array/_collection.py",
  "        self.__dict__.update(state)\n", "        self.__dict__.update({k: v for k, v in state.items() if k == \"_expr\"})\n", expect="Array.__setstate__")
V("c07-twin-rename-token-local", "C07", "-", "dask_array/core/_conversion.py", None, None, twin=True, edits=[
  ("dask_array/core/_conversion.py", "    determ_token = None\n", "    tok = None\n"),
  ("dask_array/core/_conversion.py", "        determ_token = (FromArray, name_prefix, uuid.uuid1())", "        tok = (FromArray, name_prefix, uuid.uuid1())"),
  ("dask_array/core/_conversion.py", "            _determ_token=determ_token,", "            _determ_token=tok,"),
])
V("c07-twin-einsum-sorted-other-spelling", "C07", "-", "dask_array/_einsum.py",
  "        unused = sorted(einsum_symbols_set - set(used))", "        unused = list(sorted(einsum_symbols_set.difference(used)))", twin=True)
V("c07-twin-int-set-order", "C07", "-", "dask_array/_rechunk.py",
  "        return \"rechunk-p2p-\" + tokenize(*self.operands)", "        axes = list({i for i in range(self.array.ndim)})\n        return \"rechunk-p2p-\" + tokenize(axes, *self.operands)", twin=True)

# ---------------------------------------------------------------------------- C09
V("c09-rootalias-enters-cache", "C09", "R09.2", "dask_array/_expr.py",
  "        # would get this pin spliced into its middle on a cache hit.\n        return self\n",
  "        # would get this pin spliced into its middle on a cache hit.\n        return lowered.setdefault(self._name, self)\n", expect="RootAlias.lower_once")
V("c09-fromgraph-enters-cache", "C09", "R09.2", "dask_array/io/_from_graph.py",
  "        # silently spliced in on a cache hit.\n        return self\n",
  "        # silently spliced in on a cache hit.\n        lowered[self._name] = self\n        return self\n", expect="FromGraph.lower_once")
V("c09-exact-fromarray-enters-cache", "C09", "R09.2", "dask_array/io/_from_array.py",
  "        if self.operand(\"_name_is_exact\"):\n            return self\n        return super().lower_once(lowered)",
  "        return super().lower_once(lowered)", expect="FromArray.lower_once")
V("c09-lower-remembers-on-self", "C09", "R09.3", "dask_array/_rechunk.py",
  "    def _lower(self):\n        if not self.balance and (self.chunks == self.array.chunks):\n            return self.array\n",
  "    def _lower(self):\n        if not self.balance and (self.chunks == self.array.chunks):\n            self._noop = True\n            return self.array\n", expect="Rechunk._lower")
V("c09-hook-global", "C09", "R09.3", "dask_array/_rechunk.py",
  "    def _lower(self):\n        if not self.balance and (self.chunks == self.array.chunks):\n            return self.array\n",
  "    def _lower(self):\n        global _LAST_LOWERED\n        _LAST_LOWERED = self._name\n        if not self.balance and (self.chunks == self.array.chunks):\n            return self.array\n", expect="Rechunk._lower")
V("c09-module-memo-cache", "C09", "R09.5", "dask_array/_rechunk.py", None, None, expect="_METHOD_CACHE", edits=[
  ("dask_array/_rechunk.py", "    if method := config.get(\"array.rechunk.method\", None):", "    if old_chunks in _METHOD_CACHE:\n        return _METHOD_CACHE[old_chunks]\n    _METHOD_CACHE[old_chunks] = \"tasks\"\n    if method := config.get(\"array.rechunk.method\", None):"),
  ("dask_array/_rechunk.py", None, "\n_METHOD_CACHE = {}\n"),
])
V("c09-new-writer-of-lower-cache", "C09", "R09.1", "dask_array/_materialize.py",
  "    name = expr._name\n    chunks = expr.chunks\n\n    expr = _lower(expr, optimize_graph)\n",
  "    name = expr._name\n    chunks = expr.chunks\n\n    expr = _lower(expr, optimize_graph)\n    _LOWER_CACHE[name] = expr\n", expect="_materialize")
V("c09-lru-cache-reads-config", "C09", "R09.5", "dask_array/reductions/_reduction.py", None, None, expect="_default_split_every", edits=[
  ("dask_array/reductions/_reduction.py", "    split_every = split_every or config.get(\"split_every\", 16)\n", "    split_every = split_every or _default_split_every()\n"),
  ("dask_array/reductions/_reduction.py", "def _normalize_split_every(split_every, axis):", "@functools.lru_cache(maxsize=None)\ndef _default_split_every():\n    return config.get(\"split_every\", 16)\n\n\ndef _normalize_split_every(split_every, axis):"),
])
V("c09-lowered-expr-ignores-policy", "C09", "R09.4", "dask_array/_collection.py",
  "_materialize(self.expr, optimize_graph=self._lowered_expr_optimize_graph)", "_materialize(self.expr)", expect="Array._lowered_expr")
V("c09-twin-rename-cache-param", "C09", "-", "dask_array/io/_from_graph.py",
  "    def lower_once(self, lowered):\n        # An opaque graph", "    def lower_once(self, cache):\n        # An opaque graph", twin=True)
V("c09-twin-local-dict-in-hook", "C09", "-", "dask_array/_rechunk.py",
  "    def _lower(self):\n        if not self.balance and (self.chunks == self.array.chunks):\n            return self.array\n",
  "    def _lower(self):\n        seen = {}\n        seen[self._name] = True\n        if not self.balance and (self.chunks == self.array.chunks):\n            return self.array\n", twin=True)

# ---------------------------------------------------------------------------- C07 (R07.6 / R07.7)
V("c07-new-config-read-at-lowering", "C07", "R07.6", "dask_array/_rechunk.py",
  "    def _lower(self):\n        if not self.balance and (self.chunks == self.array.chunks):\n            return self.array\n",
  "    def _lower(self):\n        if config.get(\"array.rechunk.skip-noop\", True) and not self.balance and (self.chunks == self.array.chunks):\n            return self.array\n", expect="array.rechunk.skip-noop")
V("c07-split-every-resolved-at-lowering", "C07", "R07.7", "dask_array/reductions/_reduction.py",
  "            _normalize_split_every(split_every, axis),\n            combine,", "            _normalize_split_every(split_every, axis) if split_every else None,\n            combine,", expect="split_every")
V("c07-twin-split-every-local", "C07", "-", "dask_array/reductions/_reduction.py", None, None, twin=True, edits=[
  ("dask_array/reductions/_reduction.py", "            _normalize_split_every(split_every, axis),\n            combine,", "            fan_in,\n            combine,"),
  ("dask_array/reductions/_reduction.py", "    # Create the Reduction expression\n    result = new_collection(", "    # Create the Reduction expression\n    fan_in = _normalize_split_every(split_every, axis)\n    result = new_collection("),
])

# ---------------------------------------------------------------------------- C09 R09.7
V("c09-lower-unifies-live", "C09", "R09.7", "dask_array/_blockwise.py", None, None, expect="array.unify-chunks-policy", edits=[
  ("dask_array/_blockwise.py", "    def _lower(self):\n        if self.align_arrays:\n            _, arrays, changed = self._unified_args()\n            if changed:\n                args = []",
   "    def _lower(self):\n        if self.align_arrays:\n            _, arrays, changed = unify_chunks_expr(*self.args)\n            if changed:\n                args = []"),
])
V("c09-unify-pin-not-cached", "C09", "R09.7", "dask_array/_blockwise.py",
  "    @cached_property\n    def _unify_config(self):", "    @property\n    def _unify_config(self):", expect="array.unify-chunks")
V("c09-chunks-unifies-live", "C09", "R09.7", "dask_array/_blockwise.py",
  "            chunkss, arrays, _ = self._unified_args()\n", "            chunkss, arrays, _ = unify_chunks_expr(*self.args)\n", expect="array.unify-chunks")

V("c17-twin-unify-inlined", "C17", "-", "dask_array/_blockwise.py",
  "    def _lower(self):\n        if self.align_arrays:\n            _, arrays, changed = self._unified_args()\n            if changed:\n                args = []",
  "    def _lower(self):\n        if self.align_arrays:\n            _, arrays, changed = unify_chunks_expr(*self.args)\n            if changed:\n                args = []", twin=True)
V("c17-lower-skips-unify", "C17", "R17.3", "dask_array/_blockwise.py",
  "    def _lower(self):\n        if self.align_arrays:\n            _, arrays, changed = self._unified_args()\n            if changed:\n                args = []",
  "    def _lower(self):\n        if self.align_arrays:\n            arrays, changed = list(self.args[::2]), False\n            if changed:\n                args = []", expect="Blockwise._lower")

V("c07-fusion-visits-deps-in-hash-order", "C07", "R07.1", "dask_array/_blockwise.py",
  "                for dep_name in sorted(dependencies.get(node._name, ())):", "                for dep_name in dependencies.get(node._name, set()):", expect="_fusion_pass::set-order")

V("c07-kwargs-order-frozen-into-token", "C07", "R07.1", "dask_array/_blockwise.py",
  "                *args_token,\n                **kwargs_token,\n            )", "                *args_token,\n                tuple(kwargs_token.items()),\n            )", expect="Blockwise.__dask_tokenize__::mapping-order")
V("c07-twin-kwargs-sorted-items", "C07", "-", "dask_array/_blockwise.py",
  "                *args_token,\n                **kwargs_token,\n            )", "                *args_token,\n                tuple(sorted(kwargs_token.items())),\n            )", twin=True)
V("c07-main-callables-by-reference", "C07", "R07.8", "dask_array/_dispatch.py",
  "    if module == \"__main__\":\n        return None\n", "", expect="_importable_ref")
V("c07-locals-by-reference", "C07", "R07.8", "dask_array/_dispatch.py",
  "    if \"<\" in qualname:\n        return None\n", "", expect="_importable_ref")
V("c07-new-pickle-name", "C07", "R07.1", "dask_array/_rechunk.py",
  "        return \"rechunk-p2p-\" + tokenize(*self.operands)", "        import pickle\n\n        return \"rechunk-p2p-\" + hash_buffer_hex(pickle.dumps(tuple(self.operands)))", expect="P2PRechunk._name::pickle")

# ---------------------------------------------------------------------------- C29
V("c29-eager-slice-duck-arrays", "C29", "R29.1", "dask_array/io/_from_array.py",
  "        is_ndarray = type(source) in (np.ndarray, np.ma.core.MaskedArray)\n        region_shape",
  "        is_ndarray = type(source) in (np.ndarray, np.ma.core.MaskedArray) or hasattr(source, \"__array_function__\")\n        region_shape", expect="FromArray._accept_slice::subscript")
V("c29-eager-slice-inline-array", "C29", "R29.1", "dask_array/io/_from_array.py",
  "        if is_ndarray:\n            if region_shape == source.shape:", "        if is_ndarray or self.inline_array:\n            if region_shape == source.shape:", expect="FromArray._accept_slice::subscript")
V("c29-layer-slices-any-source", "C29", "R29.1", "dask_array/io/_from_array.py",
  "        if is_ndarray and not is_single_block and not lock:", "        if not is_single_block and not lock:", expect="FromArray._layer::subscript")
V("c29-meta-from-first-element", "C29", "R29.1", "dask_array/io/_from_array.py",
  "        return meta_from_array(self.array, dtype=getattr(self.array, \"dtype\", None))", "        return meta_from_array(self.array[(slice(0, 1),) * len(self._effective_shape)], dtype=getattr(self.array, \"dtype\", None))", expect="FromArray._meta::subscript")
V("c29-from-array-materializes", "C29", "R29.1", "dask_array/core/_conversion.py",
  "    if is_arraylike(x) and hasattr(x, \"copy\"):\n        x = x.copy()\n", "    if is_arraylike(x) and hasattr(x, \"copy\"):\n        x = x.copy()\n    elif hasattr(x, \"__array__\"):\n        x = np.asarray(x)\n", expect="from_array::call:asarray")
V("c29-storage-chunks-probe-reads", "C29", "R29.1", "dask_array/io/_from_array.py",
  "        raw_storage_chunks = _source_storage_chunks(self.array)\n", "        raw_storage_chunks = _source_storage_chunks(self.array)\n        probe = self.array[(0,) * len(self._effective_shape)]\n", expect="FromArray._accept_rechunk::subscript")
V("c29-user-func-called-in-meta", "C29", "R29.2", "dask_array/_blockwise.py",
  "                meta = meta_from_array(None, ndim=self.ndim, dtype=self.operand(\"dtype\"))\n            return meta",
  "                meta = meta_from_array(self.func(*self.args[::2]), ndim=self.ndim, dtype=self.operand(\"dtype\"))\n            return meta", expect="Blockwise._meta")
V("c29-compute-meta-raw-args", "C29", "R29.2", "dask_array/_utils.py",
  "func(*args_meta, **kwargs_meta)", "func(*args, **kwargs_meta)", expect="compute_meta")
V("c29-repr-computes", "C29", "R29.3", "dask_array/_collection.py",
  "    def __repr__(self):\n        name = self.name.rsplit(\"-\", 1)[0]\n", "    def __repr__(self):\n        name = self.name.rsplit(\"-\", 1)[0]\n        if self.size < 5:\n            return repr(self.compute())\n", expect="Array.__repr__")
V("c29-take-identity-unguarded", "C29", "R29.4", "dask_array/slicing/_basic.py",
  "        if not is_dask_collection(index):\n            # take(x, [0, 1, ..., n-1])", "        if index is not None:\n            # take(x, [0, 1, ..., n-1])", expect="take")
V("c29-broadcast-meta-raw", "C29", "R29.5", "dask_array/_broadcast_to.py",
  "            return meta_from_array(meta_override, ndim=len(self._shape))", "            return meta_override", expect="BroadcastTo::_meta_override")
V("c29-blockwise-meta-raw", "C29", "R29.5", "dask_array/_blockwise.py",
  "            # Use getattr for dtype since some metas (e.g., DataFrame) don't have .dtype\n",
  "            if type(self._meta_provided) is np.ndarray and self._meta_provided.ndim == self.ndim:\n                return self._meta_provided\n            # Use getattr for dtype since some metas (e.g., DataFrame) don't have .dtype\n", expect="Blockwise::_meta_provided")
V("c29-twin-rename-guard-alias", "C29", "-", "dask_array/io/_from_array.py", None, None, twin=True, edits=[
  ("dask_array/io/_from_array.py", "        is_ndarray = type(source) in (np.ndarray, np.ma.core.MaskedArray)\n        region_shape", "        numpy_source = type(source) in (np.ndarray, np.ma.core.MaskedArray)\n        region_shape"),
  ("dask_array/io/_from_array.py", "        if is_ndarray:\n            if region_shape == source.shape:", "        if numpy_source:\n            if region_shape == source.shape:"),
])
V("c29-twin-guard-inlined", "C29", "-", "dask_array/io/_from_array.py",
  "        if is_ndarray:\n            if region_shape == source.shape:", "        if type(source) in (np.ndarray, np.ma.core.MaskedArray) and region_nbytes >= 0:\n            if region_shape == source.shape:", twin=True)
V("c29-twin-meta-attr-reads", "C29", "-", "dask_array/io/_from_array.py",
  "        raw_storage_chunks = _source_storage_chunks(self.array)\n", "        raw_storage_chunks = _source_storage_chunks(self.array)\n        ndim_hint = getattr(self.array, \"ndim\", len(self.array.shape))\n", twin=True)

# ---------------------------------------------------------------------------- R06.7 / R06.8 / R21.7 / R25.4
V("c06-rewrite-keeps-user-name", "C06", "R06.7", "dask_array/creation/_ones_zeros.py",
  "                \"shape\": shuffle_expr.shape,\n                \"chunks\": shuffle_expr.chunks,\n                \"name\": None,\n", "                \"shape\": shuffle_expr.shape,\n                \"chunks\": shuffle_expr.chunks,\n", expect="BroadcastTrick._accept_shuffle")
V("c06-slice-rewrite-keeps-user-name", "C06", "R06.7", "dask_array/creation/_ones_zeros.py",
  "                \"shape\": slice_expr.shape,\n                \"chunks\": slice_expr.chunks,\n                \"name\": None,\n", "                \"shape\": slice_expr.shape,\n                \"chunks\": slice_expr.chunks,\n", expect="BroadcastTrick._accept_slice")
V("c06-taker-key-narrow", "C06", "R06.8", "dask_array/_shuffle.py",
  "                        taker_key = taker_name + tokenize(this_slice)", "                        taker_key = taker_name + tokenize(axis, this_slice[axis])", expect="Shuffle._layer")
V("c06-sorter-key-by-length", "C06", "R06.8", "dask_array/_shuffle.py",
  "            sorter_key = sorter_name + tokenize(sorter)", "            sorter_key = sorter_name + tokenize(len(sorter), axis)", expect="Shuffle._layer")
V("c06-twin-taker-key-local", "C06", "-", "dask_array/_shuffle.py",
  "                        taker_key = taker_name + tokenize(this_slice)", "                        payload_token = tokenize(this_slice)\n                        taker_key = taker_name + payload_token", twin=True)
V("c21-fused-deps-deduped", "C21", "R21.7", "dask_array/_frisky/fused_blockwise.py",
  "            dep_keys = [self._dep_key(dep_names, slot) for slot in slots]\n            refs = [TaskRef(dep_key) for dep_key in dep_keys]",
  "            dep_keys = list(dict.fromkeys(self._dep_key(dep_names, slot) for slot in slots))\n            refs = [TaskRef(dep_key) for dep_key in dep_keys]", expect="_fast_records")
V("c21-fused-refs-filtered", "C21", "R21.7", "dask_array/_frisky/fused_blockwise.py",
  "            refs = [TaskRef(dep_key) for dep_key in dep_keys]", "            refs = [TaskRef(dep_key) for dep_key in dep_keys if dep_key]", expect="_fast_records")
V("c21-twin-refs-generator", "C21", "-", "dask_array/_frisky/fused_blockwise.py",
  "            refs = [TaskRef(dep_key) for dep_key in dep_keys]\n            args = tuple(refs) + seeds", "            args = tuple(TaskRef(dep_key) for dep_key in dep_keys) + seeds", twin=True)
V("c25-process-pool-is-local", "C25", "R25.4", "dask_array/io/_store.py",
  "_LOCAL_SCHEDULERS = frozenset({\"sync\", \"synchronous\", \"single-threaded\", \"threads\", \"threading\"})", "_LOCAL_SCHEDULERS = frozenset({\"sync\", \"synchronous\", \"single-threaded\", \"threads\", \"threading\", \"processes\"})", expect="_nonlocal_scheduler_active")
V("c25-named-schedulers", "C25", "R25.4", "dask_array/io/_store.py",
  "        return active not in _LOCAL_SCHEDULERS", "        from dask.base import named_schedulers\n\n        return active not in named_schedulers", expect="_nonlocal_scheduler_active")
V("c25-twin-local-set-renamed", "C25", "-", "dask_array/io/_store.py", None, None, twin=True, edits=[
  ("dask_array/io/_store.py", "_LOCAL_SCHEDULERS = frozenset(", "_IN_PROCESS = frozenset("),
  ("dask_array/io/_store.py", "        return active not in _LOCAL_SCHEDULERS", "        return active not in _IN_PROCESS"),
])

V("c03-chunks-match-allclose", "C03", "R03.5", "dask_array/_expr.py",
  "        len(da) == len(db) and all(sa == sb or (math.isnan(sa) and math.isnan(sb)) for sa, sb in zip(da, db))\n",
  "        len(da) == len(db) and bool(np.allclose(np.asarray(da, dtype=float), np.asarray(db, dtype=float), equal_nan=True))\n", expect="_chunks_match")
V("c03-chunks-match-within-one", "C03", "R03.5", "dask_array/_expr.py",
  "        len(da) == len(db) and all(sa == sb or (math.isnan(sa) and math.isnan(sb)) for sa, sb in zip(da, db))\n",
  "        len(da) == len(db) and all(abs(sa - sb) < 1 or (math.isnan(sa) and math.isnan(sb)) for sa, sb in zip(da, db))\n", expect="_chunks_match")
V("c03-twin-chunks-match-shortcut", "C03", "-", "dask_array/_expr.py",
  "    if len(a) != len(b):\n        return False\n    return all(\n        len(da) == len(db) and all(sa == sb",
  "    if len(a) != len(b):\n        return False\n    if a is b:\n        return True\n    return all(\n        len(da) == len(db) and all(sa == sb", twin=True)

# ---------------------------------------------------------------------------- R25.5 / R09.5 closure / R12.5
V("c25-readback-uses-stale-region", "C25", "R25.5", "dask_array/io/_store.py",
  "            for s, r in zip(stored_persisted, regions_list):", "            for s in stored_persisted:", expect="store::r")
V("c25-twin-readback-enumerate", "C25", "-", "dask_array/io/_store.py",
  "            for s, r in zip(stored_persisted, regions_list):", "            for k, s in enumerate(stored_persisted):\n                r = regions_list[k]", twin=True)
V("c09-closure-memo", "C09", "R09.5", "dask_array/slicing/_utils.py", None, None, expect="closure cache", edits=[
  ("dask_array/slicing/_utils.py", "def _slice_1d(dim_shape, lengths, index):", "def _memo(func):\n    cache = {}\n\n    def wrapper(dim_shape, lengths, index):\n        key = hash((dim_shape, tuple(lengths), str(index)))\n        if key not in cache:\n            cache[key] = func(dim_shape, lengths, index)\n        return dict(cache[key])\n\n    return wrapper\n\n\n@_memo\ndef _slice_1d(dim_shape, lengths, index):"),
])
V("c12-take-identity-loose", "C12", "R12.5", "dask_array/slicing/_basic.py",
  "                if np.abs(index - arange).sum() == 0:\n                    return x", "                if index[0] == 0 and index[-1] == len(index) - 1:\n                    return x", expect="take")
V("c12-bounds-check-dropped", "C12", "R12.5", "dask_array/slicing/_vindex.py",
  "((ind >= size) | (ind < -size)).any()", "(ind >= size).any()", expect="_vindex")

# ---------------------------------------------------------------------------- R25.6
V("c25-store-node-named-by-content", "C25", "R25.6", "dask_array/io/_store.py",
  "                name=f\"store-map-{id(t)}\",\n", "                name=\"store-map\",\n", expect="store")
V("c25-blockwise-token-forgets-name", "C25", "R25.6", "dask_array/_blockwise.py",
  "                self.operand(\"name\") if \"name\" in self._parameters else None,\n", "", expect="token covers name")
V("c25-twin-store-name-via-local", "C25", "-", "dask_array/io/_store.py", None, None, twin=True, edits=[
  ("dask_array/io/_store.py", "                name=f\"store-map-{id(t)}\",\n", "                name=node_name,\n"),
  ("dask_array/io/_store.py", "        slices = ArraySliceDep(s.chunks)\n        arrays.append(\n            map_blocks(\n                load_store_chunk,", "        slices = ArraySliceDep(s.chunks)\n        node_name = f\"store-map-{id(t)}\"\n        arrays.append(\n            map_blocks(\n                load_store_chunk,"),
])

# ---------------------------------------------------------------------------- REF normal form twins
V("c12-twin-double-negation", "C12", "-", "dask_array/slicing/_basic.py",
  "    if np.isnan(x.chunks[axis]).any():\n        raise NotImplementedError(\"Slicing an array with unknown chunks with a dask.array of ints is not supported\")",
  "    if not (not np.isnan(x.chunks[axis]).any()):\n        raise NotImplementedError(\"Slicing an array with unknown chunks with a dask.array of ints is not supported\")", twin=True)
V("c12-twin-take-nested-to-and", "C12", "-", "dask_array/slicing/_basic.py",
  "            if len(index) == x.shape[axis]:\n                arange = arange_safe(len(index), like=index)\n                if np.abs(index - arange).sum() == 0:\n                    return x",
  "            if len(index) == x.shape[axis] and np.abs(index - arange_safe(len(index), like=index)).sum() == 0:\n                return x", twin=True)
V("c28-twin-nan-guard-else-form", "C28", "-", "dask_array/slicing/_basic.py",
  "    if np.isnan(x.chunks[axis]).any():\n        raise NotImplementedError(\"Slicing an array with unknown chunks with a dask.array of ints is not supported\")",
  "    if not np.isnan(x.chunks[axis]).any():\n        pass\n    else:\n        raise NotImplementedError(\"Slicing an array with unknown chunks with a dask.array of ints is not supported\")", twin=True)

V("c10-callable-object-mutates-argument", "C10", "R10.1", "dask_array/_frisky/fused_blockwise.py",
  "    def __call__(self, *dependencies):\n        return _execute_subgraph(self.subgraph, self.outkey, self.inkeys, *dependencies)",
  "    def __call__(self, *dependencies):\n        for d in dependencies:\n            d[...] = 0\n        return _execute_subgraph(self.subgraph, self.outkey, self.inkeys, *dependencies)", expect="_FusedSubgraph.__call__")

# ---------------------------------------------------------------------------- C16
V("c16-sum-check-dropped", "C16", "R16.2", "dask_array/_core_utils.py",
  "    if not allints and shape is not None:\n        if not all(c == s or (math.isnan(c) or math.isnan(s)) for c, s in zip(map(sum, chunks), shape)):\n            raise ValueError(f\"Chunks do not add up to shape. Got chunks={chunks}, shape={shape}\")\n",
  "", expect="adds-up-to-shape")
V("c16-sum-check-only-for-tuples", "C16", "R16.2", "dask_array/_core_utils.py",
  "    if not allints and shape is not None:\n        if not all(c == s", "    if not allints and shape is not None and len(shape) > 1:\n        if not all(c == s", expect="normalize_chunks")
V("c16-sum-check-tolerant", "C16", "R16.1", "dask_array/_core_utils.py",
  "        if not all(c == s or (math.isnan(c) or math.isnan(s)) for c, s in zip(map(sum, chunks), shape)):", "        if not all(c <= s or (math.isnan(c) or math.isnan(s)) for c, s in zip(map(sum, chunks), shape)):", expect="normalize_chunks")
V("c16-negative-bytes-accepted", "C16", "R16.1", "dask_array/_core_utils.py",
  "            if parsed < 0:\n                raise ValueError(f\"String chunk byte sizes must not be negative. Got {c!r}\")\n", "", expect="normalize_chunks")
V("c16-empty-tuple-accepted", "C16", "R16.2", "dask_array/_core_utils.py",
  "    for c in chunks:\n        if not c:\n            raise ValueError(\n                \"Empty tuples are not allowed in chunks. Express zero length dimensions with 0(s) in chunks\"\n            )\n", "", expect="empty-tuple")
V("c16-twin-rename", "C16", "-", "dask_array/_core_utils.py", None, None, twin=True, edits=[
  ("dask_array/_core_utils.py", "            parsed = parse_bytes(c)\n            if parsed < 0:", "            nbytes = parse_bytes(c)\n            if nbytes < 0:"),
  ("dask_array/_core_utils.py", "            if limit is None:\n                limit = parsed\n            elif parsed != limit:\n                raise ValueError(f\"Only one consistent value of limit or chunk is allowed. Used {parsed} != {limit}\")", "            if limit is None:\n                limit = nbytes\n            elif nbytes != limit:\n                raise ValueError(f\"Only one consistent value of limit or chunk is allowed. Used {nbytes} != {limit}\")"),
])

_C16_NEG = '    if any(\n        (isinstance(c, Number) and c < 0) or (isinstance(c, (tuple, list)) and any(isinstance(x, Number) and x < 0 for x in c))\n        for c in chunks\n    ):\n        raise ValueError(f"Chunk sizes must be non-negative (use -1 or None for a full axis). Got chunks={chunks}")\n'
V("c16-negative-size-refusal-dropped", "C16", "R16.3", "dask_array/_core_utils.py", _C16_NEG, "", expect="negative-size refusal")
V("c16-negative-size-refusal-scalars-only", "C16", "R16.1", "dask_array/_core_utils.py",
  "        (isinstance(c, Number) and c < 0) or (isinstance(c, (tuple, list)) and any(isinstance(x, Number) and x < 0 for x in c))\n", "        (isinstance(c, Number) and c < 0)\n", expect="normalize_chunks")
V("c16-negative-size-refusal-only-without-shape", "C16", "R16.1", "dask_array/_core_utils.py",
  "    if any(\n        (isinstance(c, Number) and c < 0) or", "    if shape is None and any(\n        (isinstance(c, Number) and c < 0) or", expect="normalize_chunks")
V("c16-twin-negative-refusal-in-helper", "C16", "-", "dask_array/_core_utils.py", None, None, twin=True, edits=[
  ("dask_array/_core_utils.py", _C16_NEG, "    _refuse_negative_sizes(chunks)\n"),
  ("dask_array/_core_utils.py", "def normalize_chunks(", "def _refuse_negative_sizes(chunks):\n" + _C16_NEG + "\n\ndef normalize_chunks("),
])

_C16_LB = '    largest_block = math.prod(cs if isinstance(cs, Number) else max(cs) for cs in chunks if cs != "auto")\n'
V("c16-budget-first-block", "C16", "R16.4", "dask_array/_core_utils.py", _C16_LB, _C16_LB.replace("max(cs)", "cs[0]"), expect="auto_chunks")
V("c16-budget-min-block", "C16", "R16.4", "dask_array/_core_utils.py", _C16_LB, _C16_LB.replace("max(cs)", "min(cs)"), expect="auto_chunks")
V("c16-budget-last-block", "C16", "R16.4", "dask_array/_core_utils.py", _C16_LB, _C16_LB.replace("max(cs)", "cs[-1]"), expect="auto_chunks")
V("c16-twin-budget-sorted-last", "C16", "-", "dask_array/_core_utils.py", _C16_LB, _C16_LB.replace("max(cs)", "sorted(cs)[-1]"), twin=True)
V("c16-twin-budget-np-max", "C16", "-", "dask_array/_core_utils.py", _C16_LB, _C16_LB.replace("max(cs)", "np.max(cs)"), twin=True)
V("c16-twin-budget-for-loop", "C16", "-", "dask_array/_core_utils.py", _C16_LB,
  "    largest_block = 1\n    for cs in chunks:\n        if cs == \"auto\":\n            continue\n        largest_block *= cs if isinstance(cs, Number) else max(cs)\n", twin=True)
V("c16-twin-budget-helper", "C16", "-", "dask_array/_core_utils.py", None, None, twin=True, edits=[
  ("dask_array/_core_utils.py", _C16_LB, "    largest_block = math.prod(_largest(cs) for cs in chunks if cs != \"auto\")\n"),
  ("dask_array/_core_utils.py", "def auto_chunks(", "def _largest(cs):\n    return cs if isinstance(cs, Number) else max(cs)\n\n\ndef auto_chunks("),
])

V("c16-share-live-set-size", "C16", "R16.5", "dask_array/_core_utils.py", None, None, expect="auto_chunks", edits=[
  ("dask_array/_core_utils.py", "                this_multiplier = multiplier ** (1 / len(last_autos))", "                this_multiplier = multiplier ** (1 / len(autos))"),
])
V("c16-twin-share-snapshot-count", "C16", "-", "dask_array/_core_utils.py", None, None, twin=True, edits=[
  ("dask_array/_core_utils.py", "            last_autos = set(autos)  # record previous values\n", "            n_autos = len(autos)  # record previous size\n"),
  ("dask_array/_core_utils.py", "                this_multiplier = multiplier ** (1 / len(last_autos))", "                this_multiplier = multiplier ** (1 / n_autos)"),
  ("dask_array/_core_utils.py", "                this_chunksize_tolerance = chunksize_tolerance ** (1 / len(last_autos))", "                this_chunksize_tolerance = chunksize_tolerance ** (1 / n_autos)"),
])

# ---------------------------------------------------------------------------- C24
V("c24-rechunk-pushdown-drops-getitem", "C24", "R24.1", "dask_array/io/_from_array.py",
  "            chunks,\n            lock=self.operand(\"lock\"),\n            getitem=self.operand(\"getitem\"),\n            inline_array=self.inline_array,",
  "            chunks,\n            lock=self.operand(\"lock\"),\n            inline_array=self.inline_array,", expect="_with_chunks")
V("c24-slice-pushdown-drops-lock", "C24", "R24.1", "dask_array/io/_from_array.py",
  "            new_chunks,\n            lock=self.operand(\"lock\"),\n", "            new_chunks,\n", expect="_accept_slice")
V("c24-slice-pushdown-forces-asarray", "C24", "R24.1", "dask_array/io/_from_array.py",
  "            meta=self.operand(\"meta\"),\n            asarray=self.operand(\"asarray\"),\n            fancy=self.operand(\"fancy\"),\n            _name_override=name,\n            _name_is_exact=True,\n            _region=new_region,",
  "            meta=self.operand(\"meta\"),\n            asarray=True,\n            fancy=self.operand(\"fancy\"),\n            _name_override=name,\n            _name_is_exact=True,\n            _region=new_region,", expect="asarray")
V("c24-from-array-drops-fancy", "C24", "R24.1", "dask_array/core/_conversion.py",
  "            asarray=asarray,\n            fancy=fancy,\n", "            asarray=asarray,\n", expect="from_array")
V("c24-from-array-always-locks", "C24", "R24.1", "dask_array/core/_conversion.py",
  "    if lock is True:\n        lock = SerializableLock()", "    if lock is not False:\n        lock = SerializableLock()", expect="from_array")
V("c24-region-tasks-unconditional-extras", "C24", "R24.2", "dask_array/io/_from_array.py",
  "                    dsk = {k: (getitem, self.array, slc, *extra) for k, slc in zip(keys, slices)}", "                    dsk = {k: (getitem, self.array, slc, self.asarray_arg, lock) for k, slc in zip(keys, slices)}", expect="_layer")
V("c24-region-extras-gate-one-keyword", "C24", "R24.2", "dask_array/io/_from_array.py",
  "                if has_keyword(getitem, \"asarray\") and has_keyword(getitem, \"lock\") and (not self.asarray_arg or lock):", "                if has_keyword(getitem, \"lock\") and (not self.asarray_arg or lock):", expect="_layer")
V("c24-arraylike-extras-swapped", "C24", "R24.2", "dask_array/_core_utils.py",
  "                graph[key] = (getitem, arr, slc, kwargs.get(\"asarray\", True), kwargs.get(\"lock\", None))", "                graph[key] = (getitem, arr, slc, kwargs.get(\"lock\", None), kwargs.get(\"asarray\", True))", expect="graph_from_arraylike")
V("c24-arraylike-extras-ungated", "C24", "R24.2", "dask_array/_core_utils.py",
  "    if has_keyword(getitem, \"asarray\") and has_keyword(getitem, \"lock\") and (not asarray or lock):\n        kwargs = {\"asarray\": asarray, \"lock\": lock}\n    else:\n        # Common case, drop extra parameters\n        kwargs = {}",
  "    if not asarray or lock:\n        kwargs = {\"asarray\": asarray, \"lock\": lock}\n    else:\n        # Common case, drop extra parameters\n        kwargs = {}", expect="graph_from_arraylike")
V("c24-getter-reads-before-lock", "C24", "R24.3", "dask_array/_core_utils.py",
  "    if lock:\n        lock.acquire()\n    try:\n        c = a[b]\n", "    c = a[b]\n    if lock:\n        lock.acquire()\n    try:\n        pass\n", expect="getter")
V("c24-getter-release-not-in-finally", "C24", "R24.3", "dask_array/_core_utils.py",
  "            c = np.asarray(c)\n    finally:\n        if lock:\n            lock.release()\n    return c", "            c = np.asarray(c)\n    finally:\n        pass\n    if lock:\n        lock.release()\n    return c", expect="getter")
V("c24-layer-eager-slices-with-lock", "C24", "R24.4", "dask_array/io/_from_array.py",
  "        if is_ndarray and not is_single_block and not lock:", "        if is_ndarray and not is_single_block:", expect="_layer")
V("c24-layer-eager-slices-any-source", "C24", "R24.4", "dask_array/io/_from_array.py",
  "        elif is_ndarray and is_single_block and not lock:", "        elif is_single_block and not lock:", expect="_layer")
V("c24-layer-arraylike-with-region", "C24", "R24.4", "dask_array/io/_from_array.py",
  "            if region is not None:\n                keys = list(product(", "            if region is not None and self.inline_array:\n                keys = list(product(", expect="graph_from_arraylike")
V("c24-layer-arraylike-without-lock", "C24", "R24.4", "dask_array/io/_from_array.py",
  "                    name=self._name,\n                    lock=lock,\n", "                    name=self._name,\n", expect="lock")
V("c24-layer-default-getter-overrides-custom", "C24", "R24.5", "dask_array/io/_from_array.py",
  "            getitem = self.operand(\"getitem\")\n            if getitem is None:\n                if self.operand(\"fancy\"):\n                    getitem = getter\n                else:\n                    getitem = getter_nofancy",
  "            getitem = self.operand(\"getitem\")\n            if getitem is None or region is not None:\n                if self.operand(\"fancy\"):\n                    getitem = getter\n                else:\n                    getitem = getter_nofancy", expect="_layer")
V("c24-twin-extras-as-ifexp", "C24", "-", "dask_array/io/_from_array.py",
  "                if has_keyword(getitem, \"asarray\") and has_keyword(getitem, \"lock\") and (not self.asarray_arg or lock):\n                    extra = (self.asarray_arg, lock)\n                else:\n                    extra = ()\n",
  "                extra = (self.asarray_arg, lock) if has_keyword(getitem, \"asarray\") and has_keyword(getitem, \"lock\") and (not self.asarray_arg or lock) else ()\n", twin=True)
V("c24-twin-rebuild-via-locals", "C24", "-", "dask_array/io/_from_array.py",
  "        name = f\"{self._name}-rechunk-{tokenize(self.chunks, chunks)}\"\n        return FromArray(\n            self.array,\n            chunks,\n            lock=self.operand(\"lock\"),\n            getitem=self.operand(\"getitem\"),",
  "        name = f\"{self._name}-rechunk-{tokenize(self.chunks, chunks)}\"\n        lk = self.operand(\"lock\")\n        gi = self.operand(\"getitem\")\n        return FromArray(\n            self.array,\n            chunks,\n            lock=lk,\n            getitem=gi,", twin=True)
V("c24-twin-getter-nested-lock-test", "C24", "-", "dask_array/io/_from_array.py",
  "        if is_ndarray and not is_single_block and not lock:", "        if is_ndarray and not lock and not is_single_block:", twin=True)

V("c24-twin-extras-from-helper", "C24", "-", "dask_array/_core_utils.py", None, None, twin=True, edits=[
  ("dask_array/_core_utils.py", "    if has_keyword(getitem, \"asarray\") and has_keyword(getitem, \"lock\") and (not asarray or lock):\n        kwargs = {\"asarray\": asarray, \"lock\": lock}\n    else:\n        # Common case, drop extra parameters\n        kwargs = {}\n", "    kwargs = _getter_kwargs(getitem, asarray, lock)\n"),
  ("dask_array/_core_utils.py", "def graph_from_arraylike(", "def _getter_kwargs(fn, asarray, lock):\n    if has_keyword(fn, \"asarray\") and has_keyword(fn, \"lock\") and (not asarray or lock):\n        return {\"asarray\": asarray, \"lock\": lock}\n    return {}\n\n\ndef graph_from_arraylike("),
])
V("c24-extras-from-helper-ungated", "C24", "R24.2", "dask_array/_core_utils.py", None, None, expect="graph_from_arraylike", edits=[
  ("dask_array/_core_utils.py", "    if has_keyword(getitem, \"asarray\") and has_keyword(getitem, \"lock\") and (not asarray or lock):\n        kwargs = {\"asarray\": asarray, \"lock\": lock}\n    else:\n        # Common case, drop extra parameters\n        kwargs = {}\n", "    kwargs = _getter_kwargs(getitem, asarray, lock)\n"),
  ("dask_array/_core_utils.py", "def graph_from_arraylike(", "def _getter_kwargs(fn, asarray, lock):\n    if not asarray or lock:\n        return {\"asarray\": asarray, \"lock\": lock}\n    return {}\n\n\ndef graph_from_arraylike("),
])
V("c24-getter-converts-after-release", "C24", "R24.3", "dask_array/_core_utils.py",
  "        if asarray and (not is_arraylike(c) or isinstance(c, np.matrix)):\n            c = np.asarray(c)\n    finally:\n        if lock:\n            lock.release()\n    return c",
  "    finally:\n        if lock:\n            lock.release()\n    if asarray and (not is_arraylike(c) or isinstance(c, np.matrix)):\n        c = np.asarray(c)\n    return c", expect="getter")
V("c24-eager-copy-by-relative-index", "C24", "R24.6", "dask_array/io/_from_array.py",
  "                source = source[new_region].copy()", "                source = source[region_index].copy()", expect="_accept_slice")
V("c24-twin-composed-region-renamed", "C24", "-", "dask_array/io/_from_array.py", None, None, twin=True, edits=[
  ("dask_array/io/_from_array.py", "            new_region = tuple(\n                _compose_slices(", "            composed = tuple(\n                _compose_slices("),
  ("dask_array/io/_from_array.py", "        else:\n            new_region = region_index\n", "        else:\n            composed = region_index\n"),
  ("dask_array/io/_from_array.py", "zip(new_region, source.shape))\n        region_nbytes", "zip(composed, source.shape))\n        region_nbytes"),
  ("dask_array/io/_from_array.py", "                new_region = None\n            elif region_nbytes <= _NUMPY_SLICE_PUSHDOWN_NBYTES_LIMIT:\n                source = source[new_region].copy()\n                new_region = None", "                composed = None\n            elif region_nbytes <= _NUMPY_SLICE_PUSHDOWN_NBYTES_LIMIT:\n                source = source[composed].copy()\n                composed = None"),
  ("dask_array/io/_from_array.py", "            _region=new_region,", "            _region=composed,"),
  ("dask_array/io/_from_array.py", "tokenize(old_region, region_index, new_region)", "tokenize(old_region, region_index, composed)"),
])
V("c25-npy-reader-wants-unwritten-key", "C25", "R25.7", "dask_array/io/_from_npy_stack.py",
  "        axis = info[\"axis\"]", "        axis = info[\"stack_axis\"]", expect="stack_axis")
V("c25-npy-writer-pads-file-names", "C25", "R25.7", "dask_array/io/_to_npy_stack.py",
  "os.path.join(dirname, f\"{i}.npy\")", "os.path.join(dirname, f\"{i:04d}.npy\")", expect="block file")
V("c25-npy-writer-keeps-other-axes-chunked", "C25", "R25.7", "dask_array/io/_to_npy_stack.py",
  "    chunks = tuple((c if i == axis else (sum(c),)) for i, c in enumerate(x.chunks))", "    chunks = tuple((c if i >= axis else (sum(c),)) for i, c in enumerate(x.chunks))", expect="to_npy_stack")
V("c25-npy-info-records-source-chunks", "C25", "R25.7", "dask_array/io/_to_npy_stack.py",
  "    meta = {\"chunks\": chunks, \"dtype\": x.dtype, \"axis\": axis}", "    meta = {\"chunks\": x.chunks, \"dtype\": x.dtype, \"axis\": axis}", expect="info")
V("c25-twin-npy-percent-format-names", "C25", "-", "dask_array/io/_from_npy_stack.py",
  "os.path.join(dirname, f\"{i}.npy\")", "os.path.join(dirname, \"%d.npy\" % i)", twin=True)
V("c25-twin-index-rebind-as-ifexp", "C25", "-", "dask_array/io/_store.py",
  "        if index:\n            index = fuse_slice(region, index)\n        else:\n            index = region\n", "        index = fuse_slice(region, index) if index else region\n", twin=True)
V("c25-index-rebind-ifexp-swapped", "C25", "R25.2", "dask_array/io/_store.py",
  "        if index:\n            index = fuse_slice(region, index)\n        else:\n            index = region\n", "        index = region if index else fuse_slice(region, index)\n", expect="load_store_chunk")

V("c07-rechunk-name-memoising-pickle-again", "C07", "R07.1", "dask_array/_rechunk.py", None, None, expect="Rechunk._name", edits=[
  ("dask_array/_rechunk.py", "from dask_array.io._from_map import _dumps5_nomemo\n", "from dask_array.io._from_map import _dumps5\n"),
  ("dask_array/_rechunk.py", "hash_buffer_hex(_dumps5_nomemo((self.array._name, *non_array)))", "hash_buffer_hex(_dumps5((self.array._name, *non_array)))"),
])
V("c07-nomemo-pickler-memo-left-on", "C07", "R07.1", "dask_array/io/_from_map.py",
  "    pickler = pickle.Pickler(buf, protocol=5)\n    pickler.fast = True\n", "    pickler = pickle.Pickler(buf, protocol=5)\n", expect="Rechunk._name")
V("c07-twin-nomemo-pickler-renamed", "C07", "-", "dask_array/io/_from_map.py",
  "    buf = io.BytesIO()\n    pickler = pickle.Pickler(buf, protocol=5)\n    pickler.fast = True\n    pickler.dump(obj)\n    out = buf.getvalue()\n", "    sink = io.BytesIO()\n    p = pickle.Pickler(sink, protocol=5)\n    p.fast = True\n    p.dump(obj)\n    out = sink.getvalue()\n", twin=True)
V("c07-blockwise-token-forgets-unify-settings", "C07", "R07.6", "dask_array/_blockwise.py",
  "                self.operand(\"token\") if \"token\" in self._parameters else None,\n                *self._unify_token,\n", "                self.operand(\"token\") if \"token\" in self._parameters else None,\n", expect="Blockwise._lower")
V("c07-elemwise-token-forgets-unify-settings", "C07", "R07.6", "dask_array/_blockwise.py",
  "                self._determ_token = _tokenize_deterministic(type(self), *self._unify_token, *self.operands)", "                self._determ_token = _tokenize_deterministic(type(self), *self.operands)", expect="Elemwise._lower")
V("c07-unify-token-reads-config-live", "C07", "R07.6", "dask_array/_blockwise.py",
  "        settings = self._unify_config\n        if settings == {\"policy\": \"auto\", \"limit\": None}:", "        settings = {\"policy\": config.get(\"array.unify-chunks-policy\", \"auto\"), \"limit\": config.get(\"array.unify-chunks-limit\", None)}\n        if settings == {\"policy\": \"auto\", \"limit\": None}:", expect="lowering-config")
V("c07-twin-unify-token-renamed", "C07", "-", "dask_array/_blockwise.py", None, None, twin=True, edits=[
  ("dask_array/_blockwise.py", "    def _unify_token(self):", "    def _planner_token(self):"),
  ("dask_array/_blockwise.py", "                *self._unify_token,\n                *args_token,", "                *self._planner_token,\n                *args_token,"),
  ("dask_array/_blockwise.py", "_tokenize_deterministic(type(self), *self._unify_token, *self.operands)", "_tokenize_deterministic(type(self), *self._planner_token, *self.operands)"),
  ("dask_array/_blockwise.py", "                    type(self), *self._unify_token, *(token_or_identity(o) for o in self.operands)", "                    type(self), *self._planner_token, *(token_or_identity(o) for o in self.operands)"),
])
# ---------------------------------------------------------------------------- C22
V("c22-wrapper-passes-extra-argument", "C22", "R22.1", "dask_array/_frisky/creation.py",
  "        self._rust = _rust.CreationLayer(name, func, kwargs or {}, chunks)", "        self._rust = _rust.CreationLayer(name, func, kwargs or {}, chunks, None)", expect="CreationLayer")
V("c22-wrapper-drops-argument", "C22", "R22.1", "dask_array/_frisky/squeeze.py",
  "            list(numblocks),\n            input_ndim,\n", "            list(numblocks),\n", expect="SqueezeLayer")
V("c22-wrapper-unknown-keyword", "C22", "R22.1", "dask_array/_frisky/creation.py",
  "        self._rust = _rust.CreationLayer(name, func, kwargs or {}, chunks)", "        self._rust = _rust.CreationLayer(name, func, kwargs or {}, chunk_sizes=chunks)", expect="CreationLayer")
V("c22-rust-constructor-gains-parameter", "C22", "R22.1", "crates/dask-array-python/src/squeeze.rs",
  "        input_ndim: usize,\n        axis_set: Vec<usize>,\n    ) -> Self {", "        input_ndim: usize,\n        axis_set: Vec<usize>,\n        keepdims: bool,\n    ) -> Self {", expect="SqueezeLayer")
V("c22-rust-class-not-registered", "C22", "R22.1", "crates/dask-array-python/src/lib.rs",
  "    m.add_class::<squeeze::SqueezeLayer>()?;\n", "", expect="SqueezeLayer")
V("c22-rust-method-renamed", "C22", "R22.2", "crates/dask-array-python/src/stack.rs",
  "    fn to_task_records<'py>(&self, py: Python<'py>)", "    fn to_records<'py>(&self, py: Python<'py>)", expect="StackLayer")
V("c22-wrapper-keeps-native-object-elsewhere", "C22", "R22.2", "dask_array/_frisky/creation.py",
  "        self._rust = _rust.CreationLayer(name, func, kwargs or {}, chunks)", "        self._native = _rust.CreationLayer(name, func, kwargs or {}, chunks)", expect="CreationLayer")
V("c22-signature-gains-required-parameter", "C22", "R22.1", "crates/dask-array-python/src/from_array.rs", None, None, expect="FromArrayGetterLayer", edits=[
  ("crates/dask-array-python/src/from_array.rs", "    #[pyo3(signature = (name, array, getitem, dims, inline_array, extra_args=None))]", "    #[pyo3(signature = (name, array, getitem, dims, inline_array, extra_args, region))]"),
  ("crates/dask-array-python/src/from_array.rs", "        inline_array: bool,\n        extra_args: Option<(bool, bool)>,\n    ) -> Self {", "        inline_array: bool,\n        extra_args: Option<(bool, bool)>,\n        region: Vec<(i64, i64)>,\n    ) -> Self {"),
])
V("c22-twin-signature-default-dropped-but-always-passed", "C22", "-", "crates/dask-array-python/src/from_array.rs",
  "    #[pyo3(signature = (name, array, getitem, dims, inline_array, extra_args=None))]", "    #[pyo3(signature = (name, array, getitem, dims, inline_array, extra_args))]", twin=True)
V("c22-twin-wrapper-uses-keywords", "C22", "-", "dask_array/_frisky/creation.py",
  "        self._rust = _rust.CreationLayer(name, func, kwargs or {}, chunks)", "        self._rust = _rust.CreationLayer(name, func, kwargs=kwargs or {}, chunks=chunks)", twin=True)
V("c22-twin-rust-comment-with-braces", "C22", "-", "crates/dask-array-python/src/squeeze.rs",
  "        input_ndim: usize,\n        axis_set: Vec<usize>,\n    ) -> Self {", "        input_ndim: usize, // } fn new(oops: {\n        axis_set: Vec<usize>, /* #[new] fn other(a: u8) { */\n    ) -> Self {\n        let _note = \"fn fake(x: i32) {\";", twin=True)

V("c03-expanddims-chunks-in-given-order", "C03", "R03.6", "dask_array/manipulation/_expand.py",
  "        for ax in sorted(self.axes):\n            chunks.insert(ax, (1,))", "        for ax in self.axes:\n            chunks.insert(ax, (1,))", expect="ExpandDims::axes")
V("c03-expanddims-layer-in-given-order", "C03", "R03.6", "dask_array/manipulation/_expand.py",
  "        axes = tuple(sorted(self.axes))\n        input_name = self.array._name", "        axes = self.axes\n        input_name = self.array._name", expect="ExpandDims::axes")
V("c03-twin-expanddims-sorted-once-in-a-property", "C03", "-", "dask_array/manipulation/_expand.py", None, None, twin=True, edits=[
  ("dask_array/manipulation/_expand.py", "    @functools.cached_property\n    def chunks(self):\n        chunks = list(self.array.chunks)\n        for ax in sorted(self.axes):", "    @functools.cached_property\n    def _ordered_axes(self):\n        return tuple(sorted(self.axes))\n\n    @functools.cached_property\n    def chunks(self):\n        chunks = list(self.array.chunks)\n        for ax in self._ordered_axes:"),
  ("dask_array/manipulation/_expand.py", "        axes = tuple(sorted(self.axes))\n        input_name = self.array._name", "        axes = self._ordered_axes\n        input_name = self.array._name"),
])
V("c28-slice-fusion-bypasses-the-door-again", "C28", "R28.4", "dask_array/slicing/_basic.py",
  "                if not any(np.isnan(dim) and idx != slice(None, None, None) for dim, idx in zip(shape, normalized)):\n                    fused_slice =", "                if True:\n                    fused_slice =", expect="_simplify_down")
V("c28-new-rewrite-builds-slice-node-directly", "C28", "R28.4", "dask_array/manipulation/_expand.py", None, None, expect="SliceSlicesIntegers(...)", edits=[
  ("dask_array/manipulation/_expand.py", None, "\n\ndef _trim_leading(expr, n):\n    from dask_array.slicing import SliceSlicesIntegers\n\n    return SliceSlicesIntegers(expr, (slice(n, None),) + (slice(None),) * (expr.ndim - 1), False)\n"),
])
V("c28-door-refusal-dropped", "C28", "R28.4", "dask_array/slicing/_basic.py",
  "    for dim, ind in zip(shape, index):\n        if np.isnan(dim) and ind != slice(None, None, None):\n            raise ValueError(f\"Arrays chunk sizes are unknown: {shape}{unknown_chunk_message}\")\n", "", expect="slice_slices_and_integers")
V("c28-twin-fusion-guard-as-early-continue", "C28", "-", "dask_array/slicing/_basic.py",
  "                if not any(np.isnan(dim) and idx != slice(None, None, None) for dim, idx in zip(shape, normalized)):\n                    fused_slice =",
  "                partial_unknown = any(np.isnan(dim) and idx != slice(None, None, None) for dim, idx in zip(shape, normalized))\n                if not partial_unknown:\n                    fused_slice =", twin=True)
V("c12-stop-defaulted-with-or", "C12", "R12.6", "dask_array/slicing/_utils.py",
  "            if idx.start in (None, 0) and idx.stop is None and idx.step in (None, 1):\n                return slice(None, None, None)\n            return idx", "            if idx.step in (None, 1):\n                return slice(idx.start or None, idx.stop or None, None)\n            return idx", expect="normalize_slice")
V("c12-twin-stop-compared-with-none", "C12", "-", "dask_array/slicing/_utils.py",
  "            if idx.start in (None, 0) and idx.stop is None and idx.step in (None, 1):", "            if (idx.start is None or idx.start == 0) and idx.stop is None and (idx.step is None or idx.step == 1):", twin=True)
V("c22-wrapper-passes-string-for-vector", "C22", "R22.5", "dask_array/_frisky/diag.py",
  "        self._rust = _rust.Diag2DSimpleLayer(name, np.diag, {}, dep_name, int(nblocks))", "        self._rust = _rust.Diag2DSimpleLayer(name, np.diag, {}, dep_name, str(nblocks))", expect="Diag2DSimpleLayer")
V("c22-rust-option-parameter-without-default", "C22", "R22.1", "crates/dask-array-python/src/squeeze.rs",
  "        input_ndim: usize,\n        axis_set: Vec<usize>,\n    ) -> Self {", "        input_ndim: usize,\n        axis_set: Vec<usize>,\n        region: Option<Vec<i64>>,\n    ) -> Self {", expect="SqueezeLayer")
V("c22-twin-rust-formatting", "C22", "-", "crates/dask-array-python/src/from_array.rs", None, None, twin=True, edits=[
  ("crates/dask-array-python/src/from_array.rs", "    #[new]\n    #[pyo3(signature = (name, array, getitem, dims, inline_array, extra_args=None))]\n    fn new(", "    /// Build the layer.  `fn new(` appears in this doc comment { on purpose }.\n    #[pyo3(\n        signature = (\n            name, array, getitem,\n            dims, inline_array,\n            extra_args = None,\n        )\n    )]\n    #[allow(clippy::too_many_arguments)]\n    #[new]\n    pub fn new("),
])
V("c22-twin-rust-generic-lifetime-constructor", "C22", "-", "crates/dask-array-python/src/squeeze.rs",
  "    fn new(\n        name: String,\n        func: Py<PyAny>,", "    fn new<'py>(\n        _py: Python<'py>,\n        name: String,\n        func: Py<PyAny>,", twin=True)
V("c22-expression-passes-extra-argument-to-wrapper", "C22", "R22.4", "dask_array/io/_from_array.py",
  "            return FromArrayLayer(self._name, self.array, self.chunks, self.operand(\"_region\"))", "            return FromArrayLayer(self._name, self.array, self.chunks, self.operand(\"_region\"), self.operand(\"lock\"))", expect="FromArrayLayer")
V("c22-wrapper-init-gains-required-parameter", "C22", "R22.4", "dask_array/_frisky/creation.py",
  "    def __init__(self, name, func, chunks, kwargs=None):", "    def __init__(self, name, func, chunks, dtype, kwargs=None):", expect="CreationLayer")
V("c22-twin-expression-calls-wrapper-with-keywords", "C22", "-", "dask_array/io/_from_array.py",
  "            return FromArrayLayer(self._name, self.array, self.chunks, self.operand(\"_region\"))", "            return FromArrayLayer(self._name, self.array, self.chunks, region=self.operand(\"_region\"))", twin=True)
V("c21-resolve-skips-tuple-elements", "C21", "R21.8", "dask_array/_frisky/graph_records.py",
  "        if isinstance(arg, tuple):\n            return tuple(self.resolve(a, deps) for a in arg)", "        if isinstance(arg, tuple):\n            return tuple(a for a in arg)", expect="resolve")
V("c21-resolve-dict-values-untranslated", "C21", "R21.8", "dask_array/_frisky/graph_records.py",
  "            return {k: self.resolve(v, deps) for k, v in arg.items()}", "            return {k: v for k, v in arg.items()}", expect="resolve")
V("c21-twin-resolve-list-as-loop", "C21", "-", "dask_array/_frisky/graph_records.py",
  "        if isinstance(arg, list):\n            return [self.resolve(a, deps) for a in arg]", "        if isinstance(arg, list):\n            out = []\n            for a in arg:\n                r = self.resolve(a, deps)\n                out.append(r)\n            return out", twin=True)
V("c06-percentile-token-forgets-method", "C06", "R06.9", "dask_array/reductions/_percentile.py",
  "        token = tokenize(a, q, method)", "        token = tokenize(a, q, internal_method)", expect="percentile")
V("c06-twin-percentile-token-via-local", "C06", "-", "dask_array/reductions/_percentile.py",
  "        token = tokenize(a, q, method)", "        ingredients = (a, q, method)\n        token = tokenize(*ingredients)", twin=True)
V("c03-grid-contract-direct-dependents-only", "C03", "R03.7", "dask_array/_expr.py",
  "            if self._has_grid_sensitive_dependent(node, dependents, _seen):\n                return True\n", "", expect="_has_grid_sensitive_dependent")
V("c03-grid-contract-recursion-result-ignored", "C03", "R03.7", "dask_array/_expr.py",
  "            if self._has_grid_sensitive_dependent(node, dependents, _seen):\n                return True\n", "            self._has_grid_sensitive_dependent(node, dependents, _seen)\n", expect="_has_grid_sensitive_dependent")
V("c03-twin-grid-contract-worklist", "C03", "-", "dask_array/_expr.py",
  "        _seen = set() if _seen is None else _seen\n        for ref in dependents.get(expr._name, ()):\n            node = ref()\n            if node is None or node._name in _seen:\n                continue\n            _seen.add(node._name)\n            requires = getattr(node, \"_requires_grid_preservation\", None)\n            if requires is not None and requires(expr):\n                return True\n            if self._has_grid_sensitive_dependent(node, dependents, _seen):\n                return True\n        return False",
  "        _seen = set() if _seen is None else _seen\n        frontier = [expr]\n        while frontier:\n            below = frontier.pop()\n            for ref in dependents.get(below._name, ()):\n                node = ref()\n                if node is None or node._name in _seen:\n                    continue\n                _seen.add(node._name)\n                requires = getattr(node, \"_requires_grid_preservation\", None)\n                if requires is not None and requires(below):\n                    return True\n                frontier.append(node)\n        return False", twin=True)
V("c20-sliding-window-fusion-ignores-grid-contract", "C20", "R20.5", "dask_array/_overlap.py",
  "                    return self._unless_grid_observed(parent, dependents, native)\n", "                    return native\n", expect="SlidingWindowView._simplify_up")
V("c20-sliding-window-contract-helper-never-declines", "C20", "R20.5", "dask_array/_overlap.py",
  "        if fused.chunks != parent.chunks and self._has_grid_sensitive_dependent(parent, dependents):\n            return None\n        return fused", "        return fused", expect="SlidingWindowView._simplify_up")
V("c20-blocks-not-grid-sensitive", "C20", "R20.6", "dask_array/slicing/_blocks.py",
  "    def _requires_grid_preservation(self, dependency):\n        # ``index`` addresses blocks of the grid the source advertised when\n        # ``x.blocks[...]`` was written.\n        return True\n\n", "", expect="Blocks")
V("c20-twin-sliding-window-fusion-guard-nested", "C20", "-", "dask_array/_overlap.py",
  "        return self._unless_grid_observed(parent, dependents, fused)\n\n    def _unless_grid_observed", "        if fused.chunks != parent.chunks and self._has_grid_sensitive_dependent(parent, dependents):\n            return None\n        return fused\n\n    def _unless_grid_observed", twin=True)
V("c03-slice-fusion-without-grid-check", "C03", "R03.8", "dask_array/slicing/_basic.py",
  "                    if _same_grid(fused_slice.chunks, self.chunks):\n                        return fused_slice", "                    return fused_slice", expect="SliceSlicesIntegers")
V("c03-new-simplify-down-rewrite-unreviewed", "C03", "R03.8", "dask_array/_broadcast_to.py", None, None, expect="_simplify_down", edits=[
  ("dask_array/_broadcast_to.py", "    def _accept_slice(self, slice_expr):", "    def _simplify_down(self):\n        if isinstance(self.array, BroadcastTo):\n            return BroadcastTo(self.array.array, self._shape, self._chunks, self.operand(\"_meta_override\"))\n\n    def _accept_slice(self, slice_expr):"),
])
V("c03-twin-slice-fusion-grid-check-via-equality", "C03", "-", "dask_array/slicing/_basic.py",
  "                    if _same_grid(fused_slice.chunks, self.chunks):\n                        return fused_slice", "                    if fused_slice.chunks == self.chunks:\n                        return fused_slice", twin=True)
V("c03-weighted-reduction-weights-not-aligned", "C03", "R03.9", "dask_array/reductions/_reduction.py",
  "        if wgt.chunks != x.chunks:\n            wgt = wgt.rechunk(x.chunks)\n", "", expect="reduction")
V("c07-reduction-lowering-unifies-again", "C07", "R07.6", "dask_array/reductions/_reduction.py",
  "            # x and the weights are on one grid by construction (see ``reduction``)\n            align_arrays=False,\n", "", expect="Reduction._lower")
V("c03-weights-aligned-only-when-coarser", "C03", "R03.9", "dask_array/reductions/_reduction.py",
  "        if wgt.chunks != x.chunks:\n            wgt = wgt.rechunk(x.chunks)\n", "        if wgt.chunks != x.chunks and wgt.npartitions < x.npartitions:\n            wgt = wgt.rechunk(x.chunks)\n", expect="reduction")
V("c03-twin-weights-aligned-unconditionally", "C03", "-", "dask_array/reductions/_reduction.py",
  "        if wgt.chunks != x.chunks:\n            wgt = wgt.rechunk(x.chunks)\n", "        wgt = wgt.rechunk(x.chunks)\n", twin=True)
V("c02-coarse-pushdown-accepts-empty-selection-again", "C02", "R02.4", "dask_array/_blockwise.py",
  "                if (first is None or last < first) and isinstance(adjust_chunks.get(out_ind[axis]), (tuple, list)):\n                    # An empty selection leaves one empty input block, which an\n                    # explicit per-block ``adjust_chunks`` tuple cannot describe.\n                    return None\n", "", expect="_accept_slice_coarse")
V("c04-reduction-layer-delegates-to-lowered-top", "C04", "R04.9", "dask_array/reductions/_reduction.py",
  "    def _simplify_up(self, parent, dependents):\n        \"\"\"Allow slice operations to push through Reduction.\"\"\"", "    def _layer(self):\n        return self.lower_completely()._layer()\n\n    def _simplify_up(self, parent, dependents):\n        \"\"\"Allow slice operations to push through Reduction.\"\"\"", expect="Reduction")
V("c04-twin-layer-calls-super", "C04", "-", "dask_array/reductions/_reduction.py",
  "    def _simplify_up(self, parent, dependents):\n        \"\"\"Allow slice operations to push through Reduction.\"\"\"", "    def _layer(self):\n        return super()._layer()\n\n    def _simplify_up(self, parent, dependents):\n        \"\"\"Allow slice operations to push through Reduction.\"\"\"", twin=True)
V("c05-blockwise-layer-without-unlowered-guard", "C05", "R05.9", "dask_array/_blockwise.py",
  "    def _layer(self):\n        graph = self._graph_if_unlowered()\n        if graph is not None:\n            return graph\n        arginds =", "    def _layer(self):\n        arginds =", expect="Blockwise._layer")
V("c05-stack-layer-without-unlowered-guard", "C05", "R05.9", "dask_array/stacking/_stack.py",
  "        graph = self._graph_if_unlowered()\n        if graph is not None:\n            return graph\n        keys = list(product(", "        keys = list(product(", expect="Stack._layer")
V("c05-unlowered-guard-never-materializes", "C05", "R05.9", "dask_array/_expr.py",
  "        try:\n            return ArrayExpr._layer(self)\n        except NotImplementedError:\n            # materializing changed nothing after all: the node is as lowered\n            # as it gets (e.g. unknown chunk sizes never unify to a fixpoint)\n            return None\n", "        return None\n", expect="_graph_if_unlowered")
V("c05-twin-unlowered-guard-walrus", "C05", "-", "dask_array/stacking/_stack.py",
  "        graph = self._graph_if_unlowered()\n        if graph is not None:\n            return graph\n        keys = list(product(", "        if (whole := self._graph_if_unlowered()) is not None:\n            return whole\n        keys = list(product(", twin=True)
V("c02-detector-uses-forward-permutation", "C02", "R02.6", "dask_array/_blockwise.py",
  "        inv = expr._inverse_axes\n        dep_mapping = tuple(parent_mapping[inv[i]] for i in range(len(inv)))", "        dep_mapping = tuple(parent_mapping[ax] for ax in expr.axes)", expect="_symbolic_mapping")
V("c02-twin-detector-local-rename", "C02", "-", "dask_array/_blockwise.py",
  "        inv = expr._inverse_axes\n        dep_mapping = tuple(parent_mapping[inv[i]] for i in range(len(inv)))", "        inverse = expr._inverse_axes\n        dep_mapping = tuple(parent_mapping[j] for j in inverse)", twin=True)

V("c02-new-user-func-node-slices-inputs", "C02", "R02.7", "dask_array/reductions/_cumulative.py", None, None, expect="CumReduction::_accept_slice", edits=[
  ("dask_array/reductions/_cumulative.py", "    _parameters = [\"array\", \"func\", \"binop\", \"ident\", \"axis\", \"_dtype\"]\n", "    _parameters = [\"array\", \"func\", \"binop\", \"ident\", \"axis\", \"_dtype\"]\n\n    def _accept_slice(self, slice_expr):\n        from dask_array._new_collection import new_collection\n\n        index = slice_expr.index\n        return type(self)(new_collection(self.array)[tuple(index)].expr, *self.operands[1:])\n"),
])

# -- task/kernel arity agreement (sa/rules/taskarity.py) ---------------------------------------------------------
V("c11-concatenate-chunks-calls-one-argument-kernel", "C11", "R11.8", "dask_array/slicing/_setitem.py",
  "from dask_array._core_utils import concatenate_shaped", "from dask_array._core_utils import concatenate3 as concatenate_shaped", expect="ConcatenateArrayChunks._layer")
V("c03-concatenate-chunks-calls-one-argument-kernel", "C03", "R03.10", "dask_array/slicing/_setitem.py",
  "from dask_array._core_utils import concatenate_shaped", "from dask_array._core_utils import concatenate3 as concatenate_shaped", expect="ConcatenateArrayChunks._layer")
V("c11-setitem-kernel-loses-value-parameter", "C11", "R11.8", "dask_array/slicing/_utils.py",
  "def setitem(x, v, indices):", "def setitem(x, indices):", expect="setitem_array_expr")
V("c03-stack-getitem-task-drops-index", "C03", "R03.10", "dask_array/_chunk.py",
  "def getitem(obj, index):", "def getitem(obj, index, asarray):", expect="getitem")
V("c03-shuffle-task-passes-unknown-keyword", "C03", "R03.10", "dask_array/_shuffle.py",
  "def concatenate_arrays(arrs, sorter, axis):", "def concatenate_arrays(arrs, sorter):", expect="Shuffle._layer")
V("c03-twin-kernel-gains-defaulted-parameter", "C03", "-", "dask_array/_shuffle.py",
  "def concatenate_arrays(arrs, sorter, axis):", "def concatenate_arrays(arrs, sorter, axis, _copy=False):", twin=True)
V("c11-twin-concatenate-shaped-renamed-import", "C11", "-", "dask_array/slicing/_setitem.py",
  "from dask_array._core_utils import concatenate_shaped", "from dask_array._core_utils import concatenate_shaped as _cs\n\nconcatenate_shaped = _cs", twin=True)
V("c03-isin-kernel-keyword-renamed", "C03", "R03.11", "dask_array/routines/_search.py",
  "def _isin_kernel(element, test_elements, assume_unique=False):\n    values = np.isin(element.ravel(), test_elements, assume_unique=assume_unique)", "def _isin_kernel(element, test_elements, unique=False):\n    values = np.isin(element.ravel(), test_elements, assume_unique=unique)", expect="isin")
V("c03-searchsorted-block-gains-required-parameter", "C03", "R03.11", "dask_array/routines/_search.py",
  "def _searchsorted_block(x, y, side):", "def _searchsorted_block(x, y, side, sorter):", expect="searchsorted")
V("c03-fftfreq-block-loses-parameter", "C03", "R03.11", "dask_array/fft.py",
  "def _fftfreq_block(i, n, d):", "def _fftfreq_block(i, n):\n    d = 1.0", expect="fftfreq")
V("c03-twin-matmul-kernel-defaulted-parameter", "C03", "-", "dask_array/linalg/_tensordot.py",
  "def _matmul(a, b):", "def _matmul(a, b, _xp=None):", twin=True)

# -- R02.8: rewrites that rebuild an Elemwise transform where/out with the inputs -----------------------------------
V("c02-elemwise-slice-leaves-where-out-unsliced", "C02", "R02.8", "dask_array/_blockwise.py",
  "            new_where,\n            new_out,\n            self.operand(\"_user_kwargs\"),\n            *new_args,\n        )\n\n    def _accept_shuffle", "            self.where,\n            self.out,\n            self.operand(\"_user_kwargs\"),\n            *new_args[: len(self.elemwise_args)],\n        )\n\n    def _accept_shuffle", expect="Elemwise._accept_slice")
V("c02-elemwise-shuffle-leaves-out-unshuffled", "C02", "R02.8", "dask_array/_blockwise.py",
  "        new_out = self.out\n        input_axis = get_input_axis(new_out) if hasattr(new_out, \"ndim\") else None\n        if input_axis is not None:\n            new_out = Shuffle(new_out, indexer, input_axis, name)\n            any_shuffled = True\n", "        new_out = self.out\n", expect="Elemwise._accept_shuffle")
V("c02-transpose-pushdown-leaves-where-untransposed", "C02", "R02.8", "dask_array/manipulation/_transpose.py",
  "        new_where = elemwise.where\n        if hasattr(new_where, \"ndim\"):\n            new_where = Transpose(new_where, axes)\n", "        new_where = elemwise.where\n", expect="_pushdown_through_elemwise")
V("c02-twin-elemwise-slice-declines-when-where-or-out-is-array", "C02", "-", "dask_array/_blockwise.py", None, None, twin=True, edits=[
  ("dask_array/_blockwise.py", "        out_ind = self.out_ind\n        index = slice_expr.index\n\n        # Pad index to full length", "        if isinstance(self.where, ArrayExpr) or isinstance(self.out, ArrayExpr):\n            return None\n        out_ind = self.out_ind\n        index = slice_expr.index\n\n        # Pad index to full length"),
  ("dask_array/_blockwise.py", "            new_where,\n            new_out,\n            self.operand(\"_user_kwargs\"),\n            *new_args,\n        )\n\n    def _accept_shuffle", "            self.where,\n            self.out,\n            self.operand(\"_user_kwargs\"),\n            *new_args,\n        )\n\n    def _accept_shuffle"),
])

# -- R02.9 / R02.10: multi-operand slice pushdowns look at each operand's own extent and grid -------------------------
V("c02-blockwise-slice-ignores-broadcast-axis", "C02", "R02.9", "dask_array/_blockwise.py",
  "                        if arg.shape[axis] == 1 and self.shape[out_pos] != 1 and idx != slice(None):\n", "                        if False:\n", expect="Blockwise._accept_slice")
V("c02-coarse-slice-ignores-broadcast-axis", "C02", "R02.9", "dask_array/_blockwise.py",
  "                            elif arg.shape[dim_idx] == 1:  # Broadcast: serves every block\n                                arg_slices.append(slice(None))\n", "", expect="_accept_slice_coarse")
V("c02-elemwise-slice-ignores-broadcast-axis", "C02", "R02.9", "dask_array/_blockwise.py",
  "                        if arg_shape[i] == 1:\n                            if isinstance(out_slice, slice):", "                        if False:\n                            if isinstance(out_slice, slice):", expect="Elemwise._accept_slice")
V("c02-coarse-slice-maps-blocks-of-unaligned-operands", "C02", "R02.10", "dask_array/_blockwise.py",
  "        if any(len(g) > 1 for g in grids.values()):\n            return None\n", "", expect="_accept_slice_coarse")
V("c02-twin-coarse-slice-grids-in-defaultdict", "C02", "-", "dask_array/_blockwise.py", None, None, twin=True, edits=[
  ("dask_array/_blockwise.py", "        grids = {}\n", "        from collections import defaultdict\n\n        grids = defaultdict(set)\n"),
  ("dask_array/_blockwise.py", "                    grids.setdefault(in_ind, set()).add(arg.chunks[dim_idx])\n", "                    grids[in_ind].add(arg.chunks[dim_idx])\n"),
])
V("c02-twin-blockwise-slice-broadcast-test-via-alias", "C02", "-", "dask_array/_blockwise.py",
  "                        if arg.shape[axis] == 1 and self.shape[out_pos] != 1 and idx != slice(None):\n", "                        arg_len = arg.shape[axis]\n                        if arg_len == 1 and self.shape[out_pos] != 1 and idx != slice(None):\n", twin=True)
V("c02-blockwise-shuffle-shuffles-broadcast-axis", "C02", "R02.9", "dask_array/_blockwise.py",
  "                if arr.shape[input_axis] == 1 and self.shape[axis] != 1:\n", "                if False:\n", expect="Blockwise._accept_shuffle")

# -- R04.10: the key grid is defined once ---------------------------------------------------------------------------
V("c04-vindex-flat-key-list-again", "C04", "R04.10", "dask_array/slicing/_vindex.py",
  "        return dsk\n", "        return dsk\n\n    def __dask_keys__(self):\n        return [(self._name,) + idx for idx in np.ndindex(tuple(len(c) for c in self.chunks))]\n", expect="VIndexArray")
V("c04-concatenate-keys-by-assignment", "C04", "R04.10", "dask_array/stacking/_stack.py",
  "    def _layer(self) -> dict:\n        graph = self._graph_if_unlowered()", "    __dask_keys__ = lambda self: [(self._name, 0)]\n\n    def _layer(self) -> dict:\n        graph = self._graph_if_unlowered()", expect="Stack")
V("c04-base-keys-not-from-cached-grid", "C04", "R04.10", "dask_array/_expr.py",
  "        key_refs = self._cached_keys\n\n        def unwrap(task):", "        key_refs = List(*[TaskRef((self._name,) + i) for i in np.ndindex(self.numblocks)])\n\n        def unwrap(task):", expect="ArrayExpr.__dask_keys__")
V("c04-twin-finalizer-keys-unchanged-spelling", "C04", "-", "dask_array/_expr.py",
  "    def __dask_keys__(self):\n        return [self._name]\n", "    def __dask_keys__(self):\n        name = self._name\n        return [name]\n", twin=True)

# -- R02.11: layout-literal operands are recomputed when a hook rebuilds its node ------------------------------------
V("c02-broadcast-to-shuffle-keeps-old-layout", "C02", "R02.11", "dask_array/_broadcast_to.py",
  "        return BroadcastTo(shuffled_input, tuple(shape), tuple(chunks), self._meta)\n", "        return BroadcastTo(shuffled_input, self._shape, self._chunks, self._meta)\n", expect="BroadcastTo._accept_shuffle")
V("c02-blockwise-shuffle-ignores-adjusted-index", "C02", "R02.11", "dask_array/_blockwise.py",
  "        adjust_chunks = getattr(self, \"adjust_chunks\", None)\n        if adjust_chunks and shuffle_ind in adjust_chunks:\n            return None\n\n        # Shuffle each array input", "        # Shuffle each array input", expect="Blockwise._accept_shuffle")
V("c02-twin-broadcast-to-shuffle-only-when-layout-kept", "C02", "-", "dask_array/_broadcast_to.py", None, None, twin=True, edits=[
  ("dask_array/_broadcast_to.py", "        # Push shuffle through to input\n        shuffled_input = Shuffle(", "        if shuffle_expr.shape != self.shape or shuffle_expr.chunks != self.chunks:\n            return None\n        # Push shuffle through to input\n        shuffled_input = Shuffle("),
  ("dask_array/_broadcast_to.py", "        return BroadcastTo(shuffled_input, tuple(shape), tuple(chunks), self._meta)\n", "        return BroadcastTo(shuffled_input, self._shape, self._chunks, self._meta)\n"),
])

# -- R02.12: index-space typing (sa/indexspace.py) -------------------------------------------------------------------
V("c02-coarse-operand-chunks-by-output-position", "C02", "R02.12", "dask_array/_blockwise.py",
  "in_cumsum = list(cached_cumsum(arg.chunks[dim_idx], initial_zero=True))", "in_cumsum = list(cached_cumsum(arg.chunks[out_pos], initial_zero=True))", expect="_accept_slice_coarse")
V("c02-blockwise-slice-index-by-operand-position", "C02", "R02.12", "dask_array/_blockwise.py",
  "                        idx = slice_index[out_pos]\n", "                        idx = slice_index[axis]\n", expect="Blockwise._accept_slice")
V("c02-elemwise-slice-index-by-operand-position", "C02", "R02.12", "dask_array/_blockwise.py",
  "                        out_slice = full_index[out_pos]\n", "                        out_slice = full_index[i]\n", expect="Elemwise._accept_slice")
V("c02-coarse-block-range-by-operand-position", "C02", "R02.12", "dask_array/_blockwise.py",
  "                        br = block_ranges[out_pos]\n", "                        br = block_ranges[dim_idx]\n", expect="_accept_slice_coarse")
V("c02-twin-coarse-operand-axis-renamed", "C02", "-", "dask_array/_blockwise.py", None, None, twin=True, edits=[
  ("dask_array/_blockwise.py", "                for dim_idx, in_ind in enumerate(arg_ind):\n                    try:\n                        out_pos = out_ind.index(in_ind)\n                        br = block_ranges[out_pos]", "                for ax, in_ind in enumerate(arg_ind):\n                    dim_idx = ax\n                    try:\n                        out_pos = out_ind.index(in_ind)\n                        br = block_ranges[out_pos]"),
])

# -- R02.13: Reshape is rebuilt through reshape() ---------------------------------------------------------------------
V("c02-reshape-slice-builds-node-directly", "C02", "R02.13", "dask_array/manipulation/_reshape.py",
  "        result = reshape(sliced_input, new_out_shape).expr\n", "        result = Reshape(sliced_input.expr, new_out_shape)\n", expect="Reshape._accept_slice")
V("c02-reshape-door-loses-single-partition-shortcut", "C02", "R02.13", "dask_array/manipulation/_reshape.py", None, None, expect="shortcuts", edits=[
  ("dask_array/manipulation/_reshape.py", "    if x.shape == shape:\n        return x\n", ""),
  ("dask_array/manipulation/_reshape.py", "    if npartitions == 1:\n        return new_collection(ReshapeLowered(expr, shape, tuple((d,) for d in shape)))\n", ""),
  ("dask_array/manipulation/_reshape.py", "        if len(shape) == 1 and x.ndim == 1:\n            return new_collection(x.expr)\n", ""),
])

# -- R04.11 / R04.12 ------------------------------------------------------------------------------------------------
V("c04-setitem-index-graph-merged-before-gather", "C04", "R04.11", "dask_array/slicing/_setitem.py",
  "                idx = concatenate_array_chunks_expr(idx)\n                idx_key = next(flatten(idx.__dask_keys__()))\n                dsk.update(dict(idx.__dask_graph__()))\n", "                dsk.update(dict(idx.__dask_graph__()))\n                idx = concatenate_array_chunks_expr(idx)\n                idx_key = next(flatten(idx.__dask_keys__()))\n", expect="setitem_array_expr")
V("c04-setitem-value-graph-merged-before-gather", "C04", "R04.11", "dask_array/slicing/_setitem.py",
  "        v = concatenate_array_chunks_expr(v)\n        v_key = next(flatten(v.__dask_keys__()))\n\n        # Merge value's graph into dsk\n        dsk.update(dict(v.__dask_graph__()))\n", "        dsk.update(dict(v.__dask_graph__()))\n        v = concatenate_array_chunks_expr(v)\n        v_key = next(flatten(v.__dask_keys__()))\n", expect="setitem_array_expr")
V("c04-bincount-not-grid-sensitive", "C04", "R04.12", "dask_array/routines/_bincount.py",
  "    def _requires_grid_preservation(self, dependency):\n        # ``_layer`` pairs the blocks of several inputs by position\n        return True\n\n", "", expect="BincountChunked")
V("c04-broadcast-to-not-grid-sensitive", "C04", "R04.12", "dask_array/_broadcast_to.py",
  "    def _requires_grid_preservation(self, dependency):\n        # ``_chunks`` carries the input's block grid along the real dimensions\n        return True\n\n", "", expect="BroadcastTo")
V("c04-histogram-grid-sensitivity-conditional", "C04", "R04.12", "dask_array/_histogram.py",
  "    def _requires_grid_preservation(self, dependency):\n        # ``_layer`` pairs the blocks of several inputs by position\n        return True\n\n    def _layer(self) -> dict:\n        from dask._task_spec import List as TaskList\n\n        dsk = {}\n        array_keys", "    def _requires_grid_preservation(self, dependency):\n        return dependency is self.weights\n\n    def _layer(self) -> dict:\n        from dask._task_spec import List as TaskList\n\n        dsk = {}\n        array_keys", expect="HistogramBinned")
V("c04-twin-grid-sensitivity-declared-in-mixin", "C04", "-", "dask_array/routines/_unique.py", None, None, twin=True, edits=[
  ("dask_array/routines/_unique.py", "    def _requires_grid_preservation(self, dependency):\n        # ``_layer`` pairs the blocks of several inputs by position\n        return True\n\n", ""),
  ("dask_array/routines/_unique.py", "class UniqueChunked(ArrayExpr):", "class _PairsBlocksByPosition:\n    def _requires_grid_preservation(self, dependency):\n        return True\n\n\nclass UniqueChunked(_PairsBlocksByPosition, ArrayExpr):"),
])
V("c12-shuffle-identity-shortcut-endpoints-only", "C12", "R12.5", "dask_array/_shuffle.py",
  "            if len(idx) != c or any(actual != expected for actual, expected in zip(idx, range(ctr, ctr + c))):", "            if len(idx) != c or (c and (idx[0] != ctr or idx[-1] != ctr + c - 1)):", expect="_shuffle")
V("c20-blockwise-tuple-adjust-chunks-not-grid-sensitive", "C20", "R20.6", "dask_array/_blockwise.py",
  "        if any(isinstance(v, (tuple, list)) for v in adjust_chunks.values()):\n            return True\n", "", expect="per-block adjust_chunks tuple")
V("c20-blockwise-unaligned-not-grid-sensitive", "C20", "R20.6", "dask_array/_blockwise.py",
  "        return type(self) is Blockwise and not self.align_arrays\n", "        return False\n", expect="_requires_grid_preservation")
V("c20-tuple-clause-confined-to-plain-blockwise", "C20", "R20.6", "dask_array/_blockwise.py",
  "        if any(isinstance(v, (tuple, list)) for v in adjust_chunks.values()):\n            return True\n", "        if type(self) is Blockwise and any(isinstance(v, (tuple, list)) for v in adjust_chunks.values()):\n            return True\n", expect="subclasses")
V("c20-twin-blockwise-grid-sensitivity-one-expression", "C20", "-", "dask_array/_blockwise.py",
  "        adjust_chunks = getattr(self, \"adjust_chunks\", None) or {}\n        if any(isinstance(v, (tuple, list)) for v in adjust_chunks.values()):\n            return True\n        return type(self) is Blockwise and not self.align_arrays\n",
  "        per_block = any(isinstance(v, (tuple, list)) for v in (getattr(self, \"adjust_chunks\", None) or {}).values())\n        return per_block or (type(self) is Blockwise and not self.align_arrays)\n", twin=True)
V("c04-map-overlap-not-grid-sensitive", "C04", "R04.12", "dask_array/_overlap.py",
  "        return len(self.arrays) > 1\n", "        return False\n", expect="MapOverlap")
V("c04-chunks-override-not-grid-sensitive", "C04", "R04.12", "dask_array/_expr.py",
  "    def _requires_grid_preservation(self, dependency):\n        # ``_chunks`` re-labels the input's blocks one to one\n        return True\n\n", "", expect="ChunksOverride")
V("c04-reshape-lowered-not-grid-sensitive", "C04", "R04.12", "dask_array/manipulation/_reshape.py",
  "    def _requires_grid_preservation(self, dependency):\n        # ``_outchunks`` was derived block for block from the input's grid\n        return True\n\n", "", expect="ReshapeLowered")
V("c03-default-grid-answer-ignores-unknown-chunks", "C03", "R03.12", "dask_array/_expr.py",
  "        try:\n            return any(c != c for dim in self.chunks for c in dim)\n        except (NotImplementedError, TypeError, ValueError):\n            return False\n", "        return False\n", expect="_requires_grid_preservation")
V("c03-bool-index-flattened-answers-false", "C03", "R03.12", "dask_array/slicing/_bool_index.py",
  "class BooleanIndexFlattened(ArrayExpr):", "class BooleanIndexFlattened(ArrayExpr):\n    def _requires_grid_preservation(self, dependency):\n        return False\n", expect="BooleanIndexFlattened")
V("c03-twin-default-grid-answer-isnan", "C03", "-", "dask_array/_expr.py",
  "            return any(c != c for dim in self.chunks for c in dim)\n", "            return any(math.isnan(c) for dim in self.chunks for c in dim)\n", twin=True)

# -- R03.13: nodes built under a precondition on their input's grid ---------------------------------------------------
V("c03-sliding-window-reduction-not-grid-sensitive", "C03", "R03.13", "dask_array/reductions/_sliding_window.py",
  "    def _requires_grid_preservation(self, dependency):\n        # built under a precondition on the input's block grid\n        return True\n\n    def _lower(self):\n        # The banded decomposition needs every output-emitting", "    def _lower(self):\n        # The banded decomposition needs every output-emitting", expect="SlidingWindowReduction")
V("c03-take-one-chunk-not-grid-sensitive", "C03", "R03.13", "dask_array/slicing/_basic.py",
  "    def _requires_grid_preservation(self, dependency):\n        # built under a precondition on the input's block grid\n        return True\n\n", "", expect="TakeUnknownOneChunk")
V("c03-new-node-built-under-grid-condition", "C03", "R03.13", "dask_array/routines/_unique.py", None, None, expect="UniqueAggregate", edits=[
  ("dask_array/routines/_unique.py", "def unique(ar, return_index=False", "def _unique_one_block(x):\n    if len(x.expr.chunks[0]) == 1:\n        return UniqueAggregate(x.expr, False, None)\n    return None\n\n\ndef unique(ar, return_index=False"),
])
V("c03-sliding-window-reduction-never-rechecks", "C03", "R03.14", "dask_array/reductions/_sliding_window.py",
  "        chunks = self.array.chunks[self.sliding_axis]\n        if supports_native_sliding_window(chunks, self.window):\n            return None\n        depth = self.window - 1\n", "        chunks = self.array.chunks[self.sliding_axis]\n        if len(chunks) > 1:\n            return None\n        depth = self.window - 1\n", expect="SlidingWindowReduction")
V("c03-twin-sliding-window-recheck-inline-chunks", "C03", "-", "dask_array/reductions/_sliding_window.py",
  "        chunks = self.array.chunks[self.sliding_axis]\n        if supports_native_sliding_window(chunks, self.window):\n            return None\n        depth = self.window - 1\n", "        if supports_native_sliding_window(self.array.chunks[self.sliding_axis], self.window):\n            return None\n        chunks = self.array.chunks[self.sliding_axis]\n        depth = self.window - 1\n", twin=True)
V("c05-sliding-window-layer-without-unlowered-guard", "C05", "R05.9", "dask_array/reductions/_sliding_window.py",
  "        graph = self._graph_if_unlowered()\n        if graph is not None:\n            return graph\n        x = self.array\n        axis = self.sliding_axis\n\n        total_name", "        x = self.array\n        axis = self.sliding_axis\n\n        total_name", expect="SlidingWindowReduction._layer")

# -- R03.15: replacements inherit consumers -------------------------------------------------------------------------
V("c03-simplify-driver-drops-consumers-after-simplify-down", "C03", "R03.15", "dask_array/_expr.py",
  "        if out._name != expr._name:\n            inherit(expr, out)\n            expr = out\n\n        # Allow children", "        if out._name != expr._name:\n            expr = out\n\n        # Allow children", expect="simplify_once")
V("c03-simplify-driver-override-removed", "C03", "R03.15", "dask_array/_expr.py",
  "    def simplify_once(self, dependents, simplified):\n        \"\"\"``Expr.simplify_once`` with one addition", "    def _simplify_once_unused(self, dependents, simplified):\n        \"\"\"``Expr.simplify_once`` with one addition", expect="Expr.simplify_once")
V("c03-twin-simplify-driver-renamed-locals", "C03", "-", "dask_array/_expr.py", None, None, twin=True, edits=[
  ("dask_array/_expr.py", "        def inherit(old, new):\n            refs = dependents.get(old._name)\n            if refs:\n                seen = dependents[new._name]\n                seen.extend(ref for ref in refs if ref not in seen)\n", "        def hand_over(old, new):\n            refs = dependents.get(old._name)\n            if refs:\n                seen = dependents[new._name]\n                seen.extend(ref for ref in refs if ref not in seen)\n"),
  ("dask_array/_expr.py", "        if out._name != expr._name:\n            inherit(expr, out)\n            expr = out\n\n        # Allow children", "        if out._name != expr._name:\n            hand_over(expr, out)\n            expr = out\n\n        # Allow children"),
  ("dask_array/_expr.py", "            if out is not expr and out._name != expr._name:\n                inherit(expr, out)\n                expr = out\n                break", "            if out is not expr and out._name != expr._name:\n                hand_over(expr, out)\n                expr = out\n                break"),
])
V("c03-twin-simplify-driver-hand-over-in-method", "C03", "-", "dask_array/_expr.py", None, None, twin=True, edits=[
  ("dask_array/_expr.py", "        def inherit(old, new):\n            refs = dependents.get(old._name)\n            if refs:\n                seen = dependents[new._name]\n                seen.extend(ref for ref in refs if ref not in seen)\n\n", ""),
  ("dask_array/_expr.py", "        if out._name != expr._name:\n            inherit(expr, out)\n            expr = out\n\n        # Allow children", "        if out._name != expr._name:\n            self._hand_over_consumers(expr, out, dependents)\n            expr = out\n\n        # Allow children"),
  ("dask_array/_expr.py", "            if out is not expr and out._name != expr._name:\n                inherit(expr, out)\n                expr = out\n                break", "            if out is not expr and out._name != expr._name:\n                self._hand_over_consumers(expr, out, dependents)\n                expr = out\n                break"),
  ("dask_array/_expr.py", "    def simplify_once(self, dependents, simplified):\n        \"\"\"``Expr.simplify_once`` with one addition", "    @staticmethod\n    def _hand_over_consumers(old, new, dependents):\n        refs = dependents.get(old._name)\n        if refs:\n            seen = dependents[new._name]\n            seen.extend(ref for ref in refs if ref not in seen)\n\n    def simplify_once(self, dependents, simplified):\n        \"\"\"``Expr.simplify_once`` with one addition"),
])

# -- C19 (one clause): native banded window kernels only on valid chunkings -----------------------------------------
V("c19-sliding-predicate-accepts-long-blocks", "C19", "R19.1", "dask_array/reductions/_sliding_window.py",
  "        if c > depth:\n            return False\n        start += c\n", "        start += c\n", expect="supports_native_sliding_window")
V("c19-moving-predicate-accepts-long-blocks", "C19", "R19.1", "dask_array/reductions/_sliding_window.py",
  "    return max(chunks) <= window - 1\n", "    return max(chunks) <= window\n", expect="supports_native_moving_window")
V("c19-sliding-node-built-without-predicate", "C19", "R19.2", "dask_array/_overlap.py",
  "                if reducer in NATIVE_SLIDING_REDUCERS and supports_native_sliding_window(\n                    rechunk.array.chunks[sliding_axis], window\n                ):", "                if reducer in NATIVE_SLIDING_REDUCERS and len(rechunk.array.chunks[sliding_axis]) > 1:", expect="SlidingWindowView._simplify_up")
V("c19-sliding-node-never-rechecks", "C19", "R19.3", "dask_array/reductions/_sliding_window.py",
  "        chunks = self.array.chunks[self.sliding_axis]\n        if supports_native_sliding_window(chunks, self.window):\n            return None\n        depth = self.window - 1\n", "        chunks = self.array.chunks[self.sliding_axis]\n        if len(chunks) > 1:\n            return None\n        depth = self.window - 1\n", expect="SlidingWindowReduction")
V("c19-moving-node-not-grid-sensitive", "C19", "R19.4", "dask_array/reductions/_sliding_window.py",
  "    def _requires_grid_preservation(self, dependency):\n        # built under a precondition on the input's block grid\n        return True\n\n    def _lower(self):\n        # Same as SlidingWindowReduction._lower", "    def _lower(self):\n        # Same as SlidingWindowReduction._lower", expect="MovingWindowReduction")
V("c19-sliding-layer-without-raw-walk-guard", "C19", "R19.4", "dask_array/reductions/_sliding_window.py",
  "        graph = self._graph_if_unlowered()\n        if graph is not None:\n            return graph\n        x = self.array\n        axis = self.sliding_axis\n\n        total_name", "        x = self.array\n        axis = self.sliding_axis\n\n        total_name", expect="SlidingWindowReduction")
V("c19-twin-predicate-local-rename", "C19", "-", "dask_array/reductions/_sliding_window.py",
  "    depth = window - 1\n    if depth <= 0:\n        return False\n", "    reach = window - 1\n    depth = reach\n    if reach <= 0:\n        return False\n", twin=True)

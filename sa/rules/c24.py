"""C24 - one clause: every read of a from_array source goes through the configured door (getitem / lock / asarray), and
the door survives every pushdown."""

from __future__ import annotations

import ast

from ..dataflow import Defs
from ..model import body_walk, const_value, dotted, unparse
from ..report import RuleResult
from .c25 import r25_3
from .common import cfg_of, chain_conjuncts, need, site

PROP = "C24"

EXPLANATION = (
    "Decides structural clauses of C24 only. The property promises that reads of a source - in particular a custom store with "
    "its own lock or getitem - return what indexing the source returns, whatever slices and rechunks the optimizer pushes into the "
    "read. Which elements a request names is region arithmetic (_compose_slices, region offsets: not decided). What is structural: "
    "R24.1 COVER every read-affecting operand of FromArray (all parameters except the layout/name/region ones, read from the class's "
    "own _parameters list: lock, getitem, inline_array, meta, asarray, fancy) is handed unchanged to every node a pushdown rebuilds "
    "(_with_chunks, _accept_slice), and from_array hands each of the user's arguments to the node; R24.2 sibling agreement on the "
    "calling convention of the configurable getitem: a read task is (getitem, source, slice) and carries the two extra arguments "
    "(asarray, lock - in getter's positional order) only where has_keyword(getitem, 'asarray') and has_keyword(getitem, 'lock') "
    "hold, in graph_from_arraylike and in FromArray._layer alike (a documented two-argument getitem(x, index) must keep working "
    "after a slice is pushed into the read); R24.3 PASS the getter's read - and every later use of its result other than returning it, because a lazily "
    "indexing store does its I/O in the conversion - happens between lock.acquire() and a release on every exit; R24.4 GUARD FromArray._layer reads the source directly (self.array[...], self.array.copy()) only for plain NumPy "
    "sources without a lock, and delegates to graph_from_arraylike (which knows no region) only when no region is set; R24.5 the "
    "default getter is chosen only when no getitem was supplied (a custom getitem is never overridden); R24.6 COVER the eager "
    "copy of a small NumPy source in _accept_slice selects by the very region that is otherwise handed on as _region (the two "
    "spellings of one rewrite agree)."
)
ASSUMPTIONS = [
    "the source's __getitem__ returns the addressed elements (third-party stores)",
    "region composition and per-block offsets are exact (C13 / arithmetic, not decided)",
    "dask.utils.has_keyword reports the callable's keyword parameters (upstream)",
]
TRUSTED = ["CPython ast", "sa.cfg (guards, try/finally modelling)", "sa.refguards normal form", "sa.dataflow"]

# FromArray parameters that do not affect how a block is read (layout, identity, region): everything else is an obligation
STRUCTURAL_PARAMS = {
    "array": "the source itself (replaced deliberately by an eager NumPy slice in _accept_slice; views of a private copy, C10)",
    "_chunks": "the layout the rewrite is about",
    "_name_override": "identity of the rebuilt node (C06)",
    "_name_is_exact": "identity of the rebuilt node (C06)",
    "_region": "the deferred slice the rewrite is about (arithmetic, not decided)",
}
# from_array may normalise a user argument before handing it on: (parameter, normalised value, required guard conjunct)
FROM_ARRAY_NORMALISATIONS = {("lock", "SerializableLock()", "lock is True")}


def _from_array_cls(ctx):
    return ctx.repo.find_class("FromArray")


def _parameters(ci):
    v = ci.attrs.get("_parameters")
    need(v is not None, "FromArray._parameters")
    ps = const_value(v)
    need(isinstance(ps, (list, tuple)) and ps, "FromArray._parameters is a literal list")
    return list(ps)


def _arg_for(call, params, p):
    """The expression passed for parameter ``p`` (keyword, else positional by the class's own order); 'GENERIC' when the
    call forwards a starred operand list; None when absent."""
    for k in call.keywords:
        if k.arg == p:
            return k.value
        if k.arg is None:
            return "GENERIC"
    if any(isinstance(a, ast.Starred) for a in call.args):
        return "GENERIC"
    i = params.index(p)
    if i < len(call.args):
        return call.args[i]
    return None


def _resolve(e, defs, depth=4):
    while depth and isinstance(e, ast.Name):
        v = defs.plain_single_def(e.id)
        if v is None:
            break
        e, depth = v, depth - 1
    return e


def r24_1(ctx):
    rr = RuleResult("R24.1", "COVER", "every read-affecting operand of FromArray is handed unchanged to every rebuilt node, and from_array hands the user's arguments to the node", min_instances=12)
    ci = _from_array_cls(ctx)
    params = _parameters(ci)
    read_params = [p for p in params if p not in STRUCTURAL_PARAMS]
    for p in STRUCTURAL_PARAMS:
        if p in params:
            rr.exempt(f"{ci.construct}::{p}", STRUCTURAL_PARAMS[p])
    need(len(read_params) >= 6, "read-affecting FromArray parameters (lock, getitem, inline_array, meta, asarray, fancy)")
    # (a) rebuilds inside FromArray's own methods
    n_sites = 0
    for f in ci.methods.values():
        defs = None
        for n in body_walk(f.node):
            if not (isinstance(n, ast.Call) and (dotted(n.func) == "FromArray" or unparse(n.func) in ("type(self)", "self.__class__"))):
                continue
            n_sites += 1
            defs = defs or Defs(f.node)
            for p in read_params:
                a = _arg_for(n, params, p)
                c = f"{f.construct}::FromArray(...)::{p}"
                if a == "GENERIC":
                    rr.inst(c, how="operand list forwarded")
                    continue
                if a is None:
                    rr.inst(c, passed=None)
                    ctx.finding(rr, c, f"a pushdown rebuilds the source node without its `{p}` operand: the rebuilt read falls back to the default {p} (a custom store is then read differently after optimization than before)", func=f, node=n)
                    continue
                v = unparse(_resolve(a, defs))
                ok = v in (f"self.operand('{p}')", f"self.{p}")
                rr.inst(c, passed=v)
                if not ok:
                    ctx.finding(rr, c, f"a pushdown rebuilds the source node with {p}={v} instead of the node's own `{p}` operand", func=f, node=n)
    need(n_sites >= 1, "FromArray rebuild sites (_with_chunks, _accept_slice, or a shared builder)")
    # (b) from_array: user argument -> operand
    fa = ctx.repo.mod("dask_array.core._conversion").func("from_array")
    cfg = cfg_of(ctx, fa)
    fparams = {a.arg for a in fa.node.args.args + fa.node.args.kwonlyargs}
    calls = [n for n in body_walk(fa.node) if isinstance(n, ast.Call) and dotted(n.func) == "FromArray"]
    need(calls, "from_array constructs FromArray")
    for n in calls:
        for p in read_params:
            if p not in fparams:
                continue
            a = _arg_for(n, params, p)
            c = f"{fa.construct}::FromArray(...)::{p}"
            v = None if a is None or a == "GENERIC" else unparse(a)
            rr.inst(c, passed=v)
            if v != p:
                ctx.finding(rr, c, f"from_array does not hand the user's `{p}` argument to the source node (passes {v})", func=fa, node=n)
    # rebinding of a read parameter inside from_array is a reviewed normalisation
    for s in cfg.stmts():
        if isinstance(s, ast.Assign):
            for t in s.targets:
                if isinstance(t, ast.Name) and t.id in read_params and t.id in fparams:
                    conj = chain_conjuncts(cfg, s, fa.node, fa.module)
                    key = next((k for k in FROM_ARRAY_NORMALISATIONS if k[0] == t.id and k[1] == unparse(s.value) and k[2] in conj), None)
                    c = site(fa, s)
                    if key:
                        rr.exempt(c, f"reviewed normalisation: {t.id} = {key[1]} only when `{key[2]}`")
                    else:
                        ctx.finding(rr, c, f"from_array rebinds the user's `{t.id}` argument to {unparse(s.value)} (under {sorted(conj)}): not a reviewed normalisation", func=fa, node=s)
    return rr


_HK = ("has_keyword(getitem, 'asarray')", "has_keyword(getitem, 'lock')")


def _empty_literal(v):
    return (isinstance(v, (ast.Tuple, ast.List)) and not v.elts) or (isinstance(v, ast.Dict) and not v.keys) or (isinstance(v, ast.Constant) and v.value in (None, False))


def _helper_returns_gated(f, v):
    """``v`` is a call of a module-level private helper that receives ``getitem`` and returns something non-empty only
    where has_keyword(<its getitem parameter>, 'asarray') and has_keyword(..., 'lock') hold."""
    if not (isinstance(v, ast.Call) and isinstance(v.func, ast.Name)):
        return False
    h = f.module.functions.get(v.func.id)
    if h is None or h.cls is not None:
        return False
    formals = [a.arg for a in h.node.args.args]
    gi = next((formals[i] for i, a in enumerate(v.args) if isinstance(a, ast.Name) and a.id == "getitem" and i < len(formals)), None)
    gi = gi or next((k.arg for k in v.keywords if isinstance(k.value, ast.Name) and k.value.id == "getitem"), None)
    if gi is None:
        return False
    from ..cfg import CFG

    hcfg = CFG(h.node)
    want = [x.replace("(getitem,", f"({gi},") for x in _HK]
    rets = [r for r in hcfg.returns if r.value is not None]
    if not rets:
        return False
    seen = False
    for r in rets:
        if _empty_literal(r.value):
            continue
        if isinstance(r.value, ast.IfExp) and _empty_literal(r.value.orelse):
            from ..refguards import _conjuncts, _nnf

            cj = {unparse(x) for x in _conjuncts(_nnf(r.value.test))} | chain_conjuncts(hcfg, r, h.node, h.module)
        else:
            cj = chain_conjuncts(hcfg, r, h.node, h.module)
        if not all(w in cj for w in want):
            return False
        seen = True
    return seen


def _gated_names(f, cfg):
    """Local names that can only be non-empty where both has_keyword checks hold."""
    out = set()
    defs = Defs(f.node)
    stmts = [s for s in cfg.stmts() if isinstance(s, ast.Assign)]
    for name in defs.defs:
        mine = [s for s in stmts if any(isinstance(t, ast.Name) and t.id == name for t in s.targets)]
        if not mine or len(mine) != len(defs.defs[name]):
            continue
        ok, saw_gate = True, False
        for s in mine:
            v = s.value
            if _empty_literal(v):
                continue
            if isinstance(v, ast.IfExp) and _empty_literal(v.orelse) and all(h in unparse(v.test) for h in _HK) and not isinstance(v.test, ast.UnaryOp):
                # NNF of the test must hold both checks as conjuncts
                from ..refguards import _conjuncts, _nnf

                cj = {unparse(x) for x in _conjuncts(_nnf(v.test))}
                if all(h in cj for h in _HK):
                    saw_gate = True
                    continue
            conj = chain_conjuncts(cfg, s, f.node, f.module)
            if all(h in conj for h in _HK):
                saw_gate = True
                continue
            if _helper_returns_gated(f, v):
                saw_gate = True
                continue
            ok = False
        if ok and saw_gate:
            out.add(name)
    return out


def _emitter_helpers(funcs):
    """Module-level private helpers the emitters call with ``getitem`` among the arguments (the task tuple may have been
    extracted into one): [(helper FuncInfo, [(caller FuncInfo, call node)])]."""
    out = {}
    for f in funcs:
        for n in ast.walk(f.node):
            if isinstance(n, ast.Call) and isinstance(n.func, ast.Name) and any(isinstance(a, ast.Name) and a.id == "getitem" for a in n.args):
                h = f.module.functions.get(n.func.id)
                if h is not None and h.cls is None and h is not f:
                    out.setdefault(h.fq, (h, []))[1].append((f, n))
    return list(out.values())


def r24_2(ctx):
    rr = RuleResult("R24.2", "GUARD", "read tasks pass (asarray, lock) to the configurable getitem only where has_keyword(getitem, 'asarray') and has_keyword(getitem, 'lock') hold - in every sibling that emits read tasks", min_instances=3)
    ci = _from_array_cls(ctx)
    funcs = [ctx.repo.mod("dask_array._core_utils").func("graph_from_arraylike")] + [f for f in ci.methods.values()]
    gated_of = {}

    def gated_in(f):
        if f.fq not in gated_of:
            gated_of[f.fq] = _gated_names(f, cfg_of(ctx, f))
        return gated_of[f.fq]

    work = [(f, None) for f in funcs]
    for h, sites in _emitter_helpers(funcs):
        # a helper's parameter is gated when every call site passes a gated local (or an empty literal) for it, and
        # its ``getitem`` parameter receives the caller's ``getitem``
        hp = [a.arg for a in h.node.args.args]
        g_params = set()
        for i, p in enumerate(hp):
            ok = bool(sites)
            for caller, call in sites:
                a = call.args[i] if i < len(call.args) else None
                if not ((isinstance(a, ast.Name) and a.id in gated_in(caller)) or (a is not None and _empty_literal(a))):
                    ok = False
            if ok:
                g_params.add(p)
        work.append((h, g_params))
    n = 0
    for f, g_params in work:
        head_names = {"getitem"}
        tuples = [t for t in body_walk(f.node) if isinstance(t, ast.Tuple) and isinstance(t.ctx, ast.Load) and t.elts and isinstance(t.elts[0], ast.Name) and t.elts[0].id in head_names and len(t.elts) >= 3]
        if not tuples:
            continue
        cfg = cfg_of(ctx, f)
        gated = gated_in(f) | (g_params or set())
        parent = {}
        for p in ast.walk(f.node):
            for ch in ast.iter_child_nodes(p):
                parent[ch] = p
        for t in tuples:
            n += 1
            st = t
            while st in parent and st not in cfg.parent:
                st = parent[st]
            conj = chain_conjuncts(cfg, st, f.node, f.module) if st in cfg.parent else set()
            raw = {unparse(t_) for t_, pol in (cfg.guards(st) if st in cfg.parent else []) if pol}  # a tested local, before it is looked through
            here = all(h in conj for h in _HK) or any(c in gated for c in conj | raw)
            fixed = [e for e in t.elts[3:] if not isinstance(e, ast.Starred)]
            starred = [e.value for e in t.elts[3:] if isinstance(e, ast.Starred)]
            add = []
            up = parent.get(t)
            if isinstance(up, ast.BinOp) and isinstance(up.op, ast.Add):
                add.append(up.right if up.left is t else up.left)
            c = site(f, st)[:160] + f"::{unparse(t)[:60]}"
            rr.inst(c, extras=[unparse(e) for e in fixed], starred=[unparse(e) for e in starred + add], gated=here, gated_names=sorted(gated))
            if fixed and not here:
                ctx.finding(rr, c, f"a read task passes {[unparse(e) for e in fixed]} positionally to the configurable getitem without checking has_keyword(getitem, 'asarray') and has_keyword(getitem, 'lock') (graph_from_arraylike does): a two-argument getitem(x, index) raises TypeError once this path is taken, e.g. after a slice is pushed into the read", func=f, node=st)
            for e in starred + add:
                if not (isinstance(e, ast.Name) and e.id in gated) and not here:
                    ctx.finding(rr, c, f"a read task appends {unparse(e)} to the getitem arguments; it is not provably empty where has_keyword(getitem, ...) fails", func=f, node=st)
            if fixed:
                if len(fixed) != 2 or "asarray" not in unparse(fixed[0]) or "lock" not in unparse(fixed[1]):
                    ctx.finding(rr, c, f"the extra getitem arguments are {[unparse(e) for e in fixed]}; getter's positional order is (asarray, lock)", func=f, node=st)
    need(n >= 2, "read-task tuples (getitem, source, slice, ...) in graph_from_arraylike / FromArray._layer (or their private helpers)")
    # getter's own signature is what the positional order refers to
    g = ctx.repo.mod("dask_array._core_utils").func("getter")
    names = [a.arg for a in g.node.args.args]
    rr.inst(g.construct + "::signature", params=names)
    if names[:4] != ["a", "b", "asarray", "lock"]:
        ctx.finding(rr, g.construct + "::signature", f"getter's positional parameters are {names}; read tasks pass (source, slice, asarray, lock)", func=g)
    return rr


def r24_3(ctx):
    g = ctx.repo.mod("dask_array._core_utils").func("getter")
    rr = r25_3(ctx, sites=[g], rule="R24.3", prop=PROP)
    # the source read itself lies inside the protected region
    cfg = cfg_of(ctx, g)
    reads = [s for s in cfg.stmts() if not isinstance(s, (ast.If, ast.Try, ast.For, ast.While, ast.With)) and any(isinstance(x, ast.Subscript) and isinstance(x.ctx, ast.Load) and unparse(x.value) == "a" for x in ast.walk(s))]
    need(reads, "getter reads a[...]")
    for s in reads:
        # the recursion for None-containing indices reads through getter again: not a direct read
        c = site(g, s)
        prot = False
        cur = s
        while cur in cfg.parent:
            par, fld, _ = cfg.parent[cur]
            if isinstance(par, ast.Try) and fld == "body" and any(isinstance(x, ast.Call) and isinstance(x.func, ast.Attribute) and x.func.attr == "release" for y in par.finalbody for x in ast.walk(y)):
                prot = True
            if isinstance(par, ast.With) and any("lock" in unparse(i.context_expr) for i in par.items):
                prot = True
            if par is None:
                break
            cur = par
        rr.inst(c, inside_protected_region=prot)
        if not prot:
            ctx.finding(rr, c, "getter reads the source outside the try/finally (or with-block) that holds the lock", func=g, node=s)
    # a lazily indexing store (netCDF4 / xarray backend style) does its I/O when the handle returned by a[b] is
    # converted: every use of the read result other than returning it belongs to the protected region too
    results = set()
    for s in reads:
        if isinstance(s, ast.Assign):
            results |= {t.id for t in s.targets if isinstance(t, ast.Name)}
    if results:
        for s in cfg.stmts():
            if s in reads or isinstance(s, (ast.Return, ast.Try, ast.With, ast.For, ast.While)):
                continue
            probe = s.test if isinstance(s, ast.If) else s
            if not any(isinstance(x, ast.Name) and x.id in results and isinstance(x.ctx, ast.Load) for x in ast.walk(probe)):
                continue
            c = site(g, s)[:150]
            prot = _protected(cfg, s)
            rr.inst(c, uses_read_result=sorted(results), inside_protected_region=prot)
            if not prot:
                ctx.finding(rr, c, f"getter touches the read result ({', '.join(sorted(results))}) after the lock is released: for a store that indexes lazily the actual I/O happens in this conversion, unserialised", func=g, node=s)
    return rr


def _protected(cfg, s):
    cur = s
    while cur in cfg.parent:
        par, fld, _ = cfg.parent[cur]
        if isinstance(par, ast.Try) and fld == "body" and any(isinstance(x, ast.Call) and isinstance(x.func, ast.Attribute) and x.func.attr == "release" for y in par.finalbody for x in ast.walk(y)):
            return True
        if isinstance(par, ast.With) and any("lock" in unparse(i.context_expr) for i in par.items):
            return True
        if par is None:
            break
        cur = par
    return False


def r24_6(ctx):
    rr = RuleResult("R24.6", "COVER", "in FromArray._accept_slice the eager copy of a small NumPy source and the deferred region are the same selection: the source is subscripted by the very region that would otherwise be handed on as _region", min_instances=2)
    ci = _from_array_cls(ctx)
    params = _parameters(ci)
    f = ci.methods.get("_accept_slice")
    need(f is not None, "FromArray._accept_slice")
    defs = Defs(f.node)
    # the deferred region: the _region argument of the rebuild (directly, or through a builder method of the class)
    region_args = []
    for n in body_walk(f.node):
        if not isinstance(n, ast.Call):
            continue
        if dotted(n.func) == "FromArray" or unparse(n.func) in ("type(self)", "self.__class__"):
            a = _arg_for(n, params, "_region")
            if a is not None and a != "GENERIC":
                region_args.append(a)
        elif isinstance(n.func, ast.Attribute) and isinstance(n.func.value, ast.Name) and n.func.value.id == "self" and n.func.attr in ci.methods:
            b = ci.methods[n.func.attr]
            for m in body_walk(b.node):
                if isinstance(m, ast.Call) and dotted(m.func) == "FromArray":
                    ra = _arg_for(m, params, "_region")
                    bparams = [x.arg for x in b.node.args.args][1:]
                    if isinstance(ra, ast.Name) and ra.id in bparams:
                        i = bparams.index(ra.id)
                        val = n.args[i] if i < len(n.args) else next((k.value for k in n.keywords if k.arg == ra.id), None)
                        if val is not None:
                            region_args.append(val)
    need(region_args, "the _region operand of the node FromArray._accept_slice rebuilds")
    region_names = {unparse(a) for a in region_args}
    # eager selections: subscripts of (an alias of) the source
    src_aliases = {"self.array", "self.operand('array')"} | {nm for nm, vs in defs.defs.items() if any(unparse(v) in ("self.array", "self.operand('array')") for v in vs)}
    eager = [n for n in body_walk(f.node) if isinstance(n, ast.Subscript) and isinstance(n.ctx, ast.Load) and unparse(n.value) in src_aliases]
    need(eager, "FromArray._accept_slice slices small NumPy sources eagerly")
    for r in sorted(region_names):
        rr.inst(f.construct + f"::_region={r}", deferred_region=r)
    for n in eager:
        sel = unparse(n.slice)
        c = f.construct + f"::{unparse(n)[:60]}"
        rr.inst(c, eager_selection=sel, deferred_region=sorted(region_names))
        if sel not in region_names:
            ctx.finding(rr, c, f"the eager copy selects {unparse(n.value)}[{sel}] but the deferred read of the same rewrite would use _region={sorted(region_names)}: with a region already pending the two differ (the copy drops the earlier offset)", func=f, node=n)
    return rr


def r24_4(ctx):
    rr = RuleResult("R24.4", "GUARD", "FromArray._layer reads the source directly only for plain NumPy sources without a lock, and delegates to graph_from_arraylike only when no region is set", min_instances=4)
    ci = _from_array_cls(ctx)
    lay = ci.methods.get("_layer")
    need(lay is not None, "FromArray._layer")
    cfg = cfg_of(ctx, lay)
    direct = []
    for s in cfg.stmts():
        if isinstance(s, (ast.If, ast.Try, ast.For, ast.While, ast.With)):
            continue
        for x in ast.walk(s):
            if isinstance(x, ast.Subscript) and isinstance(x.ctx, ast.Load) and unparse(x.value) == "self.array":
                direct.append((s, unparse(x)))
            elif isinstance(x, ast.Call) and unparse(x.func) == "self.array.copy":
                direct.append((s, unparse(x)))
    need(len(direct) >= 3, "direct NumPy reads in FromArray._layer (eager slices, single-block copies)")
    for s, what in direct:
        conj = chain_conjuncts(cfg, s, lay.node, lay.module)
        is_np = any(c.startswith("type(self.array) in ") for c in conj)
        no_lock = any(c in ("not self.operand('lock')", "not lock") for c in conj)
        c = site(lay, s)[:150] + f"::{what[:40]}"
        rr.inst(c, numpy_only=is_np, without_lock=no_lock)
        if not is_np:
            ctx.finding(rr, c, f"FromArray._layer reads {what} directly (bypassing getitem) on a path not restricted to plain NumPy sources: a custom store is read without its getitem", func=lay, node=s)
        if not no_lock:
            ctx.finding(rr, c, f"FromArray._layer reads {what} directly on a path where a lock may be set: the read is not protected by the user's lock", func=lay, node=s)
    calls = [s for s in cfg.stmts() if not isinstance(s, (ast.If, ast.Try, ast.For, ast.While, ast.With)) and any(isinstance(x, ast.Call) and dotted(x.func) == "graph_from_arraylike" for x in ast.walk(s))]
    need(calls, "FromArray._layer delegates to graph_from_arraylike")
    for s in calls:
        conj = chain_conjuncts(cfg, s, lay.node, lay.module)
        ok = any(c in ("self.operand('_region') is None", "region is None") for c in conj)
        rr.inst(site(lay, s)[:150], only_without_region=ok)
        if not ok:
            ctx.finding(rr, site(lay, s)[:150], "graph_from_arraylike computes block slices from the chunks alone; FromArray._layer calls it on a path where a region may be set, so the blocks would be read from the unshifted positions", func=lay, node=s)
        call = next(x for x in ast.walk(s) if isinstance(x, ast.Call) and dotted(x.func) == "graph_from_arraylike")
        kws = {k.arg: unparse(k.value) for k in call.keywords}
        want = {"lock": ("lock", "self.operand('lock')"), "getitem": ("getitem",), "asarray": ("self.asarray_arg",), "inline_array": ("self.inline_array", "self.operand('inline_array')")}
        for k, vs in want.items():
            rr.inst(site(lay, s)[:110] + f"::{k}", passed=kws.get(k))
            if kws.get(k) not in vs:
                ctx.finding(rr, site(lay, s)[:110] + f"::{k}", f"FromArray._layer calls graph_from_arraylike with {k}={kws.get(k)} (expected one of {vs})", func=lay, node=s)
    return rr


def r24_5(ctx):
    rr = RuleResult("R24.5", "GUARD", "the default getter replaces `getitem` only when none was supplied", min_instances=3)
    ci = _from_array_cls(ctx)
    funcs = [ctx.repo.mod("dask_array._core_utils").func("graph_from_arraylike")] + [ci.methods[m] for m in ("_layer", "_frisky_layer") if m in ci.methods]
    for f in funcs:
        cfg = cfg_of(ctx, f)
        for s in cfg.stmts():
            if isinstance(s, ast.Assign) and any(isinstance(t, ast.Name) and t.id == "getitem" for t in s.targets):
                v = unparse(s.value)
                if v in ("self.operand('getitem')", "self.getitem"):
                    rr.inst(site(f, s), source="operand")
                    continue
                conj = chain_conjuncts(cfg, s, f.node, f.module)
                ok = any(c in ("getitem is None", "self.operand('getitem') is None") for c in conj)
                defaults = {n.id for n in ast.walk(s.value) if isinstance(n, ast.Name)} <= {"getter", "getter_nofancy", "self"} | ({"self"} if "self.operand('fancy')" in v else set())
                rr.inst(site(f, s), value=v, only_when_none=ok)
                if not ok:
                    ctx.finding(rr, site(f, s), f"`getitem` is rebound to {v} on a path where the user supplied one: the custom getitem is overridden", func=f, node=s)
                if not defaults:
                    ctx.finding(rr, site(f, s), f"`getitem` defaults to {v}, which is not one of the package getters", func=f, node=s)
    return rr


RULES = [r24_1, r24_2, r24_3, r24_4, r24_5, r24_6]

LEVEL_TEXT = (
    "Static decision of structural clauses of C24: the read-affecting operands of a from_array source (lock, getitem, asarray, "
    "fancy, inline_array, meta) survive every node rebuild a pushdown performs; every emitter of read tasks follows one calling "
    "convention for the configurable getitem (extras only under has_keyword checks, in getter's order); the getter's read lies "
    "between lock.acquire() and a release on all exits; direct reads that bypass getitem are confined to plain NumPy sources without "
    "a lock; the region-free delegate is used only without a region; a supplied getitem is never overridden. Which elements a "
    "request names (region composition, offsets, bounds) is arithmetic and is not decided."
)
LEVEL_NOTE = "Trusted: CPython ast, sa.cfg, sa.refguards normal form. The parameter list is read from FromArray._parameters on every run: a new read-affecting operand becomes an obligation at every rebuild site."
TECHNIQUE = "static analysis: operand-coverage at node rebuild sites, guard/dominance checks on read-task emitters (sibling agreement), acquire/release pairing on the statement CFG (ast)"

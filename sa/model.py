"""Program model: modules, imports, functions, classes, MRO.

Everything is derived from ``ast``; see DESIGN.md section 2.1.
"""

from __future__ import annotations

import ast
import hashlib
import os
import sys
from dataclasses import dataclass, field

REPO = os.environ.get("VERIF_REPO", "/repo")
# upstream modules parsed (read-only) for base-class facts; nothing else outside the package is loaded
UPSTREAM_MODULES = ("dask._expr", "dask._task_spec", "dask.layers", "dask.base")
PKG = "dask_array"


class AnalysisError(Exception):
    """The analysis itself cannot proceed (vanished anchor, unparsable file).

    Turned into exit status 2 by the CLI - never a pass, never a VIOLATION.
    """


# --------------------------------------------------------------------------
# small ast helpers


def dotted(node) -> str | None:
    """``a.b.c`` for Name/Attribute chains, else None."""
    parts = []
    while isinstance(node, ast.Attribute):
        parts.append(node.attr)
        node = node.value
    if isinstance(node, ast.Name):
        parts.append(node.id)
        return ".".join(reversed(parts))
    return None


def unparse(node) -> str:
    try:
        return ast.unparse(node)
    except Exception:  # pragma: no cover
        return "<unparse failed>"


def norm(node) -> str:
    """Normalised single-line statement text (finding identity, not position)."""
    if isinstance(node, (ast.FunctionDef, ast.AsyncFunctionDef, ast.ClassDef)):
        return f"def {node.name}"
    if isinstance(node, (ast.If, ast.While)):
        return f"{type(node).__name__.lower()} {unparse(node.test)}"
    if isinstance(node, ast.For):
        return f"for {unparse(node.target)} in {unparse(node.iter)}"
    if isinstance(node, ast.With):
        return "with " + ", ".join(unparse(i) for i in node.items)
    if isinstance(node, ast.Try):
        return "try"
    s = unparse(node)
    s = " ".join(s.split())
    return s if len(s) <= 160 else s[:157] + "..."


def walk_no_nested(node):
    """Yield ``node`` and its descendants without entering nested def/class/lambda
    bodies (the nested definition node itself is yielded)."""
    stack = [node]
    while stack:
        n = stack.pop()
        yield n
        if n is not node and isinstance(n, (ast.FunctionDef, ast.AsyncFunctionDef, ast.ClassDef, ast.Lambda)):
            continue
        stack.extend(ast.iter_child_nodes(n))


def body_walk(func_node):
    """Every node in a function's own body (nested defs yielded but not entered)."""
    for stmt in func_node.body:
        if isinstance(stmt, (ast.FunctionDef, ast.AsyncFunctionDef, ast.ClassDef)):
            yield stmt
        else:
            yield from walk_no_nested(stmt)


def full_walk(func_node):
    """Every node in a function body *including* nested closures and lambdas."""
    for stmt in func_node.body:
        yield from ast.walk(stmt)


def calls_in(node, deep=True):
    it = ast.walk(node) if deep else walk_no_nested(node)
    for n in it:
        if isinstance(n, ast.Call):
            yield n


def call_name(call: ast.Call) -> str | None:
    return dotted(call.func)


def last_attr(call: ast.Call) -> str | None:
    f = call.func
    if isinstance(f, ast.Attribute):
        return f.attr
    if isinstance(f, ast.Name):
        return f.id
    return None


def names_in(node) -> set[str]:
    return {n.id for n in ast.walk(node) if isinstance(n, ast.Name)}


def attrs_in(node) -> set[str]:
    return {n.attr for n in ast.walk(node) if isinstance(n, ast.Attribute)}


def idents_in(node) -> set[str]:
    """All identifiers (names, attribute names, string constants) in a subtree."""
    out = set()
    for n in ast.walk(node):
        if isinstance(n, ast.Name):
            out.add(n.id)
        elif isinstance(n, ast.Attribute):
            out.add(n.attr)
        elif isinstance(n, ast.Constant) and isinstance(n.value, str):
            out.add(n.value)
        elif isinstance(n, ast.keyword) and n.arg:
            out.add(n.arg)
    return out


def const_value(node):
    try:
        return ast.literal_eval(node)
    except Exception:
        return None


# --------------------------------------------------------------------------


@dataclass
class ImportRec:
    module: str  # module the statement lives in
    target: str  # fully-qualified module imported from / imported
    symbol: str | None  # name imported from target (None for ``import x``)
    asname: str  # local binding
    pos: str  # "top" | "type_checking" | "func" | "class"
    func: str | None  # qualname of enclosing function (pos == "func")
    node: ast.AST = field(repr=False, default=None)

    @property
    def lineno(self):
        return self.node.lineno


@dataclass
class FuncInfo:
    module: "Module" = field(repr=False)
    qualname: str
    node: ast.AST = field(repr=False)
    cls: "ClassInfo | None" = field(repr=False, default=None)
    parent: "FuncInfo | None" = field(repr=False, default=None)
    kind: str = "function"  # function | method | property | cached_property | classmethod | staticmethod
    local_imports: dict = field(default_factory=dict, repr=False)

    @property
    def name(self):
        return self.node.name

    @property
    def fq(self):
        return f"{self.module.name}:{self.qualname}"

    @property
    def construct(self):
        return f"{self.module.relpath}::{self.qualname}"

    @property
    def lineno(self):
        return self.node.lineno

    @property
    def local_names(self) -> frozenset:
        ln = self.__dict__.get("_local_names")
        if ln is None:
            names = set(self.params)
            declared_global = set()
            for n in body_walk(self.node):
                if isinstance(n, ast.Name) and isinstance(n.ctx, (ast.Store, ast.Del)):
                    names.add(n.id)
                elif isinstance(n, (ast.Global, ast.Nonlocal)):
                    declared_global.update(n.names)
                elif isinstance(n, (ast.FunctionDef, ast.AsyncFunctionDef, ast.ClassDef)) and n is not self.node:
                    names.add(n.name)
            ln = frozenset(names - declared_global)
            self.__dict__["_local_names"] = ln
        return ln

    @property
    def params(self) -> list[str]:
        a = self.node.args
        out = [x.arg for x in a.posonlyargs + a.args]
        if a.vararg:
            out.append(a.vararg.arg)
        out += [x.arg for x in a.kwonlyargs]
        if a.kwarg:
            out.append(a.kwarg.arg)
        return out


@dataclass
class ClassInfo:
    module: "Module" = field(repr=False)
    name: str
    node: ast.ClassDef = field(repr=False)
    base_exprs: list = field(default_factory=list, repr=False)
    bases: list = field(default_factory=list)  # fq names "mod:Class" or "ext:dotted"
    methods: dict = field(default_factory=dict, repr=False)  # name -> FuncInfo
    attrs: dict = field(default_factory=dict, repr=False)  # name -> value ast node

    @property
    def fq(self):
        return f"{self.module.name}:{self.name}"

    @property
    def construct(self):
        return f"{self.module.relpath}::{self.name}"


class Module:
    def __init__(self, name, path, relpath, is_unit):
        self.name = name
        self.path = path
        self.relpath = relpath
        self.is_unit = is_unit
        with open(path, "rb") as f:
            raw = f.read()
        self.digest = hashlib.sha256(raw).hexdigest()
        try:
            self.src = raw.decode("utf-8")
            self.tree = ast.parse(self.src, filename=path)
        except (SyntaxError, UnicodeDecodeError) as e:
            raise AnalysisError(f"cannot parse {path}: {e}") from e
        self.is_package = os.path.basename(path) == "__init__.py"
        self.package = name if self.is_package else name.rpartition(".")[0]
        self.imports: dict[str, ImportRec] = {}  # module-scope bindings
        self.import_recs: list[ImportRec] = []
        self.functions: dict[str, FuncInfo] = {}  # qualname -> FuncInfo (incl. nested, methods)
        self.classes: dict[str, ClassInfo] = {}
        self.assigns: dict[str, ast.AST] = {}  # module-level name -> value node (last wins)
        self.assign_nodes: dict[str, list] = {}
        self._index()

    # -- indexing -----------------------------------------------------------
    def _abs_target(self, node: ast.ImportFrom) -> str:
        if node.level == 0:
            return node.module or ""
        base = self.package.split(".")
        if node.level > 1:
            base = base[: len(base) - (node.level - 1)]
        if node.module:
            base = base + node.module.split(".")
        return ".".join(base)

    def _index(self):
        mod = self

        def decorator_kind(fn, in_class):
            kind = "method" if in_class else "function"
            for d in fn.decorator_list:
                dn = dotted(d.func if isinstance(d, ast.Call) else d) or ""
                tail = dn.rsplit(".", 1)[-1]
                if tail == "cached_property":
                    return "cached_property"
                if tail == "property":
                    return "property"
                if tail in ("setter", "deleter"):
                    return "property_" + tail
                if tail == "classmethod":
                    return "classmethod"
                if tail == "staticmethod":
                    return "staticmethod"
            return kind

        def visit(body, pos, qual, cls, parent_func):
            for stmt in body:
                handle(stmt, pos, qual, cls, parent_func)

        def record_import(node, pos, parent_func):
            recs = []
            if isinstance(node, ast.Import):
                for a in node.names:
                    asname = a.asname or a.name.split(".")[0]
                    target = a.name if a.asname else a.name
                    recs.append(
                        ImportRec(mod.name, target, None, asname, pos, parent_func.qualname if parent_func else None, node)
                    )
            else:
                target = mod._abs_target(node)
                for a in node.names:
                    recs.append(
                        ImportRec(
                            mod.name,
                            target,
                            a.name,
                            a.asname or a.name,
                            pos,
                            parent_func.qualname if parent_func else None,
                            node,
                        )
                    )
            for r in recs:
                mod.import_recs.append(r)
                if parent_func is not None:
                    parent_func.local_imports[r.asname] = r
                elif pos in ("top", "type_checking"):
                    mod.imports[r.asname] = r

        def handle(stmt, pos, qual, cls, parent_func):
            if isinstance(stmt, (ast.Import, ast.ImportFrom)):
                record_import(stmt, pos, parent_func)
            elif isinstance(stmt, (ast.FunctionDef, ast.AsyncFunctionDef)):
                q = f"{qual}.{stmt.name}" if qual else stmt.name
                in_class = cls is not None and parent_func is None
                fi = FuncInfo(mod, q, stmt, cls if in_class else None, parent_func, decorator_kind(stmt, in_class))
                # property setters share the name: keep the getter under the plain name
                key = q
                if fi.kind.startswith("property_"):
                    key = f"{q}@{fi.kind[9:]}"
                    fi.qualname = key
                mod.functions[key] = fi
                if in_class and not fi.kind.startswith("property_"):
                    cls.methods[stmt.name] = fi
                elif in_class:
                    cls.methods[f"{stmt.name}@{fi.kind[9:]}"] = fi
                visit(stmt.body, "func", q, None, fi)
            elif isinstance(stmt, ast.ClassDef):
                q = f"{qual}.{stmt.name}" if qual else stmt.name
                ci = ClassInfo(mod, q, stmt, list(stmt.bases))
                if parent_func is None:
                    mod.classes[q] = ci
                else:
                    mod.classes.setdefault(q, ci)
                for s in stmt.body:
                    if isinstance(s, ast.Assign):
                        for t in s.targets:
                            if isinstance(t, ast.Name):
                                ci.attrs[t.id] = s.value
                    elif isinstance(s, ast.AnnAssign) and isinstance(s.target, ast.Name) and s.value is not None:
                        ci.attrs[s.target.id] = s.value
                # methods: parent_func stays None so they register as methods of ci
                for s in stmt.body:
                    if isinstance(s, (ast.FunctionDef, ast.AsyncFunctionDef)):
                        handle_method(s, q, ci, parent_func)
                    elif isinstance(s, (ast.Import, ast.ImportFrom)):
                        record_import(s, "top" if pos == "top" else pos, parent_func)
                    elif isinstance(s, (ast.If, ast.Try, ast.With, ast.For, ast.While)):
                        # conditional method definitions (``if``/``try``/``with contextlib.suppress(...)`` blocks in
                        # a class body); nested function bodies are not entered
                        def _defs(node):
                            for ch in ast.iter_child_nodes(node):
                                if isinstance(ch, (ast.FunctionDef, ast.AsyncFunctionDef)):
                                    yield ch
                                elif not isinstance(ch, (ast.ClassDef, ast.Lambda)):
                                    yield from _defs(ch)

                        for sub in _defs(s):
                            if sub.name not in ci.methods:
                                handle_method(sub, q, ci, parent_func)
            elif isinstance(stmt, ast.If):
                t = unparse(stmt.test)
                if pos == "top" and ("TYPE_CHECKING" in t):
                    visit(stmt.body, "type_checking", qual, cls, parent_func)
                    visit(stmt.orelse, pos, qual, cls, parent_func)
                else:
                    visit(stmt.body, pos, qual, cls, parent_func)
                    visit(stmt.orelse, pos, qual, cls, parent_func)
            elif isinstance(stmt, ast.Try):
                visit(stmt.body, pos, qual, cls, parent_func)
                for h in stmt.handlers:
                    visit(h.body, pos, qual, cls, parent_func)
                visit(stmt.orelse, pos, qual, cls, parent_func)
                visit(stmt.finalbody, pos, qual, cls, parent_func)
            elif isinstance(stmt, (ast.With, ast.For, ast.While, ast.AsyncWith, ast.AsyncFor)):
                visit(stmt.body, pos, qual, cls, parent_func)
                visit(getattr(stmt, "orelse", []), pos, qual, cls, parent_func)
            elif isinstance(stmt, ast.Match):
                for c in stmt.cases:
                    visit(c.body, pos, qual, cls, parent_func)
            elif isinstance(stmt, ast.Assign) and parent_func is None and cls is None:
                for t in stmt.targets:
                    for n in ast.walk(t):
                        if isinstance(n, ast.Name) and isinstance(n.ctx, ast.Store):
                            mod.assigns[n.id] = stmt.value
                            mod.assign_nodes.setdefault(n.id, []).append(stmt)
            elif isinstance(stmt, ast.AnnAssign) and parent_func is None and cls is None:
                if isinstance(stmt.target, ast.Name) and stmt.value is not None:
                    mod.assigns[stmt.target.id] = stmt.value
                    mod.assign_nodes.setdefault(stmt.target.id, []).append(stmt)

        def handle_method(fn, clsqual, ci, parent_func):
            q = f"{clsqual}.{fn.name}"
            kind = decorator_kind(fn, True)
            fi = FuncInfo(mod, q, fn, ci, parent_func, kind)
            if kind.startswith("property_"):
                fi.qualname = f"{q}@{kind[9:]}"
                mod.functions[fi.qualname] = fi
                ci.methods[f"{fn.name}@{kind[9:]}"] = fi
            else:
                mod.functions[q] = fi
                ci.methods[fn.name] = fi
            visit(fn.body, "func", q, None, fi)

        visit(self.tree.body, "top", "", None, None)

    def func(self, qualname) -> FuncInfo:
        fi = self.functions.get(qualname)
        if fi is None:
            raise AnalysisError(f"anchor vanished: function {self.relpath}::{qualname}")
        return fi

    def cls(self, name) -> ClassInfo:
        ci = self.classes.get(name)
        if ci is None:
            raise AnalysisError(f"anchor vanished: class {self.relpath}::{name}")
        return ci


def _site_packages():
    for p in (
        "/venv/lib/python3.12/site-packages",
        *[p for p in sys.path if p.endswith("site-packages")],
    ):
        if os.path.isdir(os.path.join(p, "dask")):
            return p
    return None


class Repo:
    """All units of the package plus lazily parsed upstream ``dask`` modules."""

    def __init__(self, root=None):
        self.root = os.path.abspath(root or REPO)
        self.pkg_dir = os.path.join(self.root, PKG)
        if not os.path.isdir(self.pkg_dir):
            raise AnalysisError(f"package directory missing: {self.pkg_dir}")
        self.modules: dict[str, Module] = {}
        self.site = _site_packages()
        self._external_failed: set[str] = set()
        for dirpath, dirnames, filenames in os.walk(self.pkg_dir):
            dirnames[:] = sorted(d for d in dirnames if d not in ("tests", "__pycache__"))
            for fn in sorted(filenames):
                if not fn.endswith(".py"):
                    continue
                path = os.path.join(dirpath, fn)
                rel = os.path.relpath(path, self.root)
                name = rel[:-3].replace(os.sep, ".")
                if name.endswith(".__init__"):
                    name = name[: -len(".__init__")]
                self.modules[name] = Module(name, path, rel, True)
        self.units = [m for m in self.modules.values() if m.is_unit]
        self._mro_cache: dict[str, list] = {}
        self._subclasses: dict[str, set] | None = None

    # -- module access --------------------------------------------------------
    def module(self, name) -> Module | None:
        m = self.modules.get(name)
        if m is not None:
            return m
        if name in self._external_failed:
            return None
        if self.site and name in UPSTREAM_MODULES:
            base = os.path.join(self.site, *name.split("."))
            for path in (base + ".py", os.path.join(base, "__init__.py")):
                if os.path.isfile(path):
                    m = Module(name, path, os.path.relpath(path, self.site), False)
                    self.modules[name] = m
                    return m
        self._external_failed.add(name)
        return None

    def mod(self, name) -> Module:
        m = self.module(name)
        if m is None:
            raise AnalysisError(f"anchor vanished: module {name}")
        return m

    def digest(self) -> str:
        h = hashlib.sha256()
        for m in sorted(self.units, key=lambda m: m.name):
            h.update(m.name.encode())
            h.update(m.digest.encode())
        return h.hexdigest()

    # -- symbol resolution ----------------------------------------------------
    def resolve_symbol(self, modname: str, symbol: str, _depth=0):
        """Resolve ``symbol`` looked up as an attribute of module ``modname``.

        Returns ("func", FuncInfo) | ("class", ClassInfo) | ("module", name) |
        ("value", (Module, name)) | ("ext", "dotted.name").
        """
        if _depth > 12:
            return ("ext", f"{modname}.{symbol}")
        m = self.module(modname)
        if m is None:
            return ("ext", f"{modname}.{symbol}")
        if symbol in m.classes:
            return ("class", m.classes[symbol])
        if symbol in m.functions and "." not in symbol:
            return ("func", m.functions[symbol])
        if symbol in m.imports:
            r = m.imports[symbol]
            if r.symbol is None:
                return ("module", r.target)
            if r.target == modname and r.symbol == symbol:
                # ``from pkg import sub`` inside pkg/__init__.py: a submodule
                sub = f"{modname}.{symbol}"
                return ("module", sub) if self.module(sub) is not None else ("ext", sub)
            return self.resolve_symbol(r.target, r.symbol, _depth + 1)
        if symbol in m.assigns:
            return ("value", (m, symbol))
        sub = f"{modname}.{symbol}"
        if self.module(sub) is not None:
            return ("module", sub)
        # ``from x import *``
        for r in m.import_recs:
            if r.symbol == "*" and r.pos == "top":
                res = self.resolve_symbol(r.target, symbol, _depth + 1)
                if res[0] != "ext":
                    return res
        return ("ext", sub)

    def resolve_name(self, name: str, module: Module, func: FuncInfo | None = None):
        """Resolve a bare identifier used in ``func`` (or at module level)."""
        f = func
        while f is not None:
            if name not in f.local_imports and name in f.local_names:
                # a parameter or assigned local shadows any module-level symbol of that name
                q = f"{f.qualname}.{name}"
                if q in module.functions:
                    return ("func", module.functions[q])
                return None
            if name in f.local_imports:
                r = f.local_imports[name]
                if r.symbol is None:
                    return ("module", r.target)
                return self.resolve_symbol(r.target, r.symbol)
            # nested function defined in f
            q = f"{f.qualname}.{name}"
            if q in module.functions:
                return ("func", module.functions[q])
            f = f.parent
        if name in module.classes:
            return ("class", module.classes[name])
        if name in module.functions:
            return ("func", module.functions[name])
        if name in module.imports:
            r = module.imports[name]
            if r.symbol is None:
                return ("module", r.target)
            return self.resolve_symbol(r.target, r.symbol)
        if name in module.assigns:
            return ("value", (module, name))
        return None

    def resolve_expr(self, node, module: Module, func: FuncInfo | None = None):
        """Resolve Name / dotted Attribute expression to a symbol if possible."""
        if isinstance(node, ast.Name):
            return self.resolve_name(node.id, module, func)
        if isinstance(node, ast.Attribute):
            base = self.resolve_expr(node.value, module, func)
            if base is None:
                return None
            if base[0] == "module":
                return self.resolve_symbol(base[1], node.attr)
            if base[0] == "class":
                hit = self.class_attr(base[1], node.attr)
                if hit is not None:
                    owner, what = hit
                    if isinstance(what, FuncInfo):
                        return ("func", what)
                    return ("classattr", (owner, node.attr))
                return None
            if base[0] == "ext":
                return ("ext", base[1] + "." + node.attr)
        return None

    # -- classes ----------------------------------------------------------------
    def all_classes(self, units_only=True):
        for m in list(self.modules.values()):
            if units_only and not m.is_unit:
                continue
            yield from m.classes.values()

    def class_by_fq(self, fq) -> ClassInfo | None:
        if ":" not in fq:
            return None
        modname, cname = fq.split(":", 1)
        m = self.module(modname)
        return m.classes.get(cname) if m else None

    def resolve_bases(self, ci: ClassInfo) -> list[str]:
        if ci.bases:
            return ci.bases
        out = []
        for b in ci.base_exprs:
            res = self.resolve_expr(b, ci.module, None)
            if res and res[0] == "class":
                out.append(res[1].fq)
            else:
                out.append("ext:" + (dotted(b) or unparse(b)))
        ci.bases = out or ["ext:object"]
        return ci.bases

    def mro(self, ci: ClassInfo) -> list:
        """C3 linearisation; entries are ClassInfo or 'ext:...' strings."""
        if ci.fq in self._mro_cache:
            return self._mro_cache[ci.fq]
        self._mro_cache[ci.fq] = [ci]  # cycle guard
        seqs = []
        for b in self.resolve_bases(ci):
            bc = self.class_by_fq(b) if not b.startswith("ext:") else None
            seqs.append(self.mro(bc) if bc is not None else [b])
        seqs.append([self.class_by_fq(b) or b for b in self.resolve_bases(ci)])
        res = [ci]
        seqs = [list(s) for s in seqs if s]
        while seqs:
            for s in seqs:
                cand = s[0]
                if not any(cand in t[1:] for t in seqs):
                    break
            else:
                cand = seqs[0][0]  # inconsistent hierarchy: fall back to depth-first
            res.append(cand)
            seqs = [[x for x in s if x is not cand and x != cand] for s in seqs]
            seqs = [s for s in seqs if s]
        self._mro_cache[ci.fq] = res
        return res

    def class_attr(self, ci: ClassInfo, attr: str):
        """(defining ClassInfo, FuncInfo | value node) through the MRO, or None."""
        for c in self.mro(ci):
            if isinstance(c, str):
                continue
            if attr in c.methods:
                return c, c.methods[attr]
            if attr in c.attrs:
                return c, c.attrs[attr]
        return None

    def is_subclass(self, ci: ClassInfo, base_fq_or_name: str) -> bool:
        for c in self.mro(ci):
            if isinstance(c, str):
                if c == base_fq_or_name or c.rsplit(".", 1)[-1] == base_fq_or_name or c[4:] == base_fq_or_name:
                    return True
            elif c.fq == base_fq_or_name or c.name == base_fq_or_name:
                return True
        return False

    def subclasses(self, base: ClassInfo, strict=False):
        out = []
        for c in self.all_classes():
            if c is base and strict:
                continue
            if base in self.mro(c):
                out.append(c)
        return out

    def expr_classes(self) -> list[ClassInfo]:
        base = self.mod("dask_array._expr").cls("ArrayExpr")
        return sorted(self.subclasses(base), key=lambda c: c.fq)

    def find_class(self, name: str) -> ClassInfo:
        hits = [c for c in self.all_classes() if c.name == name]
        if not hits:
            raise AnalysisError(f"anchor vanished: class {name}")
        if len(hits) > 1:
            hits.sort(key=lambda c: c.fq)
        return hits[0]

    def all_functions(self, units_only=True):
        for m in list(self.modules.values()):
            if units_only and not m.is_unit:
                continue
            yield from m.functions.values()

    def stats(self):
        fs = list(self.all_functions())
        return {
            "modules": len(self.units),
            "classes": sum(1 for _ in self.all_classes()),
            "functions": len(fs),
            "methods": sum(1 for f in fs if f.cls is not None),
            "repo_digest": self.digest()[:16],
        }

"""C19 - one clause: the native banded window kernels run only on chunkings their decomposition is valid for."""

from __future__ import annotations

import ast

from ..model import FuncInfo, body_walk, full_walk, unparse
from ..refguards import check_reference
from ..report import RuleResult
from .common import need, site

PROP = "C19"

EXPLANATION = (
    "Decides one structural clause of C19. The native sliding / moving-window reductions (SlidingWindowReduction, MovingWindowReduction) compute every window from a "
    "suffix scan of the block, the totals of the blocks it covers whole and a prefix scan of the band its right (left) edge sweeps; that decomposition is the NumPy "
    "definition only when every output-emitting block is shorter than the window - otherwise a block is counted twice. The validity condition lives in two predicates "
    "(supports_native_sliding_window, supports_native_moving_window). R19.1 (REF) every `return False` of the two predicates keeps its condition; R19.2 (WHO) the two node "
    "classes are constructed only under their predicate (or by their own _lower, which re-establishes it); R19.3 the node asks the predicate again about its CURRENT input "
    "when lowered (check at use: the grid contract is pass-granular); R19.4 both classes tell the grid contract that they observe their input's grid, and their layers "
    "answer a raw-tree walk with the materialized graph. The arithmetic of _block_plan and of the kernels, overlap/boundary handling, diff/gradient and the cumulative "
    "scans are values and index arithmetic and are not decided."
)
ASSUMPTIONS = [
    "the two predicates state the validity condition of the banded decomposition correctly on the reference tree (read and probed; the REF rule only detects that a condition was weakened)",
    "the kernels _sliding_window_banded_reduce / _moving_window_banded_reduce are right on grids the predicates accept (arithmetic, not decided)",
]
TRUSTED = ["CPython ast", "sa.refguards", "sa.cfg guard chains", "sa.model class resolution"]

PREDICATES = {
    "SlidingWindowReduction": "supports_native_sliding_window",
    "MovingWindowReduction": "supports_native_moving_window",
}
MODULE = "dask_array.reductions._sliding_window"


def value_fingerprints(repo):
    """Fingerprints of the boolean expressions the two predicates RETURN (``return max(chunks) <= window - 1``): the last
    validity condition of a predicate is often spelled as its final return value, which the exit-condition inventory
    (conditions under which an exit is taken) does not cover."""
    from ..dataflow import Defs
    from ..refguards import Names, _conjuncts, _fp, _inline, _nnf

    out = {}
    m = repo.mod(MODULE)
    for pred in sorted(set(PREDICATES.values())):
        f = m.func(pred)
        defs = Defs(f.node)
        names = Names(set(defs.defs) | set(defs.params))
        fps = []
        for r in body_walk(f.node):
            if isinstance(r, ast.Return) and r.value is not None and not isinstance(r.value, ast.Constant):
                for lit in _conjuncts(_nnf(_inline(r.value, defs, module=f.module), True)):
                    fps.append({"fp": _fp(lit, names), "text": unparse(lit)[:100]})
        out[f.fq] = sorted(fps, key=lambda d: d["fp"])
    return out


def r19_1(ctx):
    import json
    import os

    rr = RuleResult("R19.1", "REF", "the validity conditions of the banded decomposition (every `return False` of supports_native_sliding_window / supports_native_moving_window, and the boolean expression a predicate returns) are structurally unchanged", min_instances=8)
    check_reference(ctx, rr, PROP)
    fixture = os.path.join(os.path.dirname(os.path.dirname(os.path.dirname(os.path.abspath(__file__)))), "fixtures", "c19_returned_conditions.json")
    need(os.path.isfile(fixture), "fixtures/c19_returned_conditions.json")
    ref = json.load(open(fixture))
    cur = value_fingerprints(ctx.repo)
    for fq, items in ref.items():
        f = ctx.repo.mod(fq.split(":")[0]).func(fq.split(":")[1])
        have = [d["fp"] for d in cur.get(fq, [])]
        for it in items:
            cst = f"{f.construct}::returns {it['text']}"
            rr.inst(cst, present=it["fp"] in have)
            if it["fp"] not in have:
                ctx.finding(rr, cst, f"the condition {f.name} returns changed: expected `{it['text']}`; now: {'; '.join(d['text'] for d in cur.get(fq, [])) or 'no returned condition'}", func=f)
    return rr


def _classes(ctx):
    m = ctx.repo.mod(MODULE)
    out = {}
    for name in PREDICATES:
        need(name in m.classes, f"{MODULE}:{name}")
        out[name] = m.classes[name]
        need(PREDICATES[name] in m.functions, f"{MODULE}:{PREDICATES[name]}")
    return out


def r19_2(ctx):
    rr = RuleResult("R19.2", "WHO", "SlidingWindowReduction / MovingWindowReduction are constructed only under their validity predicate, or by their own _lower after it has re-established the predicate", min_instances=4)
    from ..cfg import CFG, stmt_of
    from ..dataflow import Defs
    from ..refguards import _conjuncts, _inline, _nnf

    repo = ctx.repo
    classes = _classes(ctx)
    n_sites = 0
    for f in repo.all_functions():
        if "/tests/" in f.module.relpath or f.parent is not None:
            continue
        cfg = None
        for n in body_walk(f.node):
            if not isinstance(n, ast.Call):
                continue
            r = repo.resolve_expr(n.func, f.module, f) if isinstance(n.func, (ast.Name, ast.Attribute)) else None
            target = None
            if r and r[0] == "class" and r[1].name in classes and r[1].fq == classes[r[1].name].fq:
                target = r[1].name
            elif f.cls is not None and f.cls.name in classes and unparse(n.func) in ("type(self)", "self.__class__"):
                target = f.cls.name
            if target is None:
                continue
            n_sites += 1
            pred = PREDICATES[target]
            if cfg is None:
                cfg, defs = CFG(f.node), Defs(f.node)
            st = stmt_of(cfg, n)
            conj_calls = []
            if st is not None:
                for t, pol in cfg.guards(st):
                    for lit in _conjuncts(_nnf(_inline(t, defs, module=f.module), pol)):
                        for m in ast.walk(lit):
                            if isinstance(m, ast.Call) and isinstance(m.func, ast.Name) and m.func.id == pred:
                                # positive literal P(...) - or, inside the class's own _lower, the re-establishing branch `not P(old) ... P(split)`
                                conj_calls.append(unparse(lit)[:80])
            cst = f"{f.construct}::{target}(...)"
            rr.inst(cst, under=sorted(set(conj_calls))[:2])
            if not conj_calls:
                ctx.finding(rr, cst, f"{f.qualname} builds a {target} without asking {pred}: the banded kernel double-counts a block that is not shorter than the window", func=f, node=n)
    need(n_sites >= 3, "construction sites of the native window reductions")
    return rr


def r19_3(ctx):
    rr = RuleResult("R19.3", "GUARD", "each native window node asks its validity predicate again about self.<input>.chunks when it is lowered (check at use, not only at choice)", min_instances=2)
    from ..dataflow import Defs
    from ..refguards import _inline

    for name, c in _classes(ctx).items():
        pred = PREDICATES[name]
        where = []
        for mname in ("_lower", "_layer", "lower_once"):
            g = c.methods.get(mname)
            if g is None:
                continue
            gdefs = Defs(g.node)
            for m in full_walk(g.node):
                if isinstance(m, ast.Call) and isinstance(m.func, ast.Name) and m.func.id == pred and m.args:
                    a0 = unparse(_inline(m.args[0], gdefs, module=g.module))
                    if "self." in a0 and ".chunks" in a0:
                        where.append(mname)
        cst = f"{c.construct}::re-check of {pred}"
        rr.inst(cst, in_methods=sorted(set(where)))
        if not where:
            ctx.finding(
                rr, cst,
                f"{name} never asks {pred} about its current input: the predicate was evaluated once, when the node was chosen, against the chunks the input ADVERTISED then - "
                "a 2-d moving window (rolling sum along axis 0 of a rolling sum along axis 1) silently returned window + block total",
                file=c.module.path, line=c.node.lineno,
            )
    return rr


def r19_4(ctx):
    rr = RuleResult("R19.4", "COVER", "both native window classes declare _requires_grid_preservation and their _layer answers a raw-tree walk with the materialized graph (they have a rewriting _lower)", min_instances=4)
    for name, c in _classes(ctx).items():
        hit = ctx.repo.class_attr(c, "_requires_grid_preservation")
        rets = [unparse(r.value) for r in body_walk(hit[1].node) if isinstance(r, ast.Return) and r.value is not None] if hit and isinstance(hit[1], FuncInfo) else []
        cst = f"{c.construct}::_requires_grid_preservation"
        rr.inst(cst, returns=rets)
        if rets != ["True"]:
            ctx.finding(rr, cst, f"{name} does not tell the grid contract that it observes its input's grid (returns {rets})", file=c.module.path, line=c.node.lineno)
        lay = c.methods.get("_layer")
        need(lay is not None, f"{name}._layer")
        first = [s for s in lay.node.body if not (isinstance(s, ast.Expr) and isinstance(s.value, ast.Constant))][:2]
        guarded = any("_graph_if_unlowered" in unparse(s) for s in first)
        cst2 = f"{c.construct}::_layer raw-walk guard"
        rr.inst(cst2, present=guarded)
        if "_lower" in c.methods and not guarded:
            ctx.finding(rr, cst2, f"{name}._lower can replace the node, but _layer does not start with self._graph_if_unlowered(): a raw-tree walk (dask.optimize / dask.persist) would run the banded kernel on blocks it is not valid for", func=lay)
    return rr


RULES = [r19_1, r19_2, r19_3, r19_4]

LEVEL_TEXT = (
    "Static decision of one clause of C19: the native banded sliding / moving-window kernels are reached only on chunkings for which their decomposition is the NumPy "
    "definition. Reference-guard fingerprints of every refusing exit of the two validity predicates, who-may-construct the two node classes (only under the predicate), a "
    "check-at-use rule (the predicate is asked again about the current input when the node is lowered) and the classes' declarations to the grid contract / raw-walk "
    "guard. Found silently wrong values for 2-d moving windows on the pinned tree (repaired in /repo). Kernel and plan arithmetic, overlap boundaries, diff/gradient and "
    "cumulative scans are not decided."
)
LEVEL_NOTE = (
    "Trusted: CPython ast, engine CFG guard chains, the reviewed reference table fixtures/ref_guards.json (section C19). Assumes the two predicates state the validity "
    "condition correctly on the reference tree and that the kernels are right on accepted grids."
)
TECHNIQUE = "static analysis: reference-guard fingerprints of the validity predicates + who-may-construct under the predicate + check-at-use guard rule (ast, CFG guard chains)"

"""Witness for R04.9 (repaired in /repo): dask.optimize(x) of a reduction must agree with x.compute().
Exit 0 when every entry point agrees, 1 otherwise (TypeError / ValueError before the repair)."""
import sys

import numpy as np

import dask
import dask_array as da

a = np.arange(35.0).reshape(5, 7)
x = da.from_array(a, chunks=(2, 3))
progs = {
    "sum": lambda: (x + 1).sum(axis=0),
    "mean": lambda: x.mean(),
    "var": lambda: x.var(axis=1),
    "topk": lambda: da.topk(x, 2, axis=1),
    "argmax": lambda: x.argmax(axis=1),
    "sum of sum": lambda: x.sum(axis=0).sum(),
}
bad = 0
for name, mk in progs.items():
    want = mk().compute()
    for ep, f in {
        "dask.optimize": lambda d: dask.optimize(d)[0].compute(),
        "dask.optimize, then + 1": lambda d: (dask.optimize(d)[0] + 1).compute() - 1,
        "dask.optimize of two": lambda d: dask.optimize(d, d + 1)[1].compute() - 1,
        "dask.persist": lambda d: dask.persist(d)[0].compute(),
    }.items():
        try:
            if not np.allclose(f(mk()), want):
                bad += 1
                print(name, ep, "differs")
        except Exception as e:  # noqa: BLE001
            bad += 1
            print(name, ep, type(e).__name__, str(e)[:80])
sys.exit(1 if bad else 0)

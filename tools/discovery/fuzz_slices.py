import numpy as np, itertools, random, warnings, sys
warnings.simplefilter("ignore")
import dask_array as da
random.seed(int(sys.argv[1]) if len(sys.argv)>1 else 0)
a = np.arange(24.).reshape(4,6)
b3 = np.arange(60.).reshape(3,4,5)
srcs = {
  "arange": (lambda: da.arange(12, chunks=5), np.arange(12)),
  "arange_step": (lambda: da.arange(2, 30, 3, chunks=4), np.arange(2,30,3)),
  "linspace": (lambda: da.linspace(0, 1, 13, chunks=5), np.linspace(0,1,13)),
  "ones": (lambda: da.ones((4,6), chunks=(3,4)), np.ones((4,6))),
  "full": (lambda: da.full((4,6), 7.0, chunks=(3,4)), np.full((4,6),7.0)),
  "elemwise": (lambda: da.from_array(a, chunks=(3,4)) + 1, a+1),
  "elemwise_bcast": (lambda: da.from_array(a, chunks=(3,4)) + da.from_array(a[0], chunks=4), a+a[0]),
  "elemwise3": (lambda: da.from_array(b3, chunks=(2,3,2)) + da.from_array(b3[0], chunks=(3,2)), b3+b3[0]),
  "expand": (lambda: da.expand_dims(da.from_array(a, chunks=(3,4)) * 2, 1), np.expand_dims(a*2, 1)),
  "transpose": (lambda: (da.from_array(a, chunks=(3,4))*2).T, (a*2).T),
  "transpose3": (lambda: (da.from_array(b3, chunks=(2,3,2))*2).transpose(2,0,1), (b3*2).transpose(2,0,1)),
  "stack": (lambda: da.stack([da.from_array(a, chunks=(3,4))*2, da.from_array(a, chunks=(3,4))+1]), np.stack([a*2,a+1])),
  "stack1": (lambda: da.stack([da.from_array(a, chunks=(3,4))*2, da.from_array(a, chunks=(3,4))+1], axis=1), np.stack([a*2,a+1],axis=1)),
  "concat": (lambda: da.concatenate([da.from_array(a, chunks=(3,4))*2, da.from_array(a, chunks=(3,4))+1], axis=1), np.concatenate([a*2,a+1],axis=1)),
  "bcast": (lambda: da.broadcast_to(da.from_array(a[0], chunks=4)*2, (3,6)), np.broadcast_to(a[0]*2,(3,6))),
  "reshape": (lambda: (da.from_array(a, chunks=(2,6))*2).reshape(4,2,3), (a*2).reshape(4,2,3)),
  "reshape_m": (lambda: (da.from_array(b3, chunks=(1,4,5))*2).reshape(12,5), (b3*2).reshape(12,5)),
  "sum": (lambda: (da.from_array(a, chunks=(3,4))*2).sum(axis=0), (a*2).sum(axis=0)),
  "sumkeep": (lambda: (da.from_array(a, chunks=(3,4))*2).sum(axis=1, keepdims=True), (a*2).sum(axis=1, keepdims=True)),
  "mean3": (lambda: (da.from_array(b3, chunks=(2,3,2))*2).mean(axis=1), (b3*2).mean(axis=1)),
  "fromarray": (lambda: da.from_array(b3, chunks=(2,3,2)), b3),
  "matmul": (lambda: da.from_array(a, chunks=(3,4)) @ da.from_array(a.T, chunks=(4,3)), a@a.T),
  "cumsum": (lambda: da.from_array(a, chunks=(3,4)).cumsum(axis=1), a.cumsum(axis=1)),
  "take": (lambda: da.take(da.from_array(a, chunks=(3,4))*2, [3,0,2,2], axis=0), np.take(a*2,[3,0,2,2],axis=0)),
  "where": (lambda: da.where(da.from_array(a, chunks=(3,4))>5, da.from_array(a, chunks=(2,3)), 0.0), np.where(a>5,a,0.0)),
}
def rand_index(ndim):
    out=[]; n_real=0
    for _ in range(random.randint(1, ndim+2)):
        k = random.random()
        if k<0.2: out.append(None)
        elif n_real>=ndim: continue
        elif k<0.45:
            out.append(random.choice([0,1,-1,2,-2])); n_real+=1
        else:
            st = random.choice([None,None,1,2,-1,-2,3])
            a_ = random.choice([None,0,1,2,-1,5,10]); b_=random.choice([None,0,1,3,-1,-2,5,10])
            out.append(slice(a_,b_,st)); n_real+=1
    if random.random()<0.15 and n_real<ndim: out.insert(random.randint(0,len(out)), Ellipsis)
    return tuple(out)
bad=0; n=0
only = sys.argv[2:] 
for name,(mkf,ref) in srcs.items():
    if only and name not in only: continue
    b=0
    for t in range(250):
        idx = rand_index(ref.ndim)
        try: want = ref[idx]
        except Exception: continue
        n+=1
        try:
            x = mkf()[idx]
            if random.random()<0.4:
                idx2 = rand_index(want.ndim)
                try: want2 = want[idx2]
                except Exception: idx2=None
                if idx2 is not None:
                    x = x[idx2]; want = want2; idx=(idx,idx2)
            got = x.compute()
            ok = got.shape==want.shape and np.allclose(got,want) and tuple(map(sum,x.chunks))==want.shape
            if not ok:
                b+=1; print("MISMATCH", name, idx, got.shape, want.shape, x.chunks)
        except Exception as e:
            b+=1; print("RAISE", name, idx, type(e).__name__, str(e)[:100])
        if b>6: break
    bad+=b
print("cases", n, "bad", bad)

import numpy as np, random, warnings, sys
warnings.simplefilter("ignore")
import dask, dask_array as da
from dask import delayed
seed=int(sys.argv[1]) if len(sys.argv)>1 else 0
random.seed(seed); bad=0
def mk(i,shape,scale=1.0): return (np.arange(float(np.prod(shape))).reshape(shape)+100*i)*scale
def rslice(s): return random.choice([slice(None), slice(1,None), slice(None,-1), slice(None,None,2), slice(None,None,-1), 0, s-1, slice(0,0), slice(1,2)])
for p in range(int(sys.argv[2]) if len(sys.argv)>2 else 300):
    shape=random.choice([(3,4),(2,5),(4,)])
    k=random.randint(1,4)
    kind=random.choice(['stack','concat','stack_kw','mixed','nested','named','from_map','from_map_kw','single'])
    log=[kind,shape,k]
    try:
        parts=[];nps=[]
        for i in range(k):
            if kind=='stack_kw': d=delayed(mk)(i,shape,scale=2.0); nv=mk(i,shape,2.0)
            elif kind=='nested': d=delayed(np.add)(delayed(mk)(i,shape),1.0); nv=mk(i,shape)+1
            elif kind=='named': d=delayed(mk,name=f'blk-{seed}-{p}-{i}')(i,shape); nv=mk(i,shape)
            elif kind=='mixed' and i%2: d=None; nv=mk(i,shape)
            else: d=delayed(mk)(i,shape); nv=mk(i,shape)
            parts.append(da.from_delayed(d,shape=shape,dtype=float) if d is not None else da.from_array(nv,chunks=tuple(random.choice([1,2,s]) for s in shape)))
            nps.append(nv)
        if kind in('from_map','from_map_kw'):
            n=k
            f=(lambda i,shape=shape: mk(i,shape)) if kind=='from_map' else (lambda i,scale=1.0,shape=shape: mk(i,shape,scale))
            kw={} if kind=='from_map' else {'scale':2.0}
            r=da.from_map(f,list(range(n)),chunks=((shape[0],)*n,)+tuple((s,) for s in shape[1:]),dtype=float,**kw) if hasattr(da,'from_map') else None
            if r is None: continue
            want=np.concatenate([mk(i,shape,kw.get('scale',1.0)) for i in range(n)],axis=0)
        elif kind=='concat' or (kind in('mixed','nested','named','single') and random.random()<0.5):
            ax=random.randrange(len(shape)); r=da.concatenate(parts,axis=ax); want=np.concatenate(nps,axis=ax)
        else:
            ax=random.randrange(len(shape)+1); r=da.stack(parts,axis=ax); want=np.stack(nps,axis=ax)
        for _ in range(random.randint(0,3)):
            c=random.random()
            if 0 in want.shape or want.ndim==0: break
            if c<0.5:
                idx=tuple(rslice(s) for s in want.shape); r=r[idx]; want=want[idx]; log.append(f'slice{idx}')
            elif c<0.6: r=r.T; want=want.T; log.append('T')
            elif c<0.7:
                ch=tuple(random.choice([1,2,s]) for s in want.shape); r=r.rechunk(ch); log.append(f'rechunk{ch}')
            elif c<0.8:
                ax=random.randrange(want.ndim); r=r.sum(axis=ax); want=want.sum(axis=ax); log.append(f'sum{ax}')
            elif c<0.9: r=r+1; want=want+1; log.append('add1')
            else:
                ax=random.randrange(want.ndim); ind=[random.randrange(want.shape[ax]) for _ in range(2)]; r=da.take(r,ind,axis=ax); want=np.take(want,ind,axis=ax); log.append(f'take{ax}{ind}')
        g=np.asarray(r.compute())
        if g.shape!=np.shape(want) or not np.allclose(g,want): bad+=1; print('MISMATCH',seed,p,log)
        g2=np.asarray(dask.compute(r, r+1)[1])-1
        if not np.allclose(g2,want): bad+=1; print('MISMATCH2',seed,p,log)
    except Exception as e:
        bad+=1; print('RAISE',seed,p,type(e).__name__,str(e)[:100],log)
print('bad',bad)

"""C02 - clause 3: blockwise fusion never changes which input block an output block reads; rewrite declines stay in force."""

from __future__ import annotations

import ast

from ..model import FuncInfo, body_walk, const_value, dotted, full_walk, idents_in, norm, unparse
from ..refguards import check_reference
from ..report import RuleResult
from .common import callgraph, need, site

PROP = "C02"

EXPLANATION = (
    "Decides the structural clause of C02 (sentence 3: blockwise fusion never changes which input block any output block is "
    "computed from) plus a reference inventory of the conditions under which rewrites decline. R02.1 every class that can "
    "be fusable (class attribute or property _is_blockwise_fusable) resolves both _task and _input_block_id; R02.2 sibling "
    "agreement: in each such class the block ids put into TaskRef((dep name, *ids)) by _task are produced by the same "
    "helper functions as _input_block_id/_all_input_block_ids (or are the identity in both); R02.3 the conflict detector "
    "_symbolic_mapping handles every fusable class with a non-identity mapping in a non-identity branch, and "
    "FusedBlockwise._task derives every inner block id through expr._input_block_id; R02.4 (REF) the decline guards of "
    "Blockwise._is_blockwise_fusable (concatenate, Delayed operand, contracted multi-block dimension), of the conflict "
    "detector and of all 167 declining exits of the rewrite hooks (_accept_*, _simplify_*, _pushdown*, _lower, pushdown "
    "gates) are structurally unchanged; R02.5 FusedBlockwise.dependencies = inner dependencies minus fused names; "
    "R02.8 sibling agreement among the five rewrites that rebuild an Elemwise around transformed inputs: the optional array operands where/out "
    "are transformed with the inputs; R02.9 every operand loop of a Blockwise-family slice pushdown consults the operand's own extent (broadcast "
    "axes); R02.10 a pushdown that converts output block indices into offsets on an operand's own chunks declines on the operands' grids "
    "(position pairing needs aligned operands); R02.11 a hook that rebuilds its own class recomputes layout-literal operands or is conditioned on the pushed operation; R02.12 index-space typing (sa/indexspace.py): output-laid sequences are subscripted by output positions, operand-laid ones by that operand's positions. "
    "Sentences 1-2 (every phase and every fired rewrite preserves values) quantify over array contents and are not decided; "
    "the REF inventory only detects that a condition under which a rewrite used to decline was weakened."
)
ASSUMPTIONS = [
    "the helper functions themselves (_compute_block_id, _broadcast_block_id, Transpose permutation) compute the right mapping (arithmetic, not decided)",
    "reference guards reviewed on the reference tree",
]
TRUSTED = ["CPython ast", "sa.model MRO resolution", "sa.refguards", "sa.callgraph"]

ID_HELPERS_EXPAND = 2


def _fusable_classes(repo):
    out = []
    for c in repo.expr_classes():
        hit = repo.class_attr(c, "_is_blockwise_fusable")
        if hit is None:
            continue
        owner, what = hit
        if isinstance(what, FuncInfo):
            rets = [r.value for r in body_walk(what.node) if isinstance(r, ast.Return)]
            if rets and all(isinstance(v, ast.Constant) and v.value is False for v in rets):
                continue  # a property that always answers False
            out.append((c, f"property from {owner.name}"))
        elif const_value(what) is True:
            out.append((c, f"class attribute from {owner.name}"))
    return out


def _helpers(repo, f: FuncInfo, depth=ID_HELPERS_EXPAND, seen=None, only_into_taskref=False):
    """Names of block-id helper functions/methods (anything with 'block_id' or '_idx_to_block' in its
    name) transitively called from ``f``.  With ``only_into_taskref`` only calls whose result flows
    (through local definitions) into a ``TaskRef(...)`` key are considered."""
    from ..dataflow import Defs

    seen = seen if seen is not None else set()
    out = set()
    nodes = list(body_walk(f.node))
    if only_into_taskref:
        defs = Defs(f.node)
        nodes = []
        work = [a for n in full_walk(f.node) if isinstance(n, ast.Call) and (dotted(n.func) or "").endswith("TaskRef") for a in n.args]
        names = set()
        while work:
            e = work.pop()
            nodes.extend(ast.walk(e))
            for x in ast.walk(e):
                if isinstance(x, ast.Name) and x.id not in names:
                    names.add(x.id)
                    work.extend(defs.defs.get(x.id, []))
    for n in nodes:
        if isinstance(n, ast.Call):
            tail = (dotted(n.func) or "").rsplit(".", 1)[-1]
            if "block_id" in tail or tail in ("_idx_to_block",):
                out.add(tail)
                if depth > 0 and isinstance(n.func, ast.Attribute) and unparse(n.func.value) == "self" and f.cls is not None:
                    hit = repo.class_attr(f.cls, tail)
                    if hit and isinstance(hit[1], FuncInfo) and hit[1].fq not in seen:
                        seen.add(hit[1].fq)
                        out |= _helpers(repo, hit[1], depth - 1, seen)
                elif depth > 0 and isinstance(n.func, ast.Name):
                    res = repo.resolve_name(tail, f.module, f)
                    if res and res[0] == "func" and res[1].fq not in seen:
                        seen.add(res[1].fq)
                        out |= _helpers(repo, res[1], depth - 1, seen)
    return out


def r02_1(ctx):
    rr = RuleResult("R02.1", "COVER", "every possibly-fusable class resolves _task and _input_block_id", min_instances=8)
    repo = ctx.repo
    for c, how in _fusable_classes(repo):
        t = repo.class_attr(c, "_task")
        i = repo.class_attr(c, "_input_block_id")
        rr.inst(c.construct, fusable=how, task=t[0].name if t else None, input_block_id=i[0].name if i else None)
        if t is None or not isinstance(t[1], FuncInfo) or not t[0].module.is_unit:
            ctx.finding(rr, c.construct, f"{c.name} can be fused but defines no per-block _task: FusedBlockwise._task cannot build its inner task", file=c.module.path, line=c.node.lineno)
    return rr


def r02_2(ctx):
    rr = RuleResult("R02.2", "COVER", "in each fusable class, _task and _input_block_id compute dependency block ids with the same helpers", min_instances=8)
    repo = ctx.repo
    for c, how in _fusable_classes(repo):
        t = repo.class_attr(c, "_task")
        i = repo.class_attr(c, "_input_block_id")
        if not (t and i and isinstance(t[1], FuncInfo) and isinstance(i[1], FuncInfo)):
            continue
        tf, jf = t[1], i[1]
        if not tf.module.is_unit:
            continue
        # block ids used inside TaskRef keys of _task
        refs = [n for n in full_walk(tf.node) if isinstance(n, ast.Call) and (dotted(n.func) or "").endswith("TaskRef")]
        th = _helpers(repo, tf, only_into_taskref=True) - {"_input_block_id"}
        ih = (_helpers(repo, jf) if jf.module.is_unit else set()) - {"_input_block_id"}
        calls_input = any(isinstance(n, ast.Call) and unparse(n.func) == "self._input_block_id" for n in full_walk(tf.node))
        identity_task = all("block_id" in idents_in(r) and not th for r in refs) if refs else True
        identity_input = not ih and all(unparse(r.value) == "block_id" for r in body_walk(jf.node) if isinstance(r, ast.Return)) if jf.module.is_unit else True
        rr.inst(c.construct, task_helpers=sorted(th), input_block_id_helpers=sorted(ih), task_in=tf.construct, input_in=jf.construct)
        if calls_input:
            continue  # _task asks _input_block_id itself
        if not refs:
            continue  # no dependency blocks referenced (creation nodes)
        if identity_task and identity_input:
            continue
        core_t = {h for h in th if h not in ("_idx_to_block",)}
        core_i = {h for h in ih if h not in ("_idx_to_block",)}
        if not (core_t & core_i) and not (core_t <= core_i and core_i <= core_t):
            ctx.finding(
                rr, c.construct,
                f"{c.name}: _task ({tf.construct}) derives dependency block ids with {sorted(th) or 'the identity'} while _input_block_id ({jf.construct}) uses {sorted(ih) or 'the identity'}: "
                "a fused task would reference other input blocks than the unfused graph",
                func=tf,
            )
    return rr


def r02_3(ctx):
    rr = RuleResult("R02.3", "COVER", "the conflict detector understands every non-identity block mapping; FusedBlockwise derives inner ids through _input_block_id", min_instances=3)
    repo = ctx.repo
    m = repo.mod("dask_array._blockwise")
    sm = m.func("_symbolic_mapping")
    txt = unparse(sm.node)
    branches = {"Transpose": "isinstance(expr, Transpose)" in txt, "blockwise-like": "hasattr(expr, 'out_ind') and hasattr(expr, 'args')" in txt, "identity": "expr.dependencies()" in txt}
    rr.inst(site(sm), branches=branches)
    for k, v in branches.items():
        if not v:
            ctx.finding(rr, site(sm), f"_symbolic_mapping lost its {k} branch", func=sm)
    base_ibi = repo.class_attr(repo.mod("dask_array._expr").cls("ArrayExpr"), "_input_block_id")[1]
    for c, how in _fusable_classes(repo):
        i = repo.class_attr(c, "_input_block_id")
        if not i or not isinstance(i[1], FuncInfo):
            continue
        non_identity = i[1] is not base_ibi and not all(unparse(r.value) == "block_id" for r in body_walk(i[1].node) if isinstance(r, ast.Return))
        if not non_identity:
            continue
        is_transpose = repo.is_subclass(c, "Transpose")
        has_out_ind = repo.class_attr(c, "out_ind") is not None or "out_ind" in (const_value(repo.class_attr(c, "_parameters")[1]) or [])
        has_args = repo.class_attr(c, "args") is not None
        rr.inst(c.construct, non_identity_mapping=True, caught_by="Transpose branch" if is_transpose else ("out_ind/args branch" if has_out_ind and has_args else None))
        if not (is_transpose or (has_out_ind and has_args)):
            ctx.finding(rr, c.construct, f"{c.name} permutes/broadcasts block ids (_input_block_id in {i[0].name}) but would fall into the identity branch of _symbolic_mapping: conflicting accesses are fused", file=c.module.path, line=c.node.lineno)
    fb = m.cls("FusedBlockwise")
    cb = fb.methods.get("_compute_block_ids")
    need(cb is not None, "FusedBlockwise._compute_block_ids")
    ok = any(isinstance(n, ast.Call) and unparse(n.func) == "expr._input_block_id" for n in full_walk(cb.node))
    rr.inst(site(cb), uses_input_block_id=ok)
    if not ok:
        ctx.finding(rr, site(cb), "FusedBlockwise no longer derives inner block ids through each expression's _input_block_id", func=cb)
    ft = fb.methods.get("_task")
    ok2 = "expr._task(subname, expr_block_id)" in unparse(ft.node) and "_compute_block_ids(block_id)" in unparse(ft.node)
    rr.inst(site(ft), shape_ok=ok2)
    if not ok2:
        ctx.finding(rr, site(ft), "FusedBlockwise._task no longer calls expr._task with the block id computed by _compute_block_ids", func=ft)
    return rr


def r02_4(ctx):
    rr = RuleResult("R02.4", "REF", "declining exits of the fusability test, the conflict detector and all rewrite hooks keep their controlling conditions", min_instances=140)
    return check_reference(ctx, rr, PROP)


def r02_5(ctx):
    from .c04 import r04_4

    full = r04_4(ctx)
    rr = RuleResult("R02.5", "COVER", "FusedBlockwise.dependencies = inner dependencies minus fused names", min_instances=1)
    for i in full.instances:
        if "FusedBlockwise.dependencies" in i["construct"]:
            rr.instances.append(i)
    for fd in full.findings:
        if "FusedBlockwise.dependencies" in fd.construct:
            fd.rule, fd.prop = "R02.5", PROP
            rr.findings.append(fd)
    return rr


PERMUTATION_ATTRS = {"axes", "_inverse_axes", "inverse_axes", "_axes"}


def r02_6(ctx):
    rr = RuleResult("R02.6", "COVER", "the symbolic conflict detector maps a Transpose through the same permutation attribute as Transpose._input_block_id (sibling agreement)", min_instances=1)
    repo = ctx.repo
    tr = repo.find_class("Transpose")
    ibi = tr.methods.get("_input_block_id")
    sm = repo.mod("dask_array._blockwise").functions.get("_symbolic_mapping")
    need(ibi is not None and sm is not None, "Transpose._input_block_id / _symbolic_mapping")

    def perm_attrs(nodes, recv):
        return {n.attr for x in nodes for n in ast.walk(x) if isinstance(n, ast.Attribute) and isinstance(n.value, ast.Name) and n.value.id == recv and n.attr in PERMUTATION_ATTRS}

    a_task = perm_attrs([ibi.node], "self")
    branch = None
    for n in body_walk(sm.node):
        if isinstance(n, ast.If) and isinstance(n.test, ast.Call) and dotted(n.test.func) == "isinstance" and "Transpose" in unparse(n.test.args[1]):
            branch = n
    need(branch is not None, "the Transpose branch of _symbolic_mapping")
    recv = unparse(branch.test.args[0])
    a_sym = perm_attrs(branch.body, recv)
    rr.inst(site(sm, branch)[:140], task_side=sorted(a_task), detector_side=sorted(a_sym))
    if a_task != a_sym:
        ctx.finding(
            rr, site(sm, branch)[:140],
            f"_symbolic_mapping follows a Transpose through {sorted(a_sym)} while Transpose._input_block_id (which decides the block a task really reads) uses {sorted(a_task)}: "
            f"for non-self-inverse permutations the detector sees another access pattern than the graph has, misses a conflict, and fusion gives a shared input one block id per output block",
            func=sm, node=branch,
        )
    return rr


USER_FN_OPERANDS = {"func", "chunk", "aggregate", "combine", "binop", "function", "preprocess", "cumfunc"}
R027_EXEMPT = {
    "Reduction": "only the weights operand is indexed, with the same index as the reduced array's kept axes; the chunk function itself receives whole blocks of the (sliced) input along non-reduced axes through the ordinary tree reduction, and the culling gate declines slices that do not drop a whole block",
}


def r02_7(ctx):
    rr = RuleResult("R02.7", "GUARD", "a slice is pushed INTO the inputs of a node that runs a user-supplied block function only in whole blocks (the function is block-local, not known to be pointwise within a block)", min_instances=2)
    repo = ctx.repo
    from ..dataflow import Defs
    from ..namedeps import params_of

    for c in repo.expr_classes():
        f = c.methods.get("_accept_slice")
        if f is None:
            continue
        ops = sorted(set(params_of(repo, c)) & USER_FN_OPERANDS)
        if not ops:
            continue
        defs = Defs(f.node)
        slice_param = [p for p in f.params if p != "self"][0] if len(f.params) > 1 else "slice_expr"

        def element_level(expr, depth=0, seen=None):
            """Does ``expr`` derive from the element positions of the pushed slice (slice_expr.index) without going
            through block boundaries (cached_cumsum / chunk sums)?"""
            seen = seen if seen is not None else set()
            txt = unparse(expr)
            if "cumsum" in txt or "block_range" in txt:
                return False
            for n in ast.walk(expr):
                if isinstance(n, ast.Attribute) and n.attr == "index" and isinstance(n.value, ast.Name) and n.value.id == slice_param:
                    return True
                if isinstance(n, ast.Name) and n.id not in seen and n.id in defs.defs and depth < 5:
                    seen.add(n.id)
                    if any(element_level(v, depth + 1, seen) for v in defs.defs[n.id] + defs.mutations(n.id)):
                        return True
            return False

        sites = [n for n in ast.walk(f.node) if isinstance(n, ast.Subscript) and isinstance(n.ctx, ast.Load) and isinstance(n.value, ast.Call) and (dotted(n.value.func) or "").endswith("new_collection")]
        hits = [n for n in sites if element_level(n.slice)]
        cst = f"{c.construct}::_accept_slice::element-level input slice"
        rr.inst(cst, user_function_operands=ops, input_slicing_sites=[unparse(n)[:60] for n in sites], element_level=[unparse(n)[:60] for n in hits])
        if not hits:
            continue
        if c.name in R027_EXEMPT:
            rr.exempt(cst, R027_EXEMPT[c.name])
            continue
        ctx.finding(
            rr, cst,
            f"{c.name}._accept_slice pushes the element positions of a slice into the inputs of a node whose block function ({', '.join(ops)}) is supplied by the user: the rewrite assumes the function "
            f"is pointwise within a block; a block-local but non-pointwise function (per-block cumsum, normalisation, FFT) then sees other data and the sliced result differs from slicing the full result",
            func=f, node=hits[0],
        )
    return rr


def _optional_array_operands(repo, cls):
    """Parameters P of ``cls`` that the class itself tests with ``isinstance(self.P, ArrayExpr)``: operands that may
    or may not be arrays (Elemwise.where / Elemwise.out today) - discovered from the class on every run."""
    from ..namedeps import params_of

    params = list(params_of(repo, cls))
    out = []
    for f in cls.methods.values():
        for n in full_walk(f.node):
            if isinstance(n, ast.Call) and dotted(n.func) == "isinstance" and len(n.args) == 2 and "ArrayExpr" in idents_in(n.args[1]):
                a = n.args[0]
                if isinstance(a, ast.Attribute) and isinstance(a.value, ast.Name) and a.value.id == "self" and a.attr in params and a.attr not in out:
                    out.append(a.attr)
    return params, out


def r02_8(ctx):
    rr = RuleResult(
        "R02.8", "COVER",
        "sibling agreement among the rewrites that rebuild an Elemwise around transformed inputs (slice / shuffle / rechunk / transpose pushdown, "
        "lowering): the optional array operands (where, out - read block by block next to the inputs) are transformed with the inputs, or the "
        "site runs only under a condition on that operand",
        min_instances=4,
    )
    from ..cfg import CFG, stmt_of
    from ..dataflow import Defs
    from .common import chain_conjuncts

    repo = ctx.repo
    cls = repo.mod("dask_array._blockwise").cls("Elemwise")
    params, optional = _optional_array_operands(repo, cls)
    need(set(optional) >= {"where", "out"}, "Elemwise tests isinstance(self.where/out, ArrayExpr)")
    need("op" in params, "Elemwise._parameters has 'op'")
    op_slot = params.index("op")
    for f in repo.all_functions():
        if "/tests/" in f.module.relpath:
            continue
        calls = []
        for n in body_walk(f.node):
            if not isinstance(n, ast.Call) or not isinstance(n.func, (ast.Name, ast.Attribute)):
                continue
            r = repo.resolve_expr(n.func, f.module, f)
            is_cls = r is not None and r[0] == "class" and r[1].fq == cls.fq
            is_self_type = f.cls is not None and f.cls.fq == cls.fq and unparse(n.func) in ("type(self)", "self.__class__")
            if is_cls or is_self_type:
                calls.append(n)
        if not calls:
            continue
        defs = Defs(f.node)
        cfg = None
        for call in calls:
            if len(call.args) <= len(params) or any(isinstance(a, ast.Starred) for a in call.args[: len(params)]):
                continue
            head = call.args[op_slot]
            if not (isinstance(head, ast.Attribute) and head.attr == "op"):
                continue  # the public constructor: operands come from the caller, no node is being rewritten
            node_txt = unparse(head.value)
            tail = call.args[len(params):]
            verbatim_tail = len(tail) == 1 and isinstance(tail[0], ast.Starred) and unparse(tail[0].value) == f"{node_txt}.elemwise_args"
            cst0 = f"{f.construct}::Elemwise({node_txt}.op, ...)"
            if verbatim_tail:
                rr.inst(cst0, inputs="verbatim", obligation="none")
                continue

            def verbatim(e, P, depth=0):
                t = unparse(e)
                if t in (f"{node_txt}.{P}", f"{node_txt}.operand('{P}')", f'{node_txt}.operand("{P}")'):
                    return True
                if isinstance(e, ast.Name) and depth < 4 and e.id in defs.defs and e.id not in defs.params:
                    vs = defs.defs[e.id] + defs.mutations(e.id)
                    return bool(vs) and all(v is not None and verbatim(v, P, depth + 1) for v in vs)
                return False

            for P in optional:
                arg = call.args[params.index(P)]
                cst = f"{cst0}::{P}"
                if not verbatim(arg, P):
                    rr.inst(cst, inputs="transformed", operand="transformed", via=unparse(arg)[:40])
                    continue
                if cfg is None:
                    cfg = CFG(f.node)
                stmt = stmt_of(cfg, call)
                conj = chain_conjuncts(cfg, stmt, f.node, f.module) if stmt is not None else set()
                if any(f"{node_txt}.{P}" in c for c in conj):
                    rr.inst(cst, inputs="transformed", operand="verbatim under a condition on it", condition=sorted(c for c in conj if f"{node_txt}.{P}" in c)[:2])
                    continue
                rr.inst(cst, inputs="transformed", operand="verbatim")
                ctx.finding(
                    rr, cst,
                    f"{f.qualname} rebuilds the Elemwise around transformed inputs but passes {node_txt}.{P} through untouched and unconditionally: when {P} is an array "
                    f"its blocks are read next to the inputs' blocks, so the rewritten node pairs transformed input blocks with untransformed {P} blocks - "
                    f"np.multiply(x, 2, where=m, out=o); o[:, ::-1] computed other values than NumPy, o[1] raised. The sibling rewrites (shuffle, rechunk, transpose pushdown, lowering) transform it",
                    func=f, node=call,
                )
    return rr


def _receiver_root(n):
    while isinstance(n, (ast.Attribute, ast.Call, ast.Subscript)):
        n = n.func if isinstance(n, ast.Call) else n.value
    return n.id if isinstance(n, ast.Name) else None


def _closure_nodes(expr, func_node, defs, limit=6):
    """All ast nodes ``expr`` may derive from inside ``func_node``: the expression itself, the definitions of the local
    names it mentions, values appended/added to those names through any call chain rooted at them
    (``g.setdefault(k, set()).add(v)``), transitively (depth ``limit``)."""
    chains = {}
    for c in ast.walk(func_node):
        if isinstance(c, ast.Call) and isinstance(c.func, ast.Attribute):
            r = _receiver_root(c.func.value)
            # only local containers are "filled" by calls rooted at them; self / parameters are not (self.operand("x") says
            # nothing about what self derives from)
            if r is not None and r in defs.defs and r not in defs.params and r not in ("self", "cls"):
                chains.setdefault(r, []).extend(list(c.args) + [k.value for k in c.keywords])
    out, seen, work = [], set(), [(expr, 0)]
    while work:
        e, d = work.pop()
        for n in ast.walk(e):
            out.append(n)
            if isinstance(n, ast.Name) and n.id not in seen and d < limit:
                seen.add(n.id)
                for v in defs.defs.get(n.id, []) + chains.get(n.id, []):
                    if v is not None:
                        work.append((v, d + 1))
    return out


OPERAND_TRANSFORMS = frozenset({"Shuffle", "Transpose", "Rechunk"})


def _operand_loops(f):
    """``for`` loops of ``f`` that transform a loop-bound operand: the body contains ``new_collection(<X>)[...]``,
    ``Shuffle(<X>, ...)`` / ``Transpose(<X>, ...)`` / ``Rechunk(<X>, ...)`` or ``<X>.rechunk(...)`` with X assigned
    inside the loop (target or body).  Returns [(loop, X, transforming node)]."""
    out = []
    for loop in body_walk(f.node):
        if not isinstance(loop, ast.For):
            continue
        bound = {n.id for n in ast.walk(loop.target) if isinstance(n, ast.Name)}
        for st in ast.walk(loop):
            if isinstance(st, ast.Assign):
                for t in st.targets:
                    bound |= {n.id for n in ast.walk(t) if isinstance(n, ast.Name)}
        for n in ast.walk(loop):
            a = None
            if isinstance(n, ast.Subscript) and isinstance(n.value, ast.Call) and (dotted(n.value.func) or "").endswith("new_collection") and n.value.args:
                a = n.value.args[0]
            elif isinstance(n, ast.Call) and (dotted(n.func) or "").rsplit(".", 1)[-1] in OPERAND_TRANSFORMS and n.args:
                a = n.args[0]  # Shuffle(X, indexer, axis, ...) / Transpose(X, axes) / Rechunk(X, ...)
            elif isinstance(n, ast.Call) and isinstance(n.func, ast.Attribute) and n.func.attr == "rechunk":
                a = n.func.value
            if a is not None:
                if isinstance(a, ast.Name) and a.id in bound:
                    # innermost enclosing loop only
                    inner = [l2 for l2 in ast.walk(loop) if isinstance(l2, ast.For) and l2 is not loop and any(x is n for x in ast.walk(l2))]
                    if not inner:
                        out.append((loop, a.id, n))
    return out


def _blockwise_family_slice_hooks(repo):
    base = repo.mod("dask_array._blockwise").cls("Blockwise")
    seen = set()
    for c in [base] + list(repo.subclasses(base, strict=True)):
        for name, f in c.methods.items():
            if name.startswith(("_accept_slice", "_accept_shuffle", "_accept_rechunk")) and f.fq not in seen:
                seen.add(f.fq)
                yield c, f


def r02_9(ctx):
    rr = RuleResult(
        "R02.9", "GUARD",
        "one-sided handling / sibling agreement in the Blockwise family's slice and shuffle pushdowns: a loop that derives each operand's "
        "selection / shuffle from the output's consults the operand's own extent on that axis (a size-1 axis broadcast against a longer output "
        "axis must not take the output's slice or indexer)",
        min_instances=4,
    )
    from ..dataflow import Defs

    def extent_tests(region, owner, x, defs, f, depth=2):
        """Comparisons ``<something derived from x.shape/numblocks/chunks> ==/!= 1`` inside ``region`` (a loop of
        ``owner``), or inside a same-module helper / method of the same class that the region hands ``x`` to."""
        out = []
        for n in ast.walk(region):
            if isinstance(n, ast.Compare) and len(n.ops) == 1 and isinstance(n.ops[0], (ast.Eq, ast.NotEq)):
                sides = [n.left, n.comparators[0]]
                if not any(isinstance(sd, ast.Constant) and sd.value == 1 and not isinstance(sd.value, bool) for sd in sides):
                    continue
                other = sides[1] if isinstance(sides[0], ast.Constant) else sides[0]
                for m in _closure_nodes(other, owner, defs, limit=2):
                    if isinstance(m, ast.Attribute) and m.attr in ("shape", "numblocks", "chunks") and isinstance(m.value, ast.Name) and m.value.id == x:
                        out.append(unparse(n))
                        break
            elif isinstance(n, ast.Call) and depth > 0 and isinstance(n.func, (ast.Name, ast.Attribute)):
                g = None
                if isinstance(n.func, ast.Name):
                    r = ctx.repo.resolve_name(n.func.id, f.module, f)
                    g = r[1] if r and r[0] == "func" else None
                elif isinstance(n.func.value, ast.Name) and n.func.value.id == "self" and f.cls is not None:
                    hit = ctx.repo.class_attr(f.cls, n.func.attr)
                    g = hit[1] if hit and isinstance(hit[1], FuncInfo) else None
                if g is None or g.module is not f.module:
                    continue
                formals = [p for p in g.params if p != "self"]
                for i, a in enumerate(n.args):
                    if isinstance(a, ast.Name) and a.id == x and i < len(formals):
                        out += [f"{g.name}: {t}" for t in extent_tests(g.node, g.node, formals[i], Defs(g.node), g, depth - 1)]
                for k in n.keywords:
                    if isinstance(k.value, ast.Name) and k.value.id == x and k.arg in formals:
                        out += [f"{g.name}: {t}" for t in extent_tests(g.node, g.node, k.arg, Defs(g.node), g, depth - 1)]
        return out

    for c, f in _blockwise_family_slice_hooks(ctx.repo):
        defs = Defs(f.node)
        for loop, x, sub in _operand_loops(f):
            cst = f"{f.construct}::operand loop over {x}"
            consults = extent_tests(loop, f.node, x, defs, f)
            rr.inst(cst, slices=unparse(sub)[:50], broadcast_tests=sorted(set(consults))[:3])
            if not consults:
                ctx.finding(
                    rr, cst,
                    f"{f.qualname} hands every operand the output's selection mapped through the index pattern without looking at the operand's own extent: an operand whose axis has "
                    f"length 1 and broadcasts against a longer output axis is sliced to nothing (blockwise(np.add, 'ij', x, 'ij', y[(1, n)], 'ij')[2] raised 'Missing dependency'; with adjust_chunks IndexError). "
                    f"The sibling Elemwise._accept_slice tests arg_shape[i] == 1",
                    func=f, node=loop,
                )
    return rr


def r02_10(ctx):
    rr = RuleResult(
        "R02.10", "GUARD",
        "a Blockwise-family rewrite that converts OUTPUT block indices into element offsets on an operand's own grid (subscripts a value derived from "
        "<operand>.chunks) pairs blocks by position, which is valid only when the operands share one grid along that index; before lowering has unified "
        "them they need not - the function must have a declining exit whose condition derives from the operands' chunks",
        min_instances=1,
    )
    from ..dataflow import Defs

    for c, f in _blockwise_family_slice_hooks(ctx.repo):
        defs = Defs(f.node)
        for loop, x, sub in _operand_loops(f):
            # does the loop index something derived from <x>.chunks ?
            uses = []
            for n in ast.walk(loop):
                if isinstance(n, ast.Subscript) and isinstance(n.ctx, ast.Load) and n is not sub:
                    base = n.value
                    if isinstance(base, ast.Name):
                        derived = any(isinstance(m, ast.Attribute) and m.attr == "chunks" and isinstance(m.value, ast.Name) and m.value.id == x for v in defs.defs.get(base.id, []) if v is not None for m in ast.walk(v))
                        if derived:
                            uses.append(unparse(n))
            if not uses:
                continue
            cst = f"{f.construct}::block offsets on {x}.chunks"
            guards = []
            for st in body_walk(f.node):
                if isinstance(st, ast.If) and any(isinstance(b, ast.Return) and (b.value is None or (isinstance(b.value, ast.Constant) and b.value.value is None)) for b in st.body):
                    for m in _closure_nodes(st.test, f.node, defs):
                        if isinstance(m, ast.Attribute) and m.attr == "chunks" and not (isinstance(m.value, ast.Name) and m.value.id == "self"):
                            guards.append(unparse(st.test)[:70])
                            break
            rr.inst(cst, offsets=sorted(set(uses))[:3], declines_on_operand_grids=guards[:2])
            if not guards:
                ctx.finding(
                    rr, cst,
                    f"{f.qualname} indexes {sorted(set(uses))[0]} - the operand's own chunk boundaries - with block indices computed on the OUTPUT grid and never declines on the operands' grids: "
                    f"the hook runs before lowering has unified the operands, so with x chunked (1, ...) and y chunked (3, ...) output block i is not input block i of both - "
                    f"blockwise(f, 'ij', x, 'ij', y, 'ij', adjust_chunks=...)[2:5] computed other values than the unsliced result (silently), other grids raised",
                    func=f, node=loop,
                )
    return rr


def _closure_with_control(expr, func_node, defs, cfg, limit=6):
    """``_closure_nodes`` plus control dependence: a flag assigned under ``if t:`` also derives from ``t``."""
    assigns = {}
    for st in cfg.stmts():
        if isinstance(st, (ast.Assign, ast.AugAssign, ast.AnnAssign)):
            targets = st.targets if isinstance(st, ast.Assign) else [st.target]
            for t in targets:
                for n in ast.walk(t):
                    if isinstance(n, ast.Name):
                        assigns.setdefault(n.id, []).append(st)
    out, seen, work = [], set(), [expr]
    while work:
        e = work.pop()
        for n in _closure_nodes(e, func_node, defs, limit):
            out.append(n)
            if isinstance(n, ast.Name) and n.id not in seen:
                seen.add(n.id)
                for st in assigns.get(n.id, []):
                    work.extend(t for t, _pol in cfg.guards(st))
    return out


LAYOUT_LITERAL_REVIEWED = {
    ("Rechunk._pushdown", "_chunks"): "Rechunk._chunks is the TARGET layout of the node's output, valid for any input of the same shape; collapsing Rechunk(Rechunk(x)) keeps the shape",
}


def _hook_methods(c):
    for name, f in c.methods.items():
        if name.startswith(("_accept_", "_simplify_", "_pushdown", "_lower")):
            yield f


def r02_11(ctx):
    rr = RuleResult(
        "R02.11", "GUARD",
        "a rewrite hook that rebuilds its own node class does not carry a layout-literal operand (a _parameters entry naming shape/chunks: "
        "BroadcastTo._shape/_chunks, Blockwise.adjust_chunks, Rechunk._chunks, ...) over verbatim unless the site runs under a condition on "
        "that literal or on the pushed operation's shape/chunks: a pushed slice or take changes the extent the literal describes",
        min_instances=6,
    )
    from ..cfg import CFG, stmt_of
    from ..dataflow import Defs
    from ..namedeps import params_of
    from .common import chain_conjuncts

    repo = ctx.repo
    for c in repo.expr_classes():
        if not c.module.is_unit:
            continue
        try:
            params = list(params_of(repo, c))
        except Exception:  # noqa: BLE001 - classes without a literal _parameters list carry no obligation here
            continue
        literals = [p for p in params if "shape" in p or "chunks" in p]
        if not literals:
            continue
        for f in _hook_methods(c):
            cfg = None
            defs = Defs(f.node)
            for n in body_walk(f.node):
                if not isinstance(n, ast.Call) or not isinstance(n.func, (ast.Name, ast.Attribute)):
                    continue
                r = repo.resolve_expr(n.func, f.module, f)
                same = (r is not None and r[0] == "class" and r[1].fq == c.fq) or unparse(n.func) in ("type(self)", "self.__class__")
                if not same or any(isinstance(a, ast.Starred) for a in n.args[: len(params)]):
                    continue
                for L in literals:
                    i = params.index(L)
                    arg = n.args[i] if i < len(n.args) else next((k.value for k in n.keywords if k.arg == L), None)
                    if arg is None:
                        continue
                    cst = f"{c.construct}.{f.name}::{c.name}(... {L} ...)"

                    def verbatim(e, depth=0):
                        t = unparse(e)
                        if t in (f"self.{L}", f"self.operand('{L}')", f'self.operand("{L}")'):
                            return True
                        if isinstance(e, ast.Name) and depth < 4 and e.id in defs.defs and e.id not in defs.params and not defs.built_up(e.id):
                            vs = defs.defs[e.id]
                            return bool(vs) and all(v is not None and verbatim(v, depth + 1) for v in vs)
                        return False

                    if not verbatim(arg):
                        rr.inst(cst, literal="recomputed", via=unparse(arg)[:40])
                        continue
                    if cfg is None:
                        cfg = CFG(f.node)
                    stmt = stmt_of(cfg, n)
                    tests = [t for t, _pol in cfg.guards(stmt)] if stmt is not None else []
                    pushed = [p for p in f.params if p != "self" and p != "dependents"]
                    cond = []
                    for t in tests:
                        nodes = _closure_with_control(t, f.node, defs, cfg)
                        about_pushed_extent = any(
                            isinstance(m, ast.Attribute) and isinstance(m.value, ast.Name) and m.value.id in pushed and m.attr in ("shape", "chunks", "index", "indexer", "axis")
                            for m in nodes
                        )
                        extent_only = any(
                            isinstance(m, ast.Attribute) and isinstance(m.value, ast.Name) and m.value.id in pushed and m.attr in ("shape", "chunks")
                            for m in nodes
                        )
                        about_literal = any(
                            (isinstance(m, ast.Attribute) and m.attr == L and isinstance(m.value, ast.Name) and m.value.id == "self")
                            or (isinstance(m, ast.Constant) and m.value == L)
                            for m in nodes
                        )
                        # an extent literal (shape/chunks tuples) is changed by ANY pushed slice/take on its axis: only a test of the pushed
                        # operation's own shape/chunks protects it; a per-index table (adjust_chunks) is protected by a test relating the
                        # pushed operation's axis/index to the table
                        if (L == "adjust_chunks" and about_pushed_extent and about_literal) or (L != "adjust_chunks" and extent_only):
                            cond.append(unparse(t)[:70])
                    if cond:
                        rr.inst(cst, literal="verbatim under a condition relating the pushed operation to the layout", condition=cond[:2])
                        continue
                    key = (f"{c.name}.{f.name}", L)
                    rr.inst(cst, literal="verbatim, unconditional")
                    if key in LAYOUT_LITERAL_REVIEWED:
                        rr.exempt(cst, LAYOUT_LITERAL_REVIEWED[key])
                        continue
                    ctx.finding(
                        rr, cst,
                        f"{c.name}.{f.name} rebuilds the node around a transformed input but hands over self.{L} unchanged and unconditionally: the literal describes the extent/blocks BEFORE the pushed "
                        f"operation. da.take(da.broadcast_to(x, (2, 6, 8)), [-1, 0, -2], axis=-1) kept shape (2, 6, 8) for a 3-long axis and raised 'Chunks do not add up to shape'",
                        func=f, node=n,
                    )
    return rr


_INDEX_SPACE_EXAMPLE = """
def hook(self, slice_expr):
    out_ind = self.out_ind
    full_index = slice_expr.index
    args = self.args
    for i in range(0, len(args), 2):
        arg, arg_ind = args[i], args[i + 1]
        offsets = [list(c) for c in arg.chunks]
        for dim_idx, label in enumerate(arg_ind):
            out_pos = out_ind.index(label)
            good = offsets[dim_idx], full_index[out_pos]
            bad = offsets[out_pos]
"""


def r02_12(ctx):
    rr = RuleResult(
        "R02.12", "COVER",
        "index-space typing of the functions that relate output axes to operand axes through index labels (every unit function that mentions out_ind): a sequence laid out "
        "over the OUTPUT's axes (self.shape/chunks, out_ind, the pushed slice's index, lists built over them) is subscripted only by output positions "
        "(enumerate/range over such a sequence, out_ind.index(label)), a sequence laid out over one OPERAND's axes (arg.shape/chunks, its index tuple, lists "
        "built over them) only by that operand's positions",
        min_instances=6,
    )
    from ..indexspace import IndexSpaces

    probe = ast.parse(_INDEX_SPACE_EXAMPLE).body[0]
    mm, typed = IndexSpaces(probe).mismatches()
    rr.inst("positive-example", typed=typed, mismatches=[unparse(n) for n, _d, _k in mm])
    if [unparse(n) for n, _d, _k in mm] != ["offsets[out_pos]"] or typed < 3:
        from ..model import AnalysisError

        raise AnalysisError("R02.12 index-space analysis no longer types its own positive example (expected exactly offsets[out_pos])")
    total = 0
    scope = []
    for f in ctx.repo.all_functions():
        if "/tests/" in f.module.relpath or f.parent is not None:
            continue  # nested functions are analysed as part of their parent (they share its names)
        if not any((isinstance(n, ast.Name) and n.id == "out_ind") or (isinstance(n, ast.Attribute) and n.attr == "out_ind") for n in ast.walk(f.node)):
            continue
        scope.append(f)
    # spaces of parameters, from the call sites self.<method>(...) inside the scope (all sites must agree)
    param_domains = {}
    for f in scope:
        if f.cls is None:
            continue
        for call, doms in IndexSpaces(f.node).call_argument_domains():
            hit = ctx.repo.class_attr(f.cls, call.func.attr)
            g = hit[1] if hit and isinstance(hit[1], FuncInfo) else None
            if g is None:
                continue
            formals = [p for p in g.params if p != "self"]
            for p_, d in zip(formals, doms):
                cur = param_domains.setdefault(g.fq, {})
                cur[p_] = d if cur.get(p_, d) == d else None
    for f in scope:
        pd = {k: v for k, v in param_domains.get(f.fq, {}).items() if v}
        mm, typed = IndexSpaces(f.node, pd).mismatches()
        if not typed:
            continue
        total += typed
        rr.inst(site(f), typed_subscripts=typed)
        for n, d, k in mm:
            ctx.finding(
                rr, f"{f.construct}::{unparse(n)}",
                f"{unparse(n)}: the sequence is laid out over {d.replace('ARG:', 'the axes of operand ')} but the subscript is a position in {k.replace('ARG:', 'the axes of operand ')} "
                f"(OUT = this node's output axes). The two orders coincide for elementwise patterns, so the result is only wrong when an operand's index order differs from the output's "
                f"(blockwise(f, 'ji', x, 'ij', ...)) - the rewritten node then reads another region of the operand",
                func=f, node=n,
            )
    rr.notes.append(f"{total} subscripts with both sides typed")
    need(total >= 15, "typed subscripts in the out_ind functions")
    return rr


# (door module, door function, node class, what the door short-circuits, reviewed outside builders {construct: reason})
PRECONDITION_DOORS = [
    ("dask_array.manipulation._reshape", "reshape", "Reshape",
     "an identity reshape (returns x), a single-partition input (ReshapeLowered) and - through them - 0-d inputs: Reshape.chunks runs reshape_rechunk, which indexes the input shape", {}),
]


def r02_13(ctx):
    rr = RuleResult(
        "R02.13", "WHO",
        "a node class whose public door short-circuits degenerate inputs is rebuilt by rewrites through that door (Reshape: reshape() returns x for an identity reshape and a "
        "ReshapeLowered for a single-partition input, and the node's own chunks property relies on that): a direct construction inside a rewrite hands the node inputs the door "
        "would never give it",
        min_instances=1,
    )
    repo = ctx.repo
    for dmod, dname, cls_name, what, reviewed in PRECONDITION_DOORS:
        door = repo.mod(dmod).func(dname)
        cls = repo.find_class(cls_name)
        rets = [r for r in body_walk(door.node) if isinstance(r, ast.Return) and r.value is not None]

        def builds(node):
            for n in ast.walk(node):
                if isinstance(n, ast.Call) and isinstance(n.func, (ast.Name, ast.Attribute)):
                    r = repo.resolve_expr(n.func, door.module, door)
                    if r and r[0] == "class" and r[1].fq == cls.fq:
                        return True
            return False

        shortcuts = [r for r in rets if not builds(r.value)]
        rr.inst(door.construct + "::shortcuts", count=len(shortcuts), builds_node=any(builds(r.value) for r in rets))
        need(any(builds(r.value) for r in rets), f"{dname} builds {cls_name}")
        if not shortcuts:
            ctx.finding(rr, door.construct + "::shortcuts", f"{dname} no longer short-circuits {what}", func=door)
        for f in repo.all_functions():
            if "/tests/" in f.module.relpath or f is door:
                continue
            for n in body_walk(f.node):
                if isinstance(n, ast.Call) and isinstance(n.func, (ast.Name, ast.Attribute)):
                    r = repo.resolve_expr(n.func, f.module, f)
                    if not (r and r[0] == "class" and r[1].fq == cls.fq):
                        continue
                    cst = f"{f.construct}::{cls_name}(...)"
                    rr.inst(cst, reviewed=f.construct in reviewed)
                    if f.construct in reviewed:
                        rr.exempt(cst, reviewed[f.construct])
                        continue
                    ctx.finding(
                        rr, cst,
                        f"{f.qualname} builds a {cls_name} node directly instead of going through {dname}(): the door short-circuits {what}. "
                        f"da.corrcoef(x)[3] (a (n,) -> (n, 1) reshape sliced by an integer) built Reshape over a 0-d input and raised IndexError while being optimized",
                        func=f, node=n,
                    )
    return rr


RULES = [r02_1, r02_2, r02_3, r02_4, r02_5, r02_6, r02_7, r02_8, r02_9, r02_10, r02_11, r02_12, r02_13]

LEVEL_TEXT = (
    "Static decision of sentence 3 of C02 (fusion preserves the output-block -> input-block mapping) as sibling agreement "
    "between _task and _input_block_id over all fusable classes, exhaustiveness of the symbolic conflict detector over the "
    "class hierarchy, and the derivation of inner block ids; plus a REF inventory (167 structural fingerprints) of every "
    "condition under which a rewrite hook, the fusability test or the conflict detector declines, so that a weakened "
    "decline is reported at its hook; plus structural necessary conditions of sentence 2 for the pushdown rewrites: sibling agreement on where/out at the "
    "Elemwise rebuild sites, per-operand extent and grid checks in multi-operand pushdowns, recomputed layout literals, index-space typing "
    "of the output/operand axis maps (sa/indexspace.py) and Reshape rebuilt through its door. Value preservation by each fired rewrite "
    "in general (sentences 1-2) is not decided."
)
LEVEL_NOTE = "Trusted: CPython ast, class/MRO resolver, reviewed reference table. The helpers' arithmetic is assumed; a restructured guard needs the reference regenerated deliberately."
TECHNIQUE = "static analysis: sibling-agreement/exhaustiveness over the class hierarchy + reference-guard fingerprints of rewrite declines + def-use/guard-chain rules on rebuild sites + index-space (units) typing (ast)"

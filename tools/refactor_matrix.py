#!/venv/bin/python
"""Negative controls: behaviour-preserving refactorings must leave every check silent.

  /venv/bin/python tools/refactor_matrix.py [id-substring ...]

For each /verif/refactors/<id>/patch.diff (a refactoring written by a sub-agent that was told
nothing about the checks and confirmed behaviour-preserving by the test suite): copy /repo's
package to a temp dir, apply the patch, evaluate the rules of every claimed property and report
any NEW finding (= false alarm of the machinery).  Writes /verif/refactors/RESULT.md.
"""
import importlib
import json
import os
import shutil
import subprocess
import sys
import tempfile
from concurrent.futures import ProcessPoolExecutor

HERE = os.path.dirname(os.path.dirname(os.path.abspath(__file__)))
sys.path.insert(0, HERE)

from sa.cli import available  # noqa: E402
from sa.model import REPO, AnalysisError, Repo  # noqa: E402
from sa.report import evaluate, load_known  # noqa: E402

BASE = os.path.join(HERE, "refactors")


def run_one(rid):
    d = tempfile.mkdtemp(prefix="sa-refactor-")
    try:
        shutil.copytree(os.path.join(REPO, "dask_array"), os.path.join(d, "dask_array"), ignore=shutil.ignore_patterns("__pycache__", "*.pyc", "*.so"))
        if os.path.isfile(os.path.join(REPO, "pyproject.toml")):
            shutil.copy(os.path.join(REPO, "pyproject.toml"), d)
        from sa.selftest import copy_native_sources

        copy_native_sources(REPO, d)
        p = subprocess.run(["patch", "-p1", "-s", "-i", os.path.join(BASE, rid, "patch.diff")], cwd=d, capture_output=True, text=True)
        if p.returncode != 0:
            return rid, {"error": "patch does not apply: " + (p.stdout + p.stderr)[-200:]}
        known, _ = load_known()
        out = {}
        repo = Repo(d)
        for prop in available():
            mod = importlib.import_module(f"sa.rules.{prop.lower()}")
            try:
                results = evaluate(prop, mod.RULES, repo, "quick")
            except AnalysisError as e:
                out[prop] = [f"ANALYSIS-ERROR {e}"[:220]]
                continue
            fs = [f"{f.rule} {f.construct}"[:200] for r in results for f in r.findings if f.key not in known]
            if fs:
                out[prop] = fs[:4]
        return rid, out
    finally:
        shutil.rmtree(d, ignore_errors=True)


def main():
    sel = sys.argv[1:]
    ids = sorted(x for x in os.listdir(BASE) if os.path.isfile(os.path.join(BASE, x, "patch.diff")))
    if sel:
        ids = [i for i in ids if any(s in i for s in sel)]
    with ProcessPoolExecutor(max_workers=14) as ex:
        res = dict(ex.map(run_one, ids))
    alarms = 0
    lines = ["# Behaviour-preserving refactorings vs. checks (negative controls)", "", "| refactoring | what | result |", "|---|---|---|"]
    for rid in ids:
        r = res[rid]
        desc = ""
        t = os.path.join(BASE, rid, "desc.txt")
        if os.path.isfile(t):
            desc = open(t).read().strip().replace("\n", " ").replace("|", "/")[:140]
        if "error" in r:
            print(f"{rid:28s} ERROR {r['error'][:100]}")
            lines.append(f"| {rid} | {desc} | patch no longer applies |")
            continue
        if r:
            alarms += 1
            print(f"{rid:28s} FALSE-ALARM by={sorted(r)}")
            for k, v in sorted(r.items()):
                print(f"      {k}: {v[0]}")
            lines.append(f"| {rid} | {desc} | **reported** by {', '.join(sorted(r))}: {list(r.values())[0][0][:90]} |")
        else:
            print(f"{rid:28s} silent")
            lines.append(f"| {rid} | {desc} | silent |")
    stale = sum(1 for rid in ids if "error" in res[rid])
    print(f"{alarms}/{len(ids)} refactorings raised an alarm" + (f"; {stale} patch(es) NO LONGER APPLY to /repo (rebase them)" if stale else ""))
    if not sel:
        lines += ["", f"{alarms}/{len(ids)} raised an alarm." + (f" {stale} no longer apply." if stale else "")]
        open(os.path.join(BASE, "RESULT.md"), "w").write("\n".join(lines) + "\n")


if __name__ == "__main__":
    main()

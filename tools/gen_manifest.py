#!/venv/bin/python
"""Regenerate /verif/MANIFEST.json from the rule modules that exist.

Run from /verif:  /venv/bin/python tools/gen_manifest.py
"""
import importlib
import json
import os
import sys

HERE = os.path.dirname(os.path.dirname(os.path.abspath(__file__)))
sys.path.insert(0, HERE)

NOT_APPLICABLE = {
    "C01": "equality with NumPy over all programs/inputs is a statement about array contents produced by kernels; no clause of it is visible in the shape of the code, and static analysis without execution cannot bound array values",
    "C08": "termination/idempotence of a rewrite system over unbounded expression trees needs a well-founded measure; no ranking function is derivable from the hooks by dataflow/typestate analysis, and the only structural clause (hooks decline with None) would not detect one oscillating rewrite",
    "C13": "exactness of fuse_slice/_compose_slices/_slice_1d is integer arithmetic with sign and emptiness corner cases - a solver or enumeration problem (different technique family), not a code-shape property",
    "C14": "'has the normalized chunks and the same values' is arithmetic over chunk tuples plus array values; its one structural ingredient (the unknown-size refusal in _validate_rechunk always runs) is checked under C28",
    "C15": "plan validity and the block-size budget are inequalities over products of chunk sizes (runtime integers); no sound static bound is in reach",
    "C18": "independence from chunking and tree shape is associativity/commutativity of numerical combine functions over values - not visible in code shape",
}
ALL = [f"C{i:02d}" for i in range(1, 30)]


def main():
    checks = []
    na = []
    for pid in ALL:
        if pid in NOT_APPLICABLE:
            na.append({"property_id": pid, "reason": "static analysis not applicable: " + NOT_APPLICABLE[pid]})
            continue
        try:
            mod = importlib.import_module(f"sa.rules.{pid.lower()}")
        except ModuleNotFoundError:
            na.append({"property_id": pid, "reason": "not claimed at this commit: the static check designed in DESIGN.md section 4 is not built yet"})
            continue
        checks.append(
            {
                "property_id": pid,
                "quick_cmd": f"./vcheck {pid} --tier quick",
                "thorough_cmd": f"./vcheck {pid} --tier thorough",
                "evidence_file": f"/verif/evidence/{pid}.json",
                "replay_cmd_template": f"./vcheck {pid} --replay {{path}}",
                "engine": "sa",
                "level_claimed": {
                    "category": "other",
                    "text": mod.LEVEL_TEXT,
                    "design_ref": {"C16": "DESIGN.md section 9.7", "C24": "DESIGN.md section 9.9", "C22": "DESIGN.md section 9.11", "C19": "DESIGN.md section 9.12"}.get(pid, f"DESIGN.md section 4, {pid}"),
                },
                "level_note": mod.LEVEL_NOTE,
                "technique": mod.TECHNIQUE,
            }
        )
    manifest = {
        "version": 1,
        "setup_cmd": "/venv/bin/python -m compileall -q sa tools >/dev/null 2>&1; /venv/bin/python -B -c 'import sys; sys.path.insert(0, \".\"); import sa.cli'",
        "hooks": {
            "guard": "DASK_ARRAY_VERIF",
            "enable": "none needed: every check is a static analysis of /repo's working tree (no instrumentation, no hook commits)",
            "baseline_off_cmd": "cd /repo && /venv/bin/python -m pytest -ra -q -p no:cacheprovider --timeout=900 --continue-on-collection-errors",
            "source_commits": [],
            "add_only": True,
        },
        "engines": [
            {
                "name": "sa",
                "path": "/verif/sa",
                "serves_properties": [c["property_id"] for c in checks],
                "kind_free_text": "repository-specific static analyser (pure stdlib ast): module/class/MRO model, resolved call graph with conservative by-name fallback, per-function CFG with must-pass-through and guard chains, def-use slices; rules = WHO / PASS / GUARD / COVER / PURE / NOREACH / IMPORT / REF over code sites",
            }
        ],
        "checks": checks,
        "not_applicable": na,
        "notes": "All checks decide structural clauses only (stated per check). Exit 0/1 as per interface; exit 2 = ANALYSIS-ERROR (vanished anchor or checker crash), never reported as a pass. known_findings.json lists genuine defects found and their fix commits. Thorough tier additionally runs the checker self-test (seeded variants) for the property and records it in evidence.",
    }
    with open(os.path.join(HERE, "MANIFEST.json"), "w") as f:
        json.dump(manifest, f, indent=1)
        f.write("\n")
    print(f"claimed={len(checks)} not_applicable={len(na)}")


if __name__ == "__main__":
    main()

import numpy as np, dask_array as da
import dask
rs = da.random.RandomState(42)
loc = da.from_array(np.arange(8.0), chunks=4)
x = rs.normal(loc[::1]+0, 1.0, size=(8,), chunks=4)   # array-valued param whose expr gets rewritten
print(type(x.expr).__name__, x.name)
a = x.compute()
b = x.compute()
print('same twice', np.array_equal(a,b))
y = (x + 1)
c = y.compute() - 1
print('derived same', np.allclose(a,c))
with dask.config.set({'array.optimize-graph': False}):
    x2 = da.Array(x.expr)
    d = x2.compute()
print('opt vs noopt same', np.allclose(a,d))
print(x.expr.simplify()._name, x.expr._name)
# generator
g = da.random.default_rng(7)
z = g.normal(loc[1:]+0, 1.0, size=(7,), chunks=4)
a=z.compute(); 
with dask.config.set({'array.optimize-graph': False}):
    d = da.Array(z.expr).compute()
print('gen opt vs noopt', np.allclose(a,d), z.expr.simplify()._name==z.expr._name)
import pickle
z2 = pickle.loads(pickle.dumps(z))
print('pickle same name', z2.name==z.name, np.allclose(z2.compute(), a))

"""C06 - names cover content; pinned names stay out of registries; operands are immutable."""

from __future__ import annotations

import ast
import os

from ..dataflow import Defs, roots
from ..model import FuncInfo, Module, body_walk, const_value, dotted, full_walk, idents_in, norm, unparse
from ..namedeps import ALL, VARARGS, name_deps, params_of
from ..report import VERIF, RuleResult
from .common import callgraph, cfg_index, cfg_of, enclosing_function, nearest_def, need, site

PROP = "C06"

EXPLANATION = (
    "Decides the structural conditions under which 'equal names denote equal arrays' holds for every program: R06.1 for "
    "each of the 111 expression classes, every declared operand (_parameters, and the variadic operands) is a dependency "
    "of the class's _name (followed through deterministic_token -> the resolved __dask_tokenize__, properties, super()), "
    "except a frozen, reasoned exemption table; R06.2 every hand-built exact name / explicit token depends on every "
    "method parameter that the constructed node's operands depend on; R06.3 classes whose _name is an operand verbatim "
    "follow one of the two documented pinned-name idioms (opt out of the singleton registry and never touch the lowering "
    "cache, or are built only over fully lowered inputs); R06.4 no code assigns an operand of an existing expression "
    "(Expr.__setattr__ writes into .operands); R06.5 the process-wide lowering cache is touched only by _lower and every "
    "lower_once override stores under self._name; R06.6 (= R11.7) no live collection is captured in an operand. Hash "
    "collisions and the behaviour of dask.tokenize on user objects are not decided."
)
ASSUMPTIONS = [
    "dask.tokenize is injective enough on the operand values it is given (hash collisions out of scope)",
    "SingletonExpr.__new__ dedups by _name only when cls.__init__ is object.__init__ (read from installed dask source)",
]
TRUSTED = ["CPython ast", "sa.namedeps (name-dependency closure)", "sa.dataflow", "sa.callgraph construction sites"]

# (class that declares the parameter, parameter) -> reason
R061_EXEMPT = {
    ("Blockwise", "_meta_provided"): "chunk *type* hint only; dtype is tokenized separately and values do not depend on it",
    ("Reduction", "meta"): "chunk type hint; dtype/functions/axis/keepdims are tokenized",
    ("PartialReduce", "reduced_meta"): "chunk type hint for the reduced block; func/split_every/keepdims/dtype are tokenized",
    ("GUfuncLeafExpr", "loop_output_chunks"): "name = <prefix>_<i>-<token of the parent blockwise>; the prefix carries the apply_gufunc call token that covers signature, shapes and chunks (single construction site)",
    ("GUfuncLeafExpr", "core_shapes"): "same as loop_output_chunks",
    ("GUfuncLeafExpr", "ocd"): "same as loop_output_chunks",
    ("GUfuncLeafExpr", "nout"): "same as loop_output_chunks",
    ("GUfuncLeafExpr", "input_meta"): "same as loop_output_chunks",
    ("GUfuncLeafExpr", "loop_output_shape"): "same as loop_output_chunks",
}
R062_EXEMPT = {
    "dask_array/core/_conversion.py::from_array": "user-supplied exact name (documented API contract: the caller guarantees uniqueness); the explicit token carries a uuid1 so distinct instances never share a token",
}
CONDITIONAL_PINS = {
    ("BroadcastTrick", "name"): "user-supplied name= of ones/zeros/full (caller guarantees uniqueness, as in dask.array)",
    ("FromArray", "_name_override"): "exact names: user-supplied from_array(name=...) or hand-built by _with_chunks/_accept_slice (R06.2); singleton/caches bypassed (R06.3)",
    ("FromDelayed", "_name_prefix"): "user-supplied from_delayed(name=...)",
    ("FromMap", "_name_prefix"): "user-supplied from_map(name=...) / carried over from FromDelayed",
}
PINNED = {"RootAlias", "FromGraph", "MapBlocksOutput"}  # _name is an operand verbatim (R06.3)


def _declaring_class(repo, c, param):
    for k in repo.mro(c):
        if isinstance(k, str):
            continue
        v = k.attrs.get("_parameters")
        if v is not None and param in (const_value(v) or []):
            last = k
            # keep walking: the most basic class that declares it
            continue_ = True
    # simpler: first class in MRO (most derived) whose own _parameters lists it
    for k in repo.mro(c):
        if isinstance(k, str):
            continue
        v = k.attrs.get("_parameters")
        if v is not None and param in (const_value(v) or []):
            return k
    return c


def _pinned_name(repo, c):
    hit = repo.class_attr(c, "_name")
    if not hit or not isinstance(hit[1], FuncInfo) or not hit[0].module.is_unit:
        return False
    rets = [n for n in body_walk(hit[1].node) if isinstance(n, ast.Return)]
    return bool(rets) and all(unparse(r.value) in ("self.operand('name')", "self.name") for r in rets)


def r06_1(ctx):
    rr = RuleResult("R06.1", "COVER", "every operand of every expression class is a dependency of its _name (or a reasoned exemption)", min_instances=100)
    repo = ctx.repo
    for c in repo.expr_classes():
        P = params_of(repo, c)
        nd = name_deps(repo, c)
        pinned = _pinned_name(repo, c)
        missing = [] if ALL in nd else [p for p in P if p not in nd]
        # variadic operands
        resolved = {}
        for k in repo.mro(c):
            if isinstance(k, str) or not k.module.is_unit:
                continue
            for mn, mf in k.methods.items():
                resolved.setdefault(mn, mf)
        variadic = any(
            isinstance(n, ast.Subscript) and unparse(n.value) == "self.operands" and isinstance(n.slice, ast.Slice) and n.slice.lower is not None
            for mf in resolved.values() for n in ast.walk(mf.node)
        )
        if variadic and ALL not in nd and VARARGS not in nd:
            missing.append("<variadic operands>")
        rr.inst(c.construct, parameters=len(P), name_depends_on=sorted(x for x in nd if not x.startswith("<"))[:30] if ALL not in nd else ["<all operands>"], pinned=pinned)
        if pinned:
            if c.name not in PINNED:
                ctx.finding(rr, c.construct, f"{c.name}._name returns an operand verbatim but the class is not in the confirmed pinned-name set {sorted(PINNED)} (see R06.3)", file=c.module.path, line=c.node.lineno)
            else:
                rr.exempt(c.construct, "pinned-name class: content is not derivable from the name by design; governed by R06.3")
            continue
        for p in missing:
            decl = _declaring_class(repo, c, p)
            key = (decl.name, p)
            cst = f"{c.construct}::{p}"
            if key in R061_EXEMPT:
                rr.exempt(cst, R061_EXEMPT[key])
                continue
            hit = repo.class_attr(c, "__dask_tokenize__")
            tok = hit[1] if hit and isinstance(hit[1], FuncInfo) and hit[0].module.is_unit else None
            ctx.finding(
                rr, cst,
                f"{c.name}.{p} is not covered by the node's name: two nodes differing only in {p!r} get the same name and are deduplicated / share cache entries"
                + (f" (tokenizer: {tok.construct})" if tok else " (name body does not read it)"),
                file=(tok.module.path if tok else c.module.path), line=(tok.lineno if tok else c.node.lineno),
            )
    return rr


def _builder_sites_ok(ctx, rr, f, name_param, lacking):
    """``f`` builds an exact-name node from a name its caller supplies.  True when call sites exist and each passes a
    name that depends on every caller parameter the arguments for ``lacking`` depend on (findings are filed here)."""
    fparams = [a.arg for a in f.node.args.posonlyargs + f.node.args.args]
    if fparams and fparams[0] in ("self", "cls"):
        fparams = fparams[1:]
    scope = list(f.cls.methods.values()) if f.cls is not None else list(f.module.functions.values())
    sites = []
    for g in scope:
        if g is f:
            continue
        for n in body_walk(g.node):
            if isinstance(n, ast.Call) and ((isinstance(n.func, ast.Attribute) and n.func.attr == f.name and isinstance(n.func.value, ast.Name) and n.func.value.id in ("self", "cls")) or (isinstance(n.func, ast.Name) and n.func.id == f.name)):
                sites.append((g, n))
    if not sites:
        return False
    ok = True
    for g, n in sites:
        if any(isinstance(a, ast.Starred) for a in n.args) or any(k.arg is None for k in n.keywords):
            ok = False
            continue
        bound = dict(zip(fparams, n.args))
        bound.update({k.arg: k.value for k in n.keywords})
        gdefs = Defs(g.node)
        nm = bound.get(name_param)
        if nm is None:
            ok = False
            continue
        name_roots = roots(nm, gdefs, safe_attrs=frozenset(), safe_calls=frozenset())
        arg_roots = set()
        for p in lacking:
            if p in bound:
                arg_roots |= roots(bound[p], gdefs, safe_attrs=frozenset(), safe_calls=frozenset())
        arg_roots -= {"self", "cls"}
        c = site(g, n)[:200]
        rr.inst(c, via_builder=f.qualname, name=unparse(nm)[:80], name_param_roots=sorted(name_roots), operand_param_roots=sorted(arg_roots))
        miss = arg_roots - name_roots
        if miss and g.construct in R062_EXEMPT:
            rr.exempt(c, R062_EXEMPT[g.construct])
        elif miss:
            ctx.finding(rr, c, f"the exact name handed to {f.qualname} ({unparse(nm)[:60]}) does not depend on parameter(s) {sorted(miss)} that the rebuilt node's operands depend on: different content, same name", func=g, node=n)
    return ok


def r06_2(ctx):
    rr = RuleResult("R06.2", "COVER", "hand-built exact names / explicit tokens depend on every method parameter the constructed operands depend on", min_instances=3)
    repo = ctx.repo
    for m in repo.units:
        for f in m.functions.values():
            if f.parent is not None:
                continue
            defs = None
            for n in body_walk(f.node):
                if not isinstance(n, ast.Call):
                    continue
                kws = {k.arg: k.value for k in n.keywords if k.arg}
                name_expr = None
                if "_name_is_exact" in kws and const_value(kws["_name_is_exact"]) is True and "_name_override" in kws:
                    name_expr = kws["_name_override"]
                elif "_determ_token" in kws and not (isinstance(kws["_determ_token"], ast.Name) and kws["_determ_token"].id == "_determ_token"):
                    name_expr = kws["_determ_token"]
                if name_expr is None:
                    continue
                defs = defs or Defs(f.node)
                kw_ignore = {"_name_override", "_name_is_exact", "_determ_token"}
                arg_roots = set()
                for a in n.args:
                    arg_roots |= roots(a.value if isinstance(a, ast.Starred) else a, defs, safe_attrs=frozenset(), safe_calls=frozenset())
                for k in n.keywords:
                    if k.arg not in kw_ignore:
                        arg_roots |= roots(k.value, defs, safe_attrs=frozenset(), safe_calls=frozenset())
                name_roots = roots(name_expr, defs, safe_attrs=frozenset(), safe_calls=frozenset())
                arg_roots -= {"self", "cls"}
                c = site(f, n)[:200]
                rr.inst(c, name=unparse(name_expr), name_param_roots=sorted(name_roots), operand_param_roots=sorted(arg_roots))
                lacking = arg_roots - name_roots
                if lacking and f.construct in R062_EXEMPT:
                    rr.exempt(c, R062_EXEMPT[f.construct])
                    continue
                if lacking and isinstance(name_expr, ast.Name) and name_expr.id in defs.params and not defs.defs.get(name_expr.id):
                    # a builder helper: the name is handed in by the caller, so the obligation is the caller's - at every
                    # call site the name argument must depend on what the other (operand) arguments depend on
                    if _builder_sites_ok(ctx, rr, f, name_expr.id, lacking):
                        continue
                if lacking:
                    ctx.finding(rr, c, f"the hand-built name {unparse(name_expr)} does not depend on parameter(s) {sorted(lacking)} that the node's operands depend on: different content, same name", func=f, node=n)
    return rr


def r06_3(ctx):
    rr = RuleResult(
        "R06.3", "COVER",
        "pinned-name classes opt out of singleton dedup and never touch the lowering cache (idiom A) or are built only over fully lowered inputs (idiom B)",
        min_instances=4,
    )
    repo = ctx.repo
    cg = callgraph(ctx)

    def returns_self_untouched(f):
        """lower_once returns self on a path that neither reads nor writes `lowered`."""
        touches = [n for n in body_walk(f.node) if isinstance(n, ast.Name) and n.id == "lowered"]
        rets = [n for n in body_walk(f.node) if isinstance(n, ast.Return)]
        return rets and all(unparse(r.value) == "self" for r in rets) and not touches

    for cname in sorted(PINNED):
        c = repo.find_class(cname)
        need(_pinned_name(repo, c), f"{cname}._name is no longer an operand verbatim (update the pinned-name table)")
        init = c.methods.get("__init__")
        lo = c.methods.get("lower_once")
        idiom_a = init is not None and lo is not None and returns_self_untouched(lo)
        # idiom B: all construction sites feed lowered inputs
        sites = cg.constructions.get(c.fq, [])
        idiom_b = bool(sites)
        for f, m, call in sites:
            if f is None:
                idiom_b = False
                continue
            defs = Defs(f.node)
            star = [a.value for a in call.args if isinstance(a, ast.Starred)]
            ok = False
            for s in star:
                vals = defs.defs.get(s.id, []) if isinstance(s, ast.Name) else [s]
                if vals and all("lower_completely()" in unparse(v) for v in vals):
                    ok = True
            idiom_b = idiom_b and ok
        rr.inst(c.construct, idiom_A=idiom_a, idiom_B=idiom_b, own_init=init is not None, own_lower_once=lo is not None)
        if not (idiom_a or idiom_b):
            why = []
            if init is None:
                why.append("no own __init__ (SingletonExpr would dedup two pins of one name around different content)")
            if lo is None:
                why.append("no lower_once override (Expr.lower_once would put the pinned name into the name-keyed lowering cache)")
            elif not returns_self_untouched(lo):
                why.append("lower_once touches `lowered` or does not return self")
            ctx.finding(rr, c.construct, f"pinned-name class {cname} follows neither documented idiom: " + "; ".join(why), file=c.module.path, line=c.node.lineno)
    # conditional pins: a branch of _name that returns a user-supplied operand verbatim
    from .. import namedeps as _nd

    _nd.CONDITIONAL_PINS_SEEN.clear()  # module-level collector: never carry state between runs
    for c in repo.expr_classes():
        name_deps(repo, c)
    for cn, member, q in sorted(_nd.CONDITIONAL_PINS_SEEN):
        cst = f"{repo.find_class(cn).construct}::conditional pin {q}"
        rr.inst(cst, member=member)
        if (cn, q) not in CONDITIONAL_PINS:
            ctx.finding(rr, cst, f"{cn}.{member} can return the operand {q!r} verbatim as the node's name, and this is not one of the confirmed user-supplied-name cases {sorted(CONDITIONAL_PINS)}", file=repo.find_class(cn).module.path, line=repo.find_class(cn).node.lineno)
        else:
            rr.exempt(cst, CONDITIONAL_PINS[(cn, q)])
    # conditional pin: FromArray with _name_is_exact
    fa = repo.find_class("FromArray")
    lo = fa.methods.get("lower_once")
    new = fa.methods.get("__new__")
    need(new is not None, "FromArray.__new__")
    if lo is None:
        hit = repo.class_attr(fa, "lower_once")
        rr.inst(f"{fa.construct}::lower_once", present=False)
        ctx.finding(rr, f"{fa.construct}::lower_once", f"FromArray no longer overrides lower_once (lookups resolve to {hit[0].name if hit else 'nothing'}.lower_once): exact-name sources enter the name-keyed lowering cache", file=fa.module.path, line=fa.node.lineno)
        return rr
    cfg = cfg_of(ctx, lo)
    ok_lo = False
    for r in cfg.returns:
        if unparse(r.value) == "self":
            g = cfg.guards(r)
            if any("_name_is_exact" in idents_in(t) and pol for t, pol in g):
                # that path must not touch `lowered`
                ok_lo = True
    rr.inst(site(lo), exact_branch_returns_self=ok_lo)
    if not ok_lo:
        ctx.finding(rr, site(lo), "FromArray.lower_once no longer returns self (bypassing the lowering cache) for exact-name nodes", func=lo)
    cfgn = cfg_of(ctx, new)
    ok_new = False
    for r in cfgn.returns:
        if isinstance(r.value, ast.Call) and unparse(r.value.func) == "Expr.__new__":
            g = cfgn.guards(r)
            if any("name_is_exact" in unparse(t) and pol for t, pol in g):
                ok_new = True
    rr.inst(site(new), exact_branch_bypasses_singleton=ok_new)
    if not ok_new:
        ctx.finding(rr, site(new), "FromArray.__new__ no longer bypasses SingletonExpr dedup for exact-name nodes", func=new)
    return rr


def _operand_store_sites(repo, modules):
    """(module, func, node, what) for every store that rewrites an operand of an expression."""
    expr_classes = {c.fq: c for c in repo.expr_classes()} if repo else {}
    out = []
    for m in modules:
        for f in m.functions.values():
            g = f
            while g is not None and g.cls is None:
                g = g.parent
            owner = g.cls if g else None
            P = params_of(repo, owner) if (repo and owner is not None and owner.fq in expr_classes) else None
            for n in body_walk(f.node):
                if isinstance(n, ast.Attribute) and isinstance(n.ctx, ast.Store):
                    recv = unparse(n.value)
                    if n.attr == "operands":
                        out.append((m, f, n, f"{recv}.operands rebound"))
                    elif recv == "self" and P is not None and n.attr in P and f.name not in ("__init__", "__new__"):
                        out.append((m, f, n, f"operand {n.attr!r} of self assigned (Expr.__setattr__ writes into operands)"))
                elif isinstance(n, ast.Subscript) and isinstance(n.ctx, (ast.Store, ast.Del)) and unparse(n.value).endswith(".operands"):
                    out.append((m, f, n, f"{unparse(n.value)}[...] assigned"))
                elif isinstance(n, ast.Call) and isinstance(n.func, ast.Attribute) and n.func.attr in ("append", "insert", "extend", "pop", "remove", "clear", "sort", "reverse") and unparse(n.func.value).endswith(".operands"):
                    out.append((m, f, n, f"{unparse(n.func.value)}.{n.func.attr}(...)"))
    return out


def r06_4(ctx):
    rr = RuleResult("R06.4", "PURE", "no code rewrites an operand of an existing expression (only _determ_token may be assigned)", min_instances=1)
    repo = ctx.repo
    # positive fixture: the matcher itself must recognise the patterns on every run
    fx = os.path.join(VERIF, "fixtures", "r064_positive.py")
    need(os.path.isfile(fx), "fixture fixtures/r064_positive.py")
    fm = Module("fixture_r064", fx, "fixtures/r064_positive.py", False)
    hits = _operand_store_sites(None, [fm])
    rr.inst("fixtures/r064_positive.py", matcher_hits=len(hits))
    need(len(hits) >= 3, "R06.4 matcher no longer recognises the positive fixture")
    for m, f, n, what in _operand_store_sites(repo, repo.units):
        c = site(f, n)
        rr.inst(c, what=what)
        ctx.finding(rr, c, f"{what}: the node keeps its (cached) name while its content changes", func=f, node=n)
    return rr


def r06_5(ctx):
    rr = RuleResult("R06.5", "WHO", "_LOWER_CACHE is used only by _materialize._lower as the argument of lower_once; lower_once overrides store under self._name", min_instances=2)
    repo = ctx.repo
    for m in repo.units:
        for n in ast.walk(m.tree):
            if isinstance(n, ast.Name) and n.id == "_LOWER_CACHE" or isinstance(n, ast.Attribute) and n.attr == "_LOWER_CACHE" or isinstance(n, ast.alias) and n.name == "_LOWER_CACHE":
                f = enclosing_function(m, n) if hasattr(n, "lineno") else None
                where = f"{m.name}:{f.qualname}" if f else f"{m.name}:<module>"
                c = f"{m.relpath}::{f.qualname if f else '<module>'}::ref _LOWER_CACHE"
                rr.inst(c)
                if where == "dask_array._materialize:<module>" and isinstance(getattr(n, "ctx", None), ast.Store):
                    continue  # its definition
                if where != "dask_array._materialize:_lower":
                    ctx.finding(rr, c, "the process-wide lowering cache is referenced outside _lower", file=m.path, line=getattr(n, "lineno", 0))
    lw = repo.mod("dask_array._materialize").func("_lower")
    uses = [n for n in body_walk(lw.node) if isinstance(n, ast.Name) and n.id == "_LOWER_CACHE"]
    for u in uses:
        ok = False
        for call in [x for x in body_walk(lw.node) if isinstance(x, ast.Call)]:
            if isinstance(call.func, ast.Attribute) and call.func.attr == "lower_once" and any(a is u for a in call.args):
                ok = True
        if not ok:
            ctx.finding(rr, site(lw, u), "_LOWER_CACHE used other than as the argument of lower_once(...)", func=lw, node=u)
    for c in repo.expr_classes():
        lo = c.methods.get("lower_once")
        if lo is None:
            continue
        for n in body_walk(lo.node):
            key = None
            if isinstance(n, ast.Call) and isinstance(n.func, ast.Attribute) and n.func.attr == "setdefault" and unparse(n.func.value) == "lowered" and n.args:
                key = n.args[0]
            if isinstance(n, ast.Subscript) and isinstance(n.ctx, ast.Store) and unparse(n.value) == "lowered":
                key = n.slice
            if key is not None:
                cst = site(lo, n)
                rr.inst(cst, key=unparse(key))
                if unparse(key) != "self._name":
                    ctx.finding(rr, cst, f"lower_once stores into the shared cache under {unparse(key)} instead of self._name", func=lo, node=n)
    return rr


def r06_6(ctx):
    from .c11 import r11_7

    rr = r11_7(ctx)
    rr.rule = "R06.6"
    for f in rr.findings:
        f.rule = "R06.6"
        f.prop = PROP
    return rr


def r06_7(ctx):
    rr = RuleResult("R06.7", "COVER", "a rewrite that rebuilds a node with a user-pinned name operand resets that operand whenever it changes any other operand", min_instances=2)
    repo = ctx.repo
    from .. import namedeps as _nd

    _nd.CONDITIONAL_PINS_SEEN.clear()
    for c in repo.expr_classes():
        name_deps(repo, c)
    pins = {}
    for cn, _member, q in _nd.CONDITIONAL_PINS_SEEN:
        pins.setdefault(cn, set()).add(q)
    need(pins, "no conditional pin discovered (namedeps lost its anchors)")
    for c in repo.expr_classes():
        qs = set()
        for k in repo.mro(c):
            if not isinstance(k, str) and k.name in pins:
                qs |= pins[k.name]
        if not qs:
            continue
        P = params_of(repo, c)
        for mf in c.methods.values():
            for n in body_walk(mf.node):
                if not (isinstance(n, ast.Call) and isinstance(n.func, ast.Attribute) and n.func.attr == "substitute_parameters" and unparse(n.func.value) == "self" and n.args):
                    continue
                arg = n.args[0]
                if isinstance(arg, ast.Name):
                    ds = Defs(mf.node).defs.get(arg.id, [])
                    arg = ds[-1] if len(ds) == 1 else arg
                cst = site(mf, n)[:160]
                if not isinstance(arg, ast.Dict):
                    rr.inst(cst, keys=None)
                    ctx.finding(rr, cst, f"{c.name}.{mf.name} rebuilds the node through substitute_parameters with a mapping the checker cannot read; the class has user-pinned name operand(s) {sorted(qs)}", func=mf, node=n)
                    continue
                keys = {const_value(k) for k in arg.keys if k is not None}
                rr.inst(cst, keys=sorted(str(k) for k in keys), pins=sorted(qs))
                changed = {k for k in keys if k in P} - qs
                missing = [q for q in sorted(qs) if q in P and q not in keys]
                if changed and missing:
                    ctx.finding(
                        rr, cst,
                        f"{c.name}.{mf.name} substitutes {sorted(changed)} but keeps the user-pinned name operand {missing}: the rebuilt node has other content under the SAME name, "
                        f"so the singleton registry (and every name-keyed cache) hands back the original node in its place",
                        func=mf, node=n,
                    )
    return rr


def _whole_names(expr):
    """Names whose whole value flows into ``expr``: occurrences that are not merely the base of a subscript / attribute
    projection and not inside a lossy wrapper (len, type, bool ...)."""
    lossy = set()
    for n in ast.walk(expr):
        if isinstance(n, ast.Call) and isinstance(n.func, ast.Name) and n.func.id in ("len", "type", "bool", "id", "hash", "isinstance", "min", "max", "any", "all"):
            for a in n.args:
                for s in ast.walk(a):
                    lossy.add(id(s))
        if isinstance(n, ast.Subscript):
            for s in ast.walk(n.value):
                lossy.add(id(s))
        if isinstance(n, ast.Attribute):
            for s in ast.walk(n.value):
                lossy.add(id(s))
    return {n.id for n in ast.walk(expr) if isinstance(n, ast.Name) and isinstance(n.ctx, ast.Load) and id(n) not in lossy}


def r06_8(ctx):
    rr = RuleResult("R06.8", "COVER", "a graph-internal literal stored under a content-addressed key (prefix + tokenize(...)) is covered by that token", min_instances=2)
    repo = ctx.repo
    for f in repo.all_functions():
        calls = [n for n in body_walk(f.node) if isinstance(n, ast.Call) and (dotted(n.func) or "").rsplit(".", 1)[-1] == "DataNode" and len(n.args) >= 2]
        if not calls:
            continue
        defs = Defs(f.node)
        for n in calls:
            key, val = n.args[0], n.args[1]
            kexprs = [key]
            if isinstance(key, ast.Name):
                # the definition that reaches this statement (nearest preceding assignment in the enclosing blocks)
                cfg = cfg_of(ctx, f)
                stmt = cfg_index(ctx, f).get(id(n))
                nd = nearest_def(cfg, stmt, key.id) if stmt is not None else None
                kexprs = [nd.value] if nd is not None and getattr(nd, "value", None) is not None else (defs.defs.get(key.id, []) or [key])
            for ke in kexprs:
                # the key expression together with the (reaching) definitions of the locals it is built from
                closure, frontier, seen_names = [ke], [ke], set()
                for _ in range(3):
                    nxt = []
                    for e in frontier:
                        for nm in [x.id for x in ast.walk(e) if isinstance(x, ast.Name) and x.id in f.local_names and x.id not in seen_names]:
                            seen_names.add(nm)
                            d = nearest_def(cfg_of(ctx, f), cfg_index(ctx, f).get(id(n)), nm) if cfg_index(ctx, f).get(id(n)) is not None else None
                            if d is not None and getattr(d, "value", None) is not None:
                                nxt.append(d.value)
                    closure += nxt
                    frontier = nxt
                toks = [c for e in closure for c in ast.walk(e) if isinstance(c, ast.Call) and (dotted(c.func) or "").rsplit(".", 1)[-1] in ("tokenize", "_tokenize_deterministic")]
                node_scoped = any(isinstance(x, ast.Attribute) and x.attr in ("_name", "name") for e in closure for x in ast.walk(e))
                cst = site(f, n)[:170]
                if not toks:
                    rr.inst(cst, key=unparse(ke)[:60], content_addressed=False, node_scoped=node_scoped)
                    if not node_scoped:
                        ctx.finding(rr, cst, f"the literal {unparse(val)[:50]} is stored under {unparse(ke)[:50]}, which is neither scoped by the node name nor a content token: graphs merged across collections may collide on it", func=f, node=n)
                    continue
                covered = set()
                for t in toks:
                    for a in list(t.args) + [k.value for k in t.keywords]:
                        covered |= _whole_names(a)
                used = {x for x in _whole_names(val) if x in f.local_names}
                lacking = sorted(used - covered)
                rr.inst(cst, key=unparse(ke)[:80], payload=unparse(val)[:60], token_covers=sorted(covered), payload_uses=sorted(used))
                if lacking and not node_scoped:
                    ctx.finding(
                        rr, cst,
                        f"the content-addressed key {unparse(ke)[:70]} does not cover {lacking}, which the stored literal {unparse(val)[:50]} uses whole: two different literals can get the same key, "
                        f"and merging graphs (dask.compute of several collections) silently keeps one of them",
                        func=f, node=n,
                    )
    return rr


def r06_9(ctx):
    rr = RuleResult(
        "R06.9", "COVER",
        "a hand-built task graph keyed by (prefix + tokenize(...), i) names its tasks by everything the tasks are built from: every value that enters a task whole is, or is computed only from, what the token was given",
        min_instances=2,
    )
    repo = ctx.repo
    tok_names = ("tokenize", "_tokenize_deterministic")
    for m in repo.units:
        if ".tests" in m.name:
            continue
        for f in m.functions.values():
            if f.parent is not None:
                continue
            defs = None
            for d in ast.walk(f.node):
                if isinstance(d, ast.Dict):
                    entries = [(k, v) for k, v in zip(d.keys, d.values) if k is not None]
                elif isinstance(d, ast.DictComp):
                    entries = [(d.key, d.value)]
                else:
                    continue
                for k, v in entries:
                    if not (isinstance(k, ast.Tuple) and k.elts and isinstance(k.elts[0], ast.Name)):
                        continue
                    defs = defs or Defs(f.node)
                    nm = k.elts[0].id
                    exprs, seen, toks = list(defs.defs.get(nm, [])), {nm}, []
                    for _ in range(3):
                        nxt = []
                        for e in exprs:
                            toks += [c for c in ast.walk(e) if isinstance(c, ast.Call) and (dotted(c.func) or "").rsplit(".", 1)[-1] in tok_names]
                            for x in ast.walk(e):
                                if isinstance(x, ast.Name) and x.id not in seen and x.id in defs.defs:
                                    seen.add(x.id)
                                    nxt += defs.defs[x.id]
                        exprs = nxt
                    if not toks:
                        continue
                    covered = set()
                    for t in toks:
                        for a in list(t.args) + [kw.value for kw in t.keywords]:
                            covered |= _whole_names(a)
                    # a local bound once to a tuple / list / dict display stands for its elements (tokenize(*ingredients))
                    for _ in range(3):
                        for nm_ in list(covered):
                            v_ = defs.plain_single_def(nm_)
                            if isinstance(v_, (ast.Tuple, ast.List, ast.Dict)):
                                covered |= _whole_names(v_)

                    # a task ingredient is fine when it is what the token was given, or a local computed only from such values;
                    # a parameter the token was not given is not (whatever it may also be rebound to on some path)
                    lacking = set()

                    def check(name, depth, trail):
                        if name in covered or name in trail:
                            return
                        if name in defs.params:
                            lacking.add(name)
                            return
                        ds = defs.defs.get(name)
                        if not ds or depth == 0:
                            return  # a module-level function / constant / import
                        for e in ds:
                            for x in _whole_names(e):
                                check(x, depth - 1, trail | {name})

                    used = {x for x in _whole_names(v)}
                    for x in sorted(used):
                        check(x, 5, frozenset())
                    c = f"{f.construct}::({nm}, ...) -> {unparse(v)[:60]}"
                    rr.inst(c, token_given=sorted(covered), task_uses=sorted(used))
                    if lacking:
                        ctx.finding(
                            rr, c,
                            f"the tasks stored under ({nm}, i) use {sorted(lacking)} of {f.qualname}, which the token in {nm} was not given ({sorted(covered)}): two calls that differ only there build different tasks under the same keys, "
                            "and de-duplication by name (one graph holding both, dask.compute of several collections) silently keeps one of them",
                            func=f, node=d,
                        )
    return rr


RULES = [r06_1, r06_2, r06_3, r06_4, r06_5, r06_6, r06_7, r06_8, r06_9]

from .upstream import upstream_facts  # noqa: E402

RULES_THOROUGH = RULES + [upstream_facts]

LEVEL_TEXT = (
    "Static decision of the naming discipline that makes de-duplication by name sound: a name-dependency closure "
    "(through tokenizers, properties and super()) compared with the declared operands of all 111 expression classes, "
    "def-use coverage of every hand-built exact name, idiom checks for the pinned-name classes, a zero-tolerance "
    "operand-mutation scan (with a positive fixture), who-may-touch the shared lowering cache, and the shared "
    "no-live-handle-in-operands rule. A forgotten tokenizer argument, a hand-built name that ignores a parameter, or a "
    "new pinned-name class outside the idioms is reported at the class/site. Hash collisions and dask.tokenize itself are not decided."
)
LEVEL_NOTE = (
    "Trusted: CPython ast, sa.namedeps (properties in NO_EXPAND - dtype, _meta, shape... - credit no operand, so coverage "
    "is under- rather than over-credited), frozen exemption table in sa/rules/c06.py. Assumes dask's SingletonExpr/Expr "
    "semantics as read from the installed source."
)
TECHNIQUE = "static analysis: name-dependency closure vs declared operands (set agreement), def-use coverage of hand-built names, idiom/typestate checks for pinned names (ast)"

"""Shared rule: per-block payload literals must be built against a pinned layout (R20.7 / R12.1 / R25.1)."""

from __future__ import annotations

import ast

from ..dataflow import Defs
from ..model import body_walk, dotted, norm, unparse
from .common import cfg_index, cfg_of, site

PAYLOAD_BASE = "ArrayBlockwiseDep"
PIN_METHODS = {"freeze_chunks", "_pinned", "persist"}
PIN_CALLS = {"persist", "ChunksFreeze"}


def payload_classes(repo):
    """Names of ArrayBlockwiseDep subclasses: upstream (dask.layers) and in the package."""
    names = {PAYLOAD_BASE}
    layers = repo.module("dask.layers")
    changed = True
    pool = list(layers.classes.values()) if layers else []
    pool += list(repo.all_classes())
    while changed:
        changed = False
        for c in pool:
            if c.name in names:
                continue
            for b in c.base_exprs:
                if (dotted(b) or "").rsplit(".", 1)[-1] in names:
                    names.add(c.name)
                    changed = True
    return names


def _is_pin_value(v):
    """``X.freeze_chunks()``, ``X._pinned()``, ``persist(...)``, ``Array(ChunksFreeze(...))``."""
    for n in ast.walk(v):
        if isinstance(n, ast.Call):
            if isinstance(n.func, ast.Attribute) and n.func.attr in PIN_METHODS:
                return True
            if (dotted(n.func) or "").rsplit(".", 1)[-1] in PIN_CALLS:
                return True
    return False


def payload_sites(ctx, restrict_module=None):
    """[(FuncInfo, stmt, call node, class name, layout sources)] for every payload construction."""
    repo = ctx.repo
    names = payload_classes(repo) - {PAYLOAD_BASE}
    out = []
    for m in repo.units:
        if restrict_module and m.name != restrict_module:
            continue
        for f in m.functions.values():
            if f.parent is not None:
                continue
            for n in ast.walk(f.node):
                if isinstance(n, ast.Call) and (dotted(n.func) or "").rsplit(".", 1)[-1] in names:
                    # skip the class's own super().__init__ style calls
                    out.append((f, n, (dotted(n.func) or "").rsplit(".", 1)[-1]))
    return out


def layout_sources(call, defs: Defs):
    """Local names X such that X.chunks / X.numblocks feeds the payload's arguments, directly or
    through one level of local definitions (``offset = f(x.chunks[axis])``)."""
    srcs = set()
    exprs = list(call.args) + [k.value for k in call.keywords]
    level1 = []
    for e in exprs:
        for n in ast.walk(e):
            if isinstance(n, ast.Name):
                level1.extend(defs.defs.get(n.id, []))
    for e in exprs + level1:
        for n in ast.walk(e):
            if isinstance(n, ast.Attribute) and n.attr in ("chunks", "numblocks") and isinstance(n.value, ast.Name):
                srcs.add(n.value.id)
    return srcs


def check_pinned(ctx, f, call, var):
    """None when every path to the payload construction passes a pinning (re)definition of ``var``
    after its last non-pinning definition; else a witness path (list of printable strings)."""
    cfg = cfg_of(ctx, f)
    idx = cfg_index(ctx, f)
    use = idx.get(id(call))
    if use is None:
        return ["payload construction not found in the CFG"]
    defs = Defs(f.node)

    def defines(s):
        if isinstance(s, ast.Assign):
            return any(isinstance(n, ast.Name) and n.id == var for t in s.targets for n in ast.walk(t))
        if isinstance(s, (ast.For, ast.AsyncFor)):
            return any(isinstance(n, ast.Name) and n.id == var for n in ast.walk(s.target))
        return False

    def is_pin_def(s):
        if isinstance(s, ast.Assign) and defines(s):
            return _is_pin_value(s.value)
        if isinstance(s, (ast.For, ast.AsyncFor)) and defines(s):
            # iterating over pinned collections: every name in the iterable is bound to a pinning producer
            names = [n.id for n in ast.walk(s.iter) if isinstance(n, ast.Name)]
            pinned = [nm for nm in names if defs.defs.get(nm) and all(_is_pin_value(v) for v in defs.defs[nm])]
            return bool(pinned)
        return False

    # the variable may be the target of a comprehension that encloses the construction (a loop turned into a
    # comprehension): same judgement as for a ``for`` statement, on the generator's iterable
    for comp in ast.walk(f.node):
        if isinstance(comp, (ast.ListComp, ast.SetComp, ast.GeneratorExp, ast.DictComp)) and any(n is call for n in ast.walk(comp)):
            for g in comp.generators:
                if any(isinstance(n, ast.Name) and n.id == var for n in ast.walk(g.target)):
                    names = [n.id for n in ast.walk(g.iter) if isinstance(n, ast.Name)]
                    pinned = [nm for nm in names if defs.defs.get(nm) and all(_is_pin_value(v) for v in defs.defs[nm])]
                    if pinned:
                        return None
                    return [f"line {comp.lineno}: comprehension target {var} iterates {unparse(g.iter)[:80]}, which is not a pinned collection"]

    starts = [cfg.entry] if var in defs.params else []
    starts += [s for s in cfg.stmts() if defines(s) and not is_pin_def(s)]
    if not starts and var not in defs.params:
        if any(is_pin_def(s) for s in cfg.stmts()):
            return None  # every definition of the variable is a pinning one
        # never defined locally (closure / global): cannot be shown pinned
        return [f"{var} has no local definition"]
    for st in starts:
        if st is use:
            continue
        # leave the start node, then look for a path to the use that avoids every pin definition
        for lbl, nxt in cfg.succ[st]:
            if is_pin_def(nxt):
                continue
            if nxt is use:
                return [f"line {getattr(st, 'lineno', 0)}: {norm(st) if isinstance(st, ast.AST) else 'entry'}", f"line {use.lineno}: {norm(use)}"]
            p = cfg.path_avoiding(use, blocked=is_pin_def, start=nxt)
            if p is not None:
                return [f"line {getattr(x, 'lineno', 0)}: {norm(x)}" for x in [st] + p if isinstance(x, ast.AST)][:8]
    return None

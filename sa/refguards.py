"""REF rules: guards confirmed on the reference tree must still exist and still control their exit.

A *guard instance* is an exit statement of a function (``raise X``, ``return None``, ``return <const>``,
``continue``) together with its controlling condition chain (``CFG.guards``: enclosing tests with
polarity plus preceding early-exit tests).  Its *fingerprint* is computed from the chain after
inlining single-level local definitions, as a multiset of structural features (AST node kinds,
attribute names, called function names, constants, comparison/boolean operators and polarity).
Local variable *names* are not part of the fingerprint, operand order of and/or is irrelevant:
renaming a local or reordering conjuncts does not change it; dropping a conjunct, turning ``or``
into ``and``, comparing against another constant, or changing what a tested local is computed from does.
"""

from __future__ import annotations

import ast
import hashlib
import json
import os
from collections import Counter

from .cfg import CFG
from .dataflow import Defs
from .model import AnalysisError, FuncInfo, body_walk, dotted, unparse

FIXTURE = os.path.join(os.path.dirname(os.path.dirname(os.path.abspath(__file__))), "fixtures", "ref_guards.json")


_BOOL_FUNCS = {"isinstance", "hasattr", "callable", "any", "all", "issubclass", "bool", "has_keyword"}
_BOOL_PREFIXES = ("is_", "has_", "_is_", "_has_", "supports_", "_supports_", "can_", "_can_", "is", "has")


def _boolean_like(v):
    if isinstance(v, (ast.Compare, ast.BoolOp)):
        return True
    if isinstance(v, ast.UnaryOp) and isinstance(v.op, ast.Not):
        return True
    if isinstance(v, ast.Call):
        tail = (dotted(v.func) or "").rsplit(".", 1)[-1]
        return tail in _BOOL_FUNCS or tail.startswith(_BOOL_PREFIXES)
    return False


def _pred_expr(stmts):
    """The value of a helper whose body is ``return <expr>`` possibly preceded by ``if <t>: return <a>`` steps (with or
    without ``else``), as ONE expression: ``if t: return True`` + rest = ``t or rest``; ``if t: return False`` + rest =
    ``not t and rest``; otherwise ``(t and a) or (not t and rest)``.  None when the body has any other statement."""
    if not stmts:
        return None
    s0 = stmts[0]
    if isinstance(s0, ast.Return):
        return s0.value if s0.value is not None and len(stmts) == 1 else None
    if isinstance(s0, ast.If):
        a = _pred_expr(s0.body)
        rest = _pred_expr(s0.orelse) if s0.orelse else _pred_expr(stmts[1:])
        if s0.orelse and len(stmts) > 1:
            return None
        if a is None or rest is None:
            return None
        if isinstance(a, ast.Constant) and a.value is True:
            return ast.BoolOp(op=ast.Or(), values=[s0.test, rest])
        if isinstance(a, ast.Constant) and a.value is False:
            return ast.BoolOp(op=ast.And(), values=[ast.UnaryOp(op=ast.Not(), operand=s0.test), rest])
        if isinstance(rest, ast.Constant) and rest.value is False:
            return ast.BoolOp(op=ast.And(), values=[s0.test, a])
        if isinstance(rest, ast.Constant) and rest.value is True:
            return ast.BoolOp(op=ast.Or(), values=[ast.UnaryOp(op=ast.Not(), operand=s0.test), a])
        return ast.BoolOp(op=ast.Or(), values=[ast.BoolOp(op=ast.And(), values=[s0.test, a]), ast.BoolOp(op=ast.And(), values=[ast.UnaryOp(op=ast.Not(), operand=s0.test), rest])])
    return None


def _value_expr(func_node, stmts):
    """The value of a checked-computation helper: plain single assignments, ``if <t>: raise`` validations and one final
    ``return <expr>`` - the returned expression with the helper's own single-assignment locals looked through (what
    the caller gets whenever the helper returns at all).  None for any other body."""
    if not stmts or not isinstance(stmts[-1], ast.Return) or stmts[-1].value is None:
        return None
    for b in stmts[:-1]:
        if isinstance(b, ast.Assign) and len(b.targets) == 1 and isinstance(b.targets[0], ast.Name):
            continue
        if isinstance(b, ast.If) and not b.orelse and all(isinstance(x, ast.Raise) for x in b.body):
            continue
        return None
    hdefs = Defs(func_node)
    return _inline(stmts[-1].value, hdefs, depth=4)


_COLLECTION_CTORS = {"set", "list", "dict", "frozenset", "sorted", "defaultdict", "OrderedDict"}


def _is_collection_value(v):
    if isinstance(v, (ast.ListComp, ast.SetComp, ast.DictComp, ast.List, ast.Set, ast.Dict)):
        return True
    if isinstance(v, ast.Call) and isinstance(v.func, ast.Name) and v.func.id in _COLLECTION_CTORS:
        return True
    return False


def _inline(test, defs: Defs, depth=6, _seen=None, module=None, keep_collections=False):
    """Copy of ``test`` with locals that have exactly one definition replaced by it, and - when ``module`` is
    given - calls of same-module private single-``return <expr>`` helpers replaced by that expression (formal
    parameters substituted by the actual arguments)."""
    _seen = _seen or set()
    import copy

    class T(ast.NodeTransformer):
        def visit_Name(self, n):
            if isinstance(n.ctx, ast.Load) and n.id not in defs.params and n.id not in _seen:
                # a local bound exactly once by a plain assignment stands for its value: look through it (so that
                # splitting an expression with an intermediate variable, or merging intermediates, changes nothing, and
                # changing what a tested local is computed from does).  Loop / with / comprehension targets, unpacked,
                # augmented or multiply-bound locals and parameters stay opaque.
                v = defs.plain_single_def(n.id)
                if keep_collections and v is not None and _is_collection_value(v):
                    # a local that holds a computed collection (display, comprehension, set()/list()/dict()/tuple()/sorted()
                    # of something) stays a name: a guard such as ``if not wanted:`` is about that collection, and whether it
                    # was filled by a loop or by a comprehension is not part of the condition
                    return n
                if v is not None and depth > 0 and not isinstance(v, ast.Lambda):
                    return _inline(v, defs, depth - 1, _seen | {n.id}, module, keep_collections)
            return n

        def visit_Call(self, n):
            self.generic_visit(n)
            if module is not None and isinstance(n.func, ast.Name) and n.func.id.startswith("_") and depth > 0 and not n.keywords:
                g = module.functions.get(n.func.id)
                if g is not None and g.cls is None and g.parent is None:
                    body = [b for b in g.node.body if not (isinstance(b, ast.Expr) and isinstance(b.value, ast.Constant))]
                    value = _pred_expr(body) or _value_expr(g.node, body)
                    if value is not None and len(n.args) == len(g.node.args.args) and not any(isinstance(a, ast.Starred) for a in n.args):
                        sub = dict(zip([a.arg for a in g.node.args.args], n.args))

                        class S(ast.NodeTransformer):
                            def visit_Name(self, m):
                                return copy.deepcopy(sub[m.id]) if isinstance(m.ctx, ast.Load) and m.id in sub else m

                        return S().visit(copy.deepcopy(value))
            return n

    return T().visit(copy.deepcopy(test))


_NEG_CMP = {ast.Eq: ast.NotEq, ast.NotEq: ast.Eq, ast.In: ast.NotIn, ast.NotIn: ast.In, ast.Is: ast.IsNot, ast.IsNot: ast.Is}
_QUANT = {"any": "all", "all": "any"}


def _quant(test):
    """('any'|'all', generator) when test is ``any(<genexp/listcomp>)`` / ``all(...)``."""
    if isinstance(test, ast.Call) and isinstance(test.func, ast.Name) and test.func.id in _QUANT and len(test.args) == 1 and not test.keywords and isinstance(test.args[0], (ast.GeneratorExp, ast.ListComp)):
        return test.func.id, test.args[0]
    return None


def _mk_quant(name, gen, elt):
    g = ast.GeneratorExp(elt=elt, generators=gen.generators)
    return ast.Call(func=ast.Name(id=name, ctx=ast.Load()), args=[g], keywords=[])


def _flat(op, values):
    out = []
    for v in values:
        if isinstance(v, ast.BoolOp) and type(v.op) is type(op):
            out.extend(v.values)
        else:
            out.append(v)
    return ast.BoolOp(op=op, values=out) if len(out) > 1 else out[0]


def _nnf(test, positive=True):
    """Normal form of ``test`` (negated when ``positive`` is False): negations are pushed through and/or
    (De Morgan) and through any()/all() over a generator (``not any(P)`` = ``all(not P)``), double negations vanish,
    ==/!=, in/not in, is/is not absorb a negation, nested and/or of the same kind are flattened, and a quantifier
    distributes over its element (``all(P and Q)`` = ``all(P) and all(Q)``, ``any(P or Q)`` = ``any(P) or any(Q)``).
    Order comparisons are NOT flipped (``not a < b`` differs from ``a >= b`` for NaN)."""
    if isinstance(test, ast.UnaryOp) and isinstance(test.op, ast.Not):
        return _nnf(test.operand, not positive)
    if isinstance(test, ast.BoolOp):
        vals = [_nnf(v, positive) for v in test.values]
        op = test.op if positive else (ast.Or() if isinstance(test.op, ast.And) else ast.And())
        return _flat(op, vals)
    q = _quant(test)
    if q is not None:
        name, gen = q
        if not positive:
            name = _QUANT[name]
        elt = _nnf(gen.elt, positive)
        # distribute: all over and, any over or
        if isinstance(elt, ast.BoolOp) and ((name == "all" and isinstance(elt.op, ast.And)) or (name == "any" and isinstance(elt.op, ast.Or))):
            return _flat(elt.op, [_mk_quant(name, gen, v) for v in elt.values])
        return _mk_quant(name, gen, elt)
    if positive:
        return test
    if isinstance(test, ast.Compare) and len(test.ops) == 1 and type(test.ops[0]) in _NEG_CMP:
        return ast.Compare(left=test.left, ops=[_NEG_CMP[type(test.ops[0])]()], comparators=test.comparators)
    if isinstance(test, ast.Constant) and isinstance(test.value, bool):
        return ast.Constant(value=not test.value)
    return ast.UnaryOp(op=ast.Not(), operand=test)


def _conjuncts(test):
    if isinstance(test, ast.BoolOp) and isinstance(test.op, ast.And):
        out = []
        for v in test.values:
            out.extend(_conjuncts(v))
        return out
    return [test]


def _disjuncts(test):
    if isinstance(test, ast.BoolOp) and isinstance(test.op, ast.Or):
        out = []
        for v in test.values:
            out.extend(_disjuncts(v))
        return out
    return [test]


class Names(set):
    """Local names of a function, plus the names of the module's private module-level functions (``opaque``)."""

    opaque: frozenset = frozenset()


def _is_opaque_call(n, local_names):
    """``_private_helper(<locals / attributes of locals / constants>)`` of the same module that could not be inlined (it
    has loops or several statements): for fingerprinting it is an opaque local computation - exactly what it would be
    had the code computed the value with a flag-setting loop into a local, which is how such helpers come about."""
    if not (isinstance(n, ast.Call) and isinstance(n.func, ast.Name) and n.func.id in getattr(local_names, "opaque", ()) and not n.keywords):
        return False
    for a in n.args:
        base = a
        while isinstance(base, (ast.Attribute, ast.Subscript)):
            base = base.value
        if isinstance(base, ast.Constant):
            continue
        if not (isinstance(base, ast.Name) and (base.id in local_names or base.id == "self")):
            return False
    return True


def _features(node, local_names) -> Counter:
    c = Counter()
    # names bound inside the expression itself (comprehension targets, lambda parameters) are local wherever the
    # expression came from - in particular when it was inlined from a private predicate helper
    bound = set()
    for n in ast.walk(node):
        if isinstance(n, ast.comprehension):
            bound |= {x.id for x in ast.walk(n.target) if isinstance(x, ast.Name)}
        elif isinstance(n, ast.Lambda):
            bound |= {a.arg for a in n.args.args}
    if bound - set(local_names):
        merged = Names(set(local_names) | bound)
        merged.opaque = getattr(local_names, "opaque", frozenset())
        local_names = merged

    def walk(n):
        if _is_opaque_call(n, local_names):
            c["Local"] += 1
            return
        t = type(n).__name__
        if isinstance(n, ast.Name):
            if n.id in local_names:
                c["Local"] += 1
            else:
                c[f"Name:{n.id}"] += 1
        elif isinstance(n, ast.Attribute):
            c[f"Attr:{n.attr}"] += 1
        elif isinstance(n, ast.Constant):
            c[f"Const:{n.value!r}"] += 1
        elif isinstance(n, (ast.Load, ast.Store, ast.Del, ast.expr_context)):
            pass
        elif isinstance(n, ast.keyword):
            c[f"kw:{n.arg}"] += 1
        else:
            c[t] += 1
        for ch in ast.iter_child_nodes(n):
            walk(ch)

    walk(node)
    return c


def exit_kind(stmt, module=None):
    if isinstance(stmt, ast.Raise):
        exc = stmt.exc
        if isinstance(exc, ast.Call):
            exc = exc.func
            # ``raise _make_error(args)``: a same-module private factory whose every return builds one exception type
            if module is not None and isinstance(exc, ast.Name) and exc.id.startswith("_"):
                g = module.functions.get(exc.id)
                if g is not None and g.cls is None:
                    kinds = {dotted(r.value.func) for r in ast.walk(g.node) if isinstance(r, ast.Return) and isinstance(r.value, ast.Call)}
                    rets = [r for r in ast.walk(g.node) if isinstance(r, ast.Return)]
                    if len(kinds) == 1 and None not in kinds and all(isinstance(r.value, ast.Call) for r in rets):
                        return "raise " + kinds.pop()
        return "raise " + (dotted(exc) or "?") if exc is not None else "raise"
    if isinstance(stmt, ast.Return):
        v = stmt.value
        if v is None or (isinstance(v, ast.Constant) and v.value is None):
            return "return None"
        if isinstance(v, ast.Constant):
            return f"return {v.value!r}"
        return "return <value>"
    if isinstance(stmt, ast.Continue):
        return "continue"
    return type(stmt).__name__


def stmt_kind(s):
    """Kind label for non-exit statements tracked by REF rules: assignments by target, calls by callee."""
    if isinstance(s, ast.Assign):
        return "assign " + ", ".join(sorted(unparse(t).split("[")[0] for t in s.targets))
    if isinstance(s, ast.AugAssign):
        return "assign " + unparse(s.target).split("[")[0]
    if isinstance(s, ast.Expr) and isinstance(s.value, ast.Call):
        return "call " + (dotted(s.value.func) or "?")
    if isinstance(s, ast.Break):
        return "break"  # leaving a search loop early: the for-else that follows is reached only when no break fired
    return None


def _fp(node, local_names):
    ast.fix_missing_locations(node)
    canon = ";".join(f"{k}={v}" for k, v in sorted(_features(node, local_names).items()))
    return hashlib.sha256(canon.encode()).hexdigest()[:12]


def _item(conj, local_names):
    """A conjunct as a comparable item: its fingerprint, and for a disjunction the fingerprints of its disjuncts
    (each disjunct as the sorted list of its own conjunct fingerprints)."""
    it = {"fp": _fp(conj, local_names)}
    ds = _disjuncts(conj)
    if len(ds) > 1:
        it["or"] = sorted(sorted(_fp(c, local_names) for c in _conjuncts(d)) for d in ds)
    return it


class Guard:
    """One exit (or tracked statement) of a function with its controlling condition, split into the conjuncts of the
    tests that ENCLOSE it (``own``) and those contributed by earlier early-exits (``ctx``)."""

    def __init__(self, stmt, exit_kind, own, ctx, text, via=None):
        self.stmt, self.exit, self.own, self.ctx, self.text, self.via = stmt, exit_kind, own, ctx, text, via

    @property
    def own_fps(self):
        return sorted(i["fp"] for i in self.own)

    @property
    def all_fps(self):
        return sorted(i["fp"] for i in self.own + self.ctx)

    def to_json(self):
        return {"exit": self.exit, "own": self.own, "ctx": self.ctx, "text": self.text}


def _chain_items(cfg, s, defs, local_names, module, rewrite=None):
    """``rewrite``: optional AST -> AST applied to every (already inlined) test before normalisation - used to express a
    helper's conditions in terms of its caller (formal parameters replaced by the actual arguments, then the caller's
    locals looked through)."""
    own, ctx, texts = [], [], []
    for t, pol, kind in cfg.guards(s, with_kind=True):
        it = _inline(t, defs, module=module)
        if rewrite is not None:
            it = rewrite(it)
        for lit in _conjuncts(_nnf(it, pol)):
            (own if kind == "enclosing" else ctx).append(_item(lit, local_names))
        for lit in _conjuncts(_nnf(t, pol)):
            ast.fix_missing_locations(lit)
            texts.append(unparse(lit))
    return own, ctx, texts


def _ifexp_arms(ret: ast.Return, defs, depth=3):
    """[(value, [(test, polarity), ...])] for ``return <conditional expression>`` (nested conditionals flattened; a
    returned local that is bound once to a conditional expression is looked through); None when the value is not one."""
    v = ret.value
    if isinstance(v, ast.Name):
        d = defs.plain_single_def(v.id)
        if isinstance(d, ast.IfExp):
            v = d
    if not isinstance(v, ast.IfExp):
        return None

    def walk(e, conds, depth):
        if isinstance(e, ast.IfExp) and depth > 0:
            return walk(e.body, conds + [(e.test, True)], depth - 1) + walk(e.orelse, conds + [(e.test, False)], depth - 1)
        return [(e, conds)]

    return walk(v, [], depth)


def guard_instances(f: FuncInfo, kinds=("raise", "return None", "return", "continue"), extra=None, follow_helpers=True):
    """[Guard] for the exits of ``f`` (and, with ``extra``, for other statements: ``extra(stmt) -> bool``).  With
    ``follow_helpers`` the ``raise`` exits of same-module private functions that ``f`` calls count as exits of ``f``,
    under the call site's condition plus their own (a refusal moved into a helper is still f's refusal)."""
    cfg = CFG(f.node)
    defs = Defs(f.node)
    local_names = Names(set(defs.defs) | set(defs.params))
    module = f.module
    local_names.opaque = frozenset(n for n, g in module.functions.items() if n.startswith("_") and g.cls is None and g.parent is None)
    out = []
    for s in cfg.stmts():
        if isinstance(s, (ast.Raise, ast.Return, ast.Continue)):
            ek = exit_kind(s, module)
            if not any(ek.startswith(k) for k in kinds):
                continue
        elif extra is not None and extra(s) and stmt_kind(s):
            ek = stmt_kind(s)
        else:
            continue
        own, ctx, texts = _chain_items(cfg, s, defs, local_names, module)
        arms = _ifexp_arms(s, defs) if isinstance(s, ast.Return) else None
        if arms:
            # ``return a if c else b`` is ``if c: return a`` / ``else: return b``: one exit per arm, under the arm's condition
            for value, conds in arms:
                arm_stmt = ast.copy_location(ast.Return(value=value), s)
                a_ek = exit_kind(arm_stmt, module)
                if not any(a_ek.startswith(k) for k in kinds):
                    continue
                a_own, a_texts = list(own), list(texts)
                for t, pol in conds:
                    it = _inline(t, defs, module=module)
                    for lit in _conjuncts(_nnf(it, pol)):
                        a_own.append(_item(lit, local_names))
                    for lit in _conjuncts(_nnf(t, pol)):
                        ast.fix_missing_locations(lit)
                        a_texts.append(unparse(lit))
                out.append(Guard(s, a_ek, a_own, ctx, " AND ".join(f"({x})" for x in sorted(a_texts)) if a_texts else "<unconditional>"))
            continue
        out.append(Guard(s, ek, own, ctx, " AND ".join(f"({x})" for x in sorted(texts)) if texts else "<unconditional>"))
    if follow_helpers and any(k.startswith("raise") for k in kinds):
        seen = {f.fq}
        for s in cfg.stmts():
            if isinstance(s, (ast.If, ast.While, ast.For, ast.Try, ast.With, ast.FunctionDef, ast.ClassDef)):
                continue
            for c in ast.walk(s):
                if not (isinstance(c, ast.Call) and isinstance(c.func, (ast.Name, ast.Attribute))):
                    continue
                g = None
                if isinstance(c.func, ast.Name) and c.func.id.startswith("_"):
                    g = module.functions.get(c.func.id)
                elif isinstance(c.func, ast.Attribute) and isinstance(c.func.value, ast.Name) and c.func.value.id == "self" and c.func.attr.startswith("_") and f.cls is not None:
                    g = f.cls.methods.get(c.func.attr)
                if g is None or g.fq in seen or g.kind in ("property", "cached_property"):
                    continue
                seen.add(g.fq)
                site_own, site_ctx, site_texts = _chain_items(cfg, s, defs, local_names, module)
                # express the helper's conditions in the caller's terms: formal parameters -> actual arguments, then the
                # caller's single-assignment locals are looked through exactly as for the caller's own conditions
                formals = [a.arg for a in g.node.args.posonlyargs + g.node.args.args]
                if formals and formals[0] in ("self", "cls") and isinstance(c.func, ast.Attribute):
                    formals = formals[1:]
                sub = {}
                if not any(isinstance(a, ast.Starred) for a in c.args):
                    sub = dict(zip(formals, c.args))
                for k in c.keywords:
                    if k.arg in formals:
                        sub[k.arg] = k.value
                import copy as _copy

                def rewrite(node, sub=sub):
                    class S(ast.NodeTransformer):
                        def visit_Name(self, m):
                            return _copy.deepcopy(sub[m.id]) if isinstance(m.ctx, ast.Load) and m.id in sub else m

                    return _inline(S().visit(node), defs, module=module)

                gcfg, gdefs = CFG(g.node), Defs(g.node)
                g_locals = Names(local_names | set(gdefs.defs) | set(gdefs.params))
                g_locals.opaque = local_names.opaque
                for hs in gcfg.stmts():
                    if not isinstance(hs, ast.Raise):
                        continue
                    h_own, h_ctx, h_texts = _chain_items(gcfg, hs, gdefs, g_locals, module, rewrite=rewrite)
                    text = " AND ".join(f"({t})" for t in sorted(site_texts + h_texts)) or "<unconditional>"
                    out.append(Guard(s, exit_kind(hs), site_own + h_own, site_ctx + h_ctx, text, via=g.qualname))
    return out


def _multi(xs):
    return sorted(xs)


def matches(ref: dict, cur: Guard, others=()):
    """Is the reference guard ``ref`` (a to_json dict) still enforced by the current guard ``cur``?
    1. same conjuncts overall (own + context);  2. same own conjuncts (the context only records that earlier guards
    did not fire);  3. ``cur`` is a disjunction one of whose disjuncts is ``ref`` (two refusals merged with ``or``)."""
    if ref["exit"] != cur.exit:
        return False
    r_own = _multi(i["fp"] for i in ref["own"])
    r_all = _multi(i["fp"] for i in ref["own"] + ref.get("ctx", []))
    if r_all == cur.all_fps or r_own == cur.own_fps:
        return True
    # nested-if <-> early-exit forms move conjuncts between own and context: compare own against all and vice versa
    if r_all == cur.own_fps or r_own == cur.all_fps:
        return True
    if len(cur.own) == 1 and "or" in cur.own[0]:
        if any(sorted(d) == r_own for d in cur.own[0]["or"]) or any(sorted(d) == r_all for d in cur.own[0]["or"]):
            return True
    return False


def split_matches(ref: dict, curs):
    """``ref`` is one disjunction and the current code spells it as several exits, one per disjunct."""
    if len(ref["own"]) == 1 and "or" in ref["own"][0]:
        need = [sorted(d) for d in ref["own"][0]["or"]]
        have = [g.own_fps for g in curs if g.exit == ref["exit"]]
        return all(d in have for d in need)
    return False


def load_reference(prop):
    if not os.path.isfile(FIXTURE):
        raise AnalysisError(f"reference guard table missing: {FIXTURE}")
    with open(FIXTURE) as fh:
        data = json.load(fh)
    return data.get(prop, [])


def check_reference(ctx, rr, prop, selector=None):
    """Every reference guard of ``prop`` (optionally filtered) must still exist with the same
    exit kind and fingerprint in its function."""
    repo = ctx.repo
    ref = load_reference(prop)
    if selector:
        ref = [e for e in ref if selector(e)]
    cache = {}
    for e in ref:
        modname, qual = e["func"].split(":")
        m = repo.mod(modname)
        if qual not in m.functions and "." in qual and qual.rsplit(".", 1)[0] in m.classes:
            # the class is still there but the method is gone: attribute lookup now resolves to a base
            # class implementation, i.e. the guarded behaviour was removed, not renamed away
            cls = m.classes[qual.rsplit(".", 1)[0]]
            c = f"{cls.construct}::{qual.rsplit('.', 1)[1]}"
            if not any(i["construct"] == c for i in rr.instances):
                rr.inst(c, present=False)
                hit = repo.class_attr(cls, qual.rsplit(".", 1)[1])
                ctx.finding(rr, c, f"{qual} carried reference guards but is no longer defined; lookups now resolve to {hit[0].name + '.' + qual.rsplit('.', 1)[1] if hit else 'nothing'}", file=m.path, line=cls.node.lineno)
            continue
        f = m.func(qual)  # raises AnalysisError when a module-level anchor vanished
        if f.fq not in cache:
            cache[f.fq] = guard_instances(f, extra=lambda s: True)
        insts = cache[f.fq]
        same_exit = [g for g in insts if g.exit == e["exit"]]
        hit = [g for g in same_exit if matches(e, g)] or (same_exit if split_matches(e, same_exit) else [])
        c = f"{f.construct}::{e['exit']} when {e['text'][:140]}"
        rr.inst(c, why=e.get("why", ""), present=bool(hit), **({"via_helper": hit[0].via} if hit and hit[0].via else {}))
        if hit:
            continue
        others = [x for x in ref if x["func"] == e["func"] and x["exit"] == e["exit"]]
        unmatched = [g for g in same_exit if not any(matches(x, g) for x in others)]
        now = "; ".join(sorted({g.text[:160] for g in (unmatched or same_exit)})[:3]) or "no such statement left"
        ctx.finding(
            rr, c,
            f"reference guard changed or removed in {f.qualname}: expected `{e['exit']}` under {e['text']!r}; now: {now}",
            func=f, node=(unmatched[0].stmt if unmatched else (same_exit[0].stmt if same_exit else f.node)),
        )
    return rr

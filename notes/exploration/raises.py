import ast, os
ROOT='/repo/dask_array'
HOOKS={'_simplify_down','_simplify_up','_lower','lower_once','_accept_slice','_accept_shuffle','_accept_rechunk','_accept_slice_coarse','_pushdown','_slice_pushdown','_rechunk_pushdown','_shuffle_pushdown','_preserve_grid_contract'}
for dp,dn,fns in os.walk(ROOT):
    if '/tests' in dp: continue
    for f in fns:
        if not f.endswith('.py'): continue
        p=os.path.join(dp,f); t=ast.parse(open(p).read())
        for c in ast.walk(t):
            if isinstance(c,ast.ClassDef):
                for fn in c.body:
                    if isinstance(fn,ast.FunctionDef) and (fn.name in HOOKS or fn.name.startswith('_pushdown')):
                        for n in ast.walk(fn):
                            if isinstance(n,ast.Raise):
                                print(p.replace(ROOT+'/',''),c.name,fn.name,n.lineno,ast.unparse(n)[:90])
            if isinstance(c,ast.FunctionDef) and c.name in ('_accept_slice_impl','optimize_blockwise_fusion_array','_materialize','_lower','unify_chunks_expr','coarse_blockdim','_build_tree_reduce_expr'):
                for n in ast.walk(c):
                    if isinstance(n,ast.Raise): print(p.replace(ROOT+'/',''),'-',c.name,n.lineno,ast.unparse(n)[:90])

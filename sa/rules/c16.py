"""C16 - one clause: invalid chunk specifications are refused, and every layout leaves through the validation."""

from __future__ import annotations

import ast

from ..model import body_walk, dotted, unparse
from ..refguards import check_reference
from ..report import RuleResult
from .common import cfg_of, need, site

PROP = "C16"

EXPLANATION = (
    "Decides one structural clause of C16 only. The property speaks of *accepted* specifications; what makes a returned layout "
    "valid for every accepted input is (a) arithmetic (not decided) and (b) the refusals that reject everything the arithmetic "
    "cannot handle. R16.1 REF: every condition under which normalize_chunks, auto_chunks and blockdims_from_blockshape raise "
    "(missing chunks, rank mismatch, malformed / negative / inconsistent byte strings, empty tuples, negative sizes, sizes that do not add up to "
    "the shape, unknown sizes with 'auto', object dtypes, non-integer sizes: 18 reference fingerprints) is structurally unchanged; "
    "R16.2 PASS: every normal return of normalize_chunks is reached only through the empty-tuple refusal loop and through the "
    "'chunks do not add up to shape' validation (skipped only for the all-int fast path, whose layout is constructed from the shape "
    "by blockdims_from_blockshape); R16.3 PASS: every normal return also passes a refusal of negative sizes placed after the "
    "-1 / None placeholder substitution (without it `(-2,)` was normalised to ((-1,),) and ((-1, 6),) accepted for an axis of 5 - "
    "repaired in /repo). The sums, the byte limit of 'auto' axes and the uniform-size clause are integer arithmetic and "
    "are not decided, except R16.4 FLOW: inside auto_chunks every per-axis element of `chunks` that is used as a value (the fixed axes feeding `largest_block`, the budget the 'auto' axes are sized against) is used as the number it is or under max() / sorted()[-1] - a positional pick (`cs[0]`), min() or any other aggregate is not an upper bound of the blocks of that axis and lets 'auto' blocks exceed the limit for layouts whose largest block sits elsewhere; R16.5 FLOW: a for-sweep of auto_chunks that removes axes from a set (directly or through a nested helper) does not take len() of that set inside the sweep - the share of the budget per axis is computed from the snapshot made before the sweep."
)
ASSUMPTIONS = ["blockdims_from_blockshape builds a tiling of the shape from integer sizes (arithmetic, not decided)"]
TRUSTED = ["CPython ast", "sa.cfg must-pass-through", "sa.refguards (negation-normal-form conjunct fingerprints)", "reviewed reference table fixtures/ref_guards.json"]


def r16_1(ctx):
    rr = RuleResult("R16.1", "REF", "the refusals of invalid chunk specifications in normalize_chunks / auto_chunks / blockdims_from_blockshape are structurally unchanged", min_instances=15)
    return check_reference(ctx, rr, PROP)


def r16_2(ctx):
    rr = RuleResult("R16.2", "PASS", "every normal return of normalize_chunks passes through the empty-tuple refusal and the adds-up-to-shape validation", min_instances=2)
    f = ctx.repo.mod("dask_array._core_utils").functions.get("normalize_chunks")
    need(f is not None, "dask_array/_core_utils.py::normalize_chunks")
    cfg = cfg_of(ctx, f)

    def is_sum_check(n):
        return isinstance(n, ast.If) and "sum" in unparse(n.test) and "shape" in unparse(n.test) and any(isinstance(x, ast.Raise) for x in ast.walk(n))

    def is_outer_gate(n):
        # ``if not allints and shape is not None:`` wrapping the sum check
        return isinstance(n, ast.If) and any(is_sum_check(x) for x in n.body)

    def is_empty_loop(n):
        return isinstance(n, ast.For) and any(isinstance(x, ast.Raise) and "Empty tuples" in unparse(x) for x in ast.walk(n))

    gates = [n for n in cfg.stmts() if is_outer_gate(n) or is_sum_check(n)]
    loops = [n for n in cfg.stmts() if is_empty_loop(n)]
    rets = [r for r in cfg.returns if r.value is not None]
    if not gates:
        rr.inst(f.construct + "::adds-up-to-shape validation", present=False)
        ctx.finding(rr, f.construct + "::adds-up-to-shape validation", "normalize_chunks no longer validates that the chunk sizes of each axis add up to the axis length: a layout that does not tile the shape is accepted", func=f)
    if not loops:
        rr.inst(f.construct + "::empty-tuple refusal", present=False)
        ctx.finding(rr, f.construct + "::empty-tuple refusal", "normalize_chunks no longer refuses empty per-axis tuples", func=f)
    need(rets, "returns of normalize_chunks")
    for r in rets:
        p1 = cfg.path_avoiding(r, blocked=lambda n: n in gates) if gates else None
        p2 = cfg.path_avoiding(r, blocked=lambda n: n in loops) if loops else None
        rr.inst(site(f, r)[:150], through_sum_check=p1 is None, through_empty_tuple_check=p2 is None)
        if p1 is not None:
            ctx.finding(rr, site(f, r)[:150], "a return of normalize_chunks is reachable without passing the 'chunks do not add up to shape' validation: a layout that does not tile the shape can be accepted", func=f, node=r)
        if p2 is not None:
            ctx.finding(rr, site(f, r)[:150], "a return of normalize_chunks is reachable without passing the empty-tuple refusal", func=f, node=r)
    # the gate may be skipped only for the all-int fast path
    for g in gates:
        if is_outer_gate(g):
            t = unparse(g.test)
            from ..refguards import _conjuncts, _nnf

            ok = {unparse(x) for x in _conjuncts(_nnf(g.test))} == {"not allints", "shape is not None"}
            rr.inst(site(f, g)[:150], gate=t)
            if not ok:
                ctx.finding(rr, site(f, g)[:150], f"the adds-up-to-shape validation is skipped under `{t}`: only the all-int fast path (layout built from the shape) may skip it", func=f, node=g)
    return rr


def _neg_test(test):
    """`X < 0` / `0 > X` / `X <= -1` on something other than the parsed byte-string value."""
    for n in ast.walk(test):
        if isinstance(n, ast.Compare) and len(n.ops) == 1:
            l, op, r = n.left, n.ops[0], n.comparators[0]
            if isinstance(op, (ast.Gt, ast.GtE)):
                l, r, op = r, l, (ast.Lt() if isinstance(op, ast.Gt) else ast.LtE())
            if isinstance(r, ast.UnaryOp) and isinstance(r.op, ast.USub) and isinstance(r.operand, ast.Constant):
                rv = -r.operand.value
            elif isinstance(r, ast.Constant):
                rv = r.value
            else:
                continue
            if ((isinstance(op, ast.Lt) and rv == 0) or (isinstance(op, ast.LtE) and rv == -1)) and "parse_bytes" not in unparse(l):
                return True
    return False


def _is_neg_refusal(n, defs, mod):
    """``if <... X < 0 ...>: raise`` where X is not the parsed byte-string value (locals and private predicates looked
    through, so that a renamed local or an extracted predicate changes nothing)."""
    from ..refguards import _inline

    return isinstance(n, ast.If) and any(isinstance(x, ast.Raise) for b in n.body for x in ast.walk(b)) and _neg_test(_inline(n.test, defs, module=mod))


def r16_3(ctx):
    from ..dataflow import Defs

    rr = RuleResult("R16.3", "PASS", "every normal return of normalize_chunks passes through a refusal of negative sizes (after the -1 / None placeholders are substituted)", min_instances=1)
    mod = ctx.repo.mod("dask_array._core_utils")
    f = mod.functions.get("normalize_chunks")
    need(f is not None, "dask_array/_core_utils.py::normalize_chunks")
    cfg = cfg_of(ctx, f)
    defs = Defs(f.node)

    def refuses(n):
        if _is_neg_refusal(n, defs, mod):
            return True
        # a module-local helper called as a statement whose body holds the refusal
        if isinstance(n, (ast.Expr, ast.Assign)) and isinstance(n.value, ast.Call):
            h = mod.functions.get(dotted(n.value.func) or "")
            if h is not None:
                hdefs = Defs(h.node)
                if any(_is_neg_refusal(x, hdefs, mod) for x in body_walk(h.node)):
                    return True
        return False

    gates = [n for n in cfg.stmts() if refuses(n)]
    rets = [r for r in cfg.returns if r.value is not None]
    need(rets, "returns of normalize_chunks")
    if not gates:
        rr.inst(f.construct + "::negative-size refusal", present=False)
        ctx.finding(rr, f.construct + "::negative-size refusal", "normalize_chunks has no refusal of negative chunk sizes: `(-2,)` on an axis of 5 is accepted and normalised to ((-1,),), and ((-1, 6),) is accepted because it happens to sum to the axis length", func=f)
        return rr
    for g in gates:
        rr.inst(site(f, g)[:150], refusal=unparse(g.test)[:120] if isinstance(g, ast.If) else unparse(g)[:120])
    for r in rets:
        p = cfg.path_avoiding(r, blocked=lambda n: n in gates)
        rr.inst(site(f, r)[:150], through_negative_refusal=p is None)
        if p is not None:
            ctx.finding(rr, site(f, r)[:150], "a return of normalize_chunks is reachable without passing the negative-size refusal: a layout with a negative block size can be accepted", func=f, node=r)
    return rr


_UPPER = {"max", "np.max", "np.amax", "numpy.max", "numpy.amax"}


def _elem_bindings(fn, pname):
    """(loop variable, scope nodes, anchor node) for every comprehension / for loop of *fn* that iterates the elements of
    parameter *pname* (directly or through ``enumerate``) and uses the element outside of tests."""
    out = []

    def elem_target(target, it):
        if isinstance(it, ast.Name) and it.id == pname and isinstance(target, ast.Name):
            return target.id
        if isinstance(it, ast.Call) and dotted(it.func) == "enumerate" and it.args and isinstance(it.args[0], ast.Name) and it.args[0].id == pname:
            if isinstance(target, ast.Tuple) and len(target.elts) == 2 and isinstance(target.elts[1], ast.Name):
                return target.elts[1].id
        return None

    for n in body_walk(fn.node):
        if isinstance(n, (ast.GeneratorExp, ast.ListComp, ast.SetComp)):
            for g in n.generators:
                v = elem_target(g.target, g.iter)
                if v:
                    out.append((v, [n.elt], n))
        elif isinstance(n, ast.DictComp):
            for g in n.generators:
                v = elem_target(g.target, g.iter)
                if v:
                    out.append((v, [n.key, n.value], n))
        elif isinstance(n, ast.For):
            v = elem_target(n.target, n.iter)
            if v:
                out.append((v, list(n.body), n))
    return out


def _size_uses(v, scope, mod, depth=0):
    """Classify every value use of the per-axis element *v* inside *scope* (tests, comparisons and isinstance dispatch are
    not value uses).  Yields (node, kind, text): kind 'scalar' (the element itself, the arm of a Number dispatch), 'upper'
    (under max / sorted(...)[-1]) or 'other'."""
    parents = {}
    for root in scope:
        for p in ast.walk(root):
            for c in ast.iter_child_nodes(p):
                parents[c] = p
    for root in scope:
        for n in ast.walk(root):
            if not (isinstance(n, ast.Name) and n.id == v and isinstance(n.ctx, ast.Load)):
                continue
            # climb: is the use inside a test / comparison / isinstance?
            c, skip = n, False
            while c in parents:
                p = parents[c]
                if isinstance(p, (ast.If, ast.IfExp, ast.While)) and p.test is c:
                    skip = True
                    break
                if isinstance(p, ast.Compare) or (isinstance(p, ast.Call) and dotted(p.func) in ("isinstance", "len", "type")):
                    skip = True
                    break
                c = p
            if skip:
                continue
            p = parents.get(n)
            if isinstance(p, ast.Call) and n in p.args:
                name = dotted(p.func) or ""
                if name in _UPPER:
                    yield n, "upper", unparse(p)
                    continue
                if name == "sorted" and len(p.args) == 1 and not p.keywords:
                    pp = parents.get(p)
                    if isinstance(pp, ast.Subscript) and unparse(pp.slice) == "-1":
                        yield n, "upper", unparse(pp)
                        continue
                h = mod.functions.get(name)
                if h is not None and depth < 2:
                    params = [a.arg for a in h.node.args.args]
                    i = p.args.index(n)
                    if i < len(params):
                        sub = list(_size_uses(params[i], list(h.node.body), mod, depth + 1))
                        if sub and all(k != "other" for _, k, _ in sub):
                            yield n, "upper" if any(k == "upper" for _, k, _ in sub) else "scalar", unparse(p)
                            continue
                yield n, "other", unparse(p)
                continue
            if isinstance(p, (ast.Subscript, ast.Starred, ast.Attribute)):
                yield n, "other", unparse(parents.get(p, p) if isinstance(p, ast.Starred) else p)
                continue
            yield n, "scalar", unparse(p) if p is not None else v


def r16_4(ctx):
    rr = RuleResult("R16.4", "FLOW", "the fixed axes enter auto_chunks' byte budget through an upper bound of their blocks: a tuple of sizes only under max()", min_instances=1)
    mod = ctx.repo.mod("dask_array._core_utils")
    f = mod.functions.get("auto_chunks")
    need(f is not None, "dask_array/_core_utils.py::auto_chunks")
    pname = f.node.args.args[0].arg
    seen = 0
    for v, scope, anchor in _elem_bindings(f, pname):
        uses = list(_size_uses(v, scope, mod))
        if not uses:
            continue
        seen += 1
        rr.inst(site(f, anchor)[:150], element=v, uses=[f"{k}: {t[:80]}" for _, k, t in uses])
        for n, k, t in uses:
            if k == "other":
                ctx.finding(rr, site(f, anchor)[:150], f"a fixed axis given as a tuple of block sizes enters the size budget of the 'auto' axes as `{t[:80]}`, which is not an upper bound of its blocks (accepted: the size itself when it is a number, max(sizes), sorted(sizes)[-1]): for a layout whose largest block is elsewhere the 'auto' axes come out larger than the byte limit allows although the fixed axes alone fit", func=f, node=n)
    need(seen, "an aggregation over the fixed axes of `chunks` in auto_chunks (largest_block)")
    return rr


_SHRINK = {"remove", "discard", "pop", "clear", "difference_update", "intersection_update"}


def _shrunk_names(nodes):
    out = {}
    for root in nodes:
        for n in ast.walk(root):
            if isinstance(n, ast.Call) and isinstance(n.func, ast.Attribute) and n.func.attr in _SHRINK and isinstance(n.func.value, ast.Name):
                out.setdefault(n.func.value.id, n)
    return out


def r16_5(ctx):
    rr = RuleResult("R16.5", "FLOW", "a sweep of auto_chunks that removes axes from the set it distributes the byte budget over measures that set before the sweep, not while shrinking it", min_instances=1)
    mod = ctx.repo.mod("dask_array._core_utils")
    f = mod.functions.get("auto_chunks")
    need(f is not None, "dask_array/_core_utils.py::auto_chunks")
    nested = {n.name: n for n in ast.walk(f.node) if isinstance(n, (ast.FunctionDef, ast.Lambda)) and n is not f.node and hasattr(n, "name")}
    seen = 0
    for loop in [n for n in ast.walk(f.node) if isinstance(n, ast.For)]:
        shrunk = _shrunk_names(loop.body)
        for n in [x for b in loop.body for x in ast.walk(b)]:
            if isinstance(n, ast.Call) and isinstance(n.func, ast.Name) and n.func.id in nested:
                for k, v in _shrunk_names(nested[n.func.id].body).items():
                    shrunk.setdefault(k, n)
        if not shrunk:
            continue
        seen += 1
        live = [n for b in loop.body for n in ast.walk(b)
                if isinstance(n, ast.Call) and dotted(n.func) == "len" and len(n.args) == 1 and isinstance(n.args[0], ast.Name) and n.args[0].id in shrunk]
        rr.inst(site(f, loop)[:150], shrunk_in_sweep=sorted(shrunk), measured_live=[unparse(n) for n in live])
        for n in live:
            ctx.finding(rr, site(f, loop)[:150], f"`{unparse(n)}` is evaluated inside the sweep that removes elements from `{n.args[0].id}` (at `{unparse(shrunk[n.args[0].id])[:60]}`): the per-axis share of the byte budget then depends on how many axes earlier iterations of the same sweep retired, so a later axis takes the whole remaining multiplier and the blocks exceed the limit; the size must be taken from a snapshot made before the sweep", func=f, node=n)
    need(seen, "a sweep in auto_chunks that retires axes from the set of 'auto' axes")
    return rr


RULES = [r16_1, r16_2, r16_3, r16_4, r16_5]

LEVEL_TEXT = (
    "Static decision of one clause of C16: invalid chunk specifications are refused (reference fingerprints of the 18 refusal "
    "guards of normalize_chunks / auto_chunks / blockdims_from_blockshape) and every layout returned by normalize_chunks has passed "
    "the empty-tuple refusal, the negative-size refusal and the adds-up-to-shape validation (must-pass-through on the CFG). A dropped or weakened validation is "
    "reported at its guard. The sums, the byte limit and the uniform-size clause are arithmetic and are not decided."
)
LEVEL_NOTE = "Trusted: CPython ast, sa.cfg, sa.refguards, reviewed reference table. A restructured guard needs the reference regenerated deliberately."
TECHNIQUE = "static analysis: reference-guard fingerprints of validation refusals + must-pass-through on the statement CFG (ast)"

import ast, os, sys, collections
sys.setrecursionlimit(10000)
exec(open('/verif/notes/exploration/kern.py').read().split("print(len(esc)")[0])  # reuse: mods, topfuncs, esc
ALIAS_METHODS={'view','reshape','ravel','squeeze','transpose','swapaxes','astype_nocopy','__getitem__','real','imag','T','flat','base','diagonal'}
ALIAS_FUNCS={'asarray','asanyarray','ascontiguousarray','asfortranarray','squeeze','transpose','broadcast_to','atleast_1d','atleast_2d','atleast_3d','ravel','reshape','swapaxes','moveaxis','rollaxis','expand_dims','sliding_window_view','as_strided','broadcast_arrays','real','imag','diagonal','getattr'}
INPLACE_METHODS={'sort','fill','resize','put','itemset','partition','setflags','setfield','byteswap','append','extend','update','pop','clear','insert','remove','add','discard','setdefault','popitem','reverse'}
NP_INPLACE={'copyto','put','place','putmask','fill_diagonal','put_along_axis','shuffle'}
def al(expr, st):
    """return set of params expr may alias"""
    if isinstance(expr, ast.Name): return set(st.get(expr.id, ()))
    if isinstance(expr, ast.Subscript): return al(expr.value, st)
    if isinstance(expr, ast.Attribute):
        if expr.attr in ('T','real','imag','flat','base','data','mask'): return al(expr.value, st)
        return set()
    if isinstance(expr, ast.Call):
        f=expr.func
        if isinstance(f, ast.Attribute):
            if f.attr in ('view','reshape','ravel','squeeze','transpose','swapaxes','diagonal'): return al(f.value, st)
            if f.attr=='astype':
                for kw in expr.keywords:
                    if kw.arg=='copy' and isinstance(kw.value,ast.Constant) and kw.value.value is False: return al(f.value, st)
                return set()
            if f.attr in ALIAS_FUNCS and expr.args: 
                s=set()
                for a in expr.args[:1]: s|=al(a,st)
                return s
            return set()
        if isinstance(f, ast.Name) and f.id in ALIAS_FUNCS and expr.args: return al(expr.args[0], st)
        return set()
    if isinstance(expr, ast.IfExp): return al(expr.body,st)|al(expr.orelse,st)
    if isinstance(expr,(ast.Tuple,ast.List)):
        s=set()
        for e in expr.elts: s|=al(e,st)
        return s
    if isinstance(expr, ast.Starred): return al(expr.value, st)
    if isinstance(expr, ast.NamedExpr): return al(expr.value, st)
    return set()
class FnAn:
    def __init__(self, fn, mod):
        self.fn=fn; self.mod=mod; self.hits=[]
        a=fn.args
        self.params=[x.arg for x in a.posonlyargs+a.args+a.kwonlyargs]
        self.var=a.vararg.arg if a.vararg else None; self.kw=a.kwarg.arg if a.kwarg else None
    def run(self):
        st={p:{p} for p in self.params if p not in ('self','cls')}
        # *args/**kwargs containers are fresh; their elements alias -> treat subscript of them as alias of pseudo-param
        if self.var: st[self.var]={'*'+self.var}
        if self.kw: st[self.kw]=set()   # container fresh
        self.block(self.fn.body, st)
        return self.hits
    def write(self, target_expr, st, node, kind):
        s=al(target_expr, st)
        if s: self.hits.append((node.lineno, kind, ast.unparse(target_expr)[:40], sorted(s)))
    def assign(self, tgt, val_alias, st):
        if isinstance(tgt, ast.Name): st[tgt.id]=set(val_alias)
        elif isinstance(tgt,(ast.Tuple,ast.List)):
            for e in tgt.elts: self.assign(e, val_alias, st)
        elif isinstance(tgt, ast.Starred): self.assign(tgt.value, val_alias, st)
    def expr_effects(self, e, st):
        for n in ast.walk(e):
            if isinstance(n, ast.Call):
                f=n.func
                if isinstance(f, ast.Attribute):
                    if f.attr in INPLACE_METHODS: self.write(f.value, st, n, 'method-'+f.attr)
                    if f.attr in NP_INPLACE and n.args: self.write(n.args[0], st, n, 'np.'+f.attr)
                for kw in n.keywords:
                    if kw.arg=='out': self.write(kw.value, st, n, 'out=')
    def block(self, body, st):
        for s in body: self.stmt(s, st)
    def merge(self, a, b):
        out={}
        for k in set(a)|set(b): out[k]=set(a.get(k,()))|set(b.get(k,()))
        return out
    def stmt(self, s, st):
        if isinstance(s, ast.Assign):
            self.expr_effects(s.value, st)
            va=al(s.value, st)
            for t in s.targets:
                if isinstance(t,(ast.Subscript,ast.Attribute)):
                    if isinstance(t,ast.Subscript): self.write(t.value, st, s, 'subscript-store')
                    else: self.write(t.value, st, s, 'attr-store')
                else: self.assign(t, va, st)
        elif isinstance(s, ast.AugAssign):
            self.expr_effects(s.value, st)
            if isinstance(s.target, ast.Name): self.write(s.target, st, s, 'augassign')
            elif isinstance(s.target, ast.Subscript): self.write(s.target.value, st, s, 'augassign-sub')
        elif isinstance(s, ast.AnnAssign):
            if s.value is not None:
                self.expr_effects(s.value, st); self.assign(s.target, al(s.value,st), st)
        elif isinstance(s, (ast.Expr, ast.Return)):
            if s.value is not None: self.expr_effects(s.value, st)
        elif isinstance(s, ast.If):
            self.expr_effects(s.test, st)
            a=dict((k,set(v)) for k,v in st.items()); b=dict((k,set(v)) for k,v in st.items())
            self.block(s.body,a); self.block(s.orelse,b)
            m=self.merge(a,b); st.clear(); st.update(m)
        elif isinstance(s,(ast.For,ast.While)):
            if isinstance(s,ast.For):
                self.expr_effects(s.iter, st); self.assign(s.target, al(s.iter,st), st)
            for _ in range(2):
                a=dict((k,set(v)) for k,v in st.items()); self.block(s.body,a)
                m=self.merge(st,a); st.clear(); st.update(m)
            self.block(s.orelse, st)
        elif isinstance(s, ast.Try):
            a=dict((k,set(v)) for k,v in st.items()); self.block(s.body,a)
            m=self.merge(st,a)
            for h in s.handlers:
                b=dict((k,set(v)) for k,v in m.items()); self.block(h.body,b); m=self.merge(m,b)
            st.clear(); st.update(m); self.block(s.orelse, st); self.block(s.finalbody, st)
        elif isinstance(s, ast.With):
            for it in s.items: self.expr_effects(it.context_expr, st)
            self.block(s.body, st)
        elif isinstance(s,(ast.FunctionDef,ast.ClassDef)): pass
        else:
            for n in ast.iter_child_nodes(s):
                if isinstance(n, ast.expr): self.expr_effects(n, st)
tot=0
for (m,name),sites in sorted(esc.items()):
    fn=topfuncs[m][name]
    hits=FnAn(fn,m).run()
    for h in hits:
        tot+=1; print(m.replace('dask_array.',''), name, *h)
print('kernels',len(esc),'hits',tot)

"""Statement-level control-flow graph, path queries and guard chains.

Nodes are the ``ast.stmt`` objects of one function plus three synthetic nodes
(ENTRY, EXIT for normal returns, RAISE for exceptional exits).  Compound
statements (``if``/``while``/``for``/``try``/``with``/``match``) are nodes in
their own right and stand for the evaluation of their header (test, iterator,
context expression).  Edges out of a branching header carry a label: ``True`` /
``False`` for ``if``/``while``, ``"iter"`` / ``"done"`` for ``for``, the case
index for ``match``, ``"exc"`` for an exceptional edge into a handler.
"""

from __future__ import annotations

import ast
import copy
from collections import defaultdict, deque


class _Syn:
    def __init__(self, name):
        self.name = name
        self.lineno = 0

    def __repr__(self):
        return f"<{self.name}>"


class CFG:
    def __init__(self, func_node):
        self.func = func_node
        self.entry = _Syn("ENTRY")
        self.exit = _Syn("EXIT")  # normal return (explicit or falling off the end)
        self.raise_exit = _Syn("RAISE")
        self.succ = defaultdict(list)  # node -> [(label, node)]
        self.pred = defaultdict(list)
        self.nodes = [self.entry, self.exit, self.raise_exit]
        self.parent = {}  # stmt -> (parent stmt, field, label) structural nesting
        self.returns = []  # Return statements (and implicit fallthrough marker None)
        self._build()

    # -- construction --------------------------------------------------------
    def _edge(self, a, b, label=None):
        if (label, b) not in self.succ[a]:
            self.succ[a].append((label, b))
            self.pred[b].append((label, a))

    def _build(self):
        body = self.func.body
        ends = self._seq(body, [(None, self.entry)], loop=None, handlers=[], finals=[], parent=(None, "body", None))
        for lbl, n in ends:
            self._edge(n, self.exit, lbl)

    def _seq(self, stmts, incoming, loop, handlers, finals, parent):
        """Wire ``stmts`` after the dangling ``incoming`` edges; return dangling ends."""
        cur = incoming
        for s in stmts:
            self.parent[s] = parent
            cur = self._stmt(s, cur, loop, handlers, finals)
        return cur

    def _connect(self, incoming, node):
        for lbl, n in incoming:
            self._edge(n, node, lbl)

    def _stmt(self, s, incoming, loop, handlers, finals):
        self.nodes.append(s)
        self._connect(incoming, s)
        # any statement inside a try body may raise into the handlers
        for h in handlers:
            self._edge(s, h, "exc")
        if finals and not isinstance(s, ast.Raise):
            self._edge(s, finals[-1]["exc_start"], "exc")
        if isinstance(s, ast.If):
            t = self._seq(s.body, [(True, s)], loop, handlers, finals, (s, "body", True))
            if s.orelse:
                f = self._seq(s.orelse, [(False, s)], loop, handlers, finals, (s, "orelse", False))
            else:
                f = [(False, s)]
            return t + f
        if isinstance(s, (ast.While, ast.For, ast.AsyncFor)):
            lab_in, lab_out = (True, False) if isinstance(s, ast.While) else ("iter", "done")
            ctx = {"node": s, "breaks": []}
            b = self._seq(s.body, [(lab_in, s)], ctx, handlers, finals, (s, "body", lab_in))
            for lbl, n in b:
                self._edge(n, s, lbl)
            infinite = isinstance(s, ast.While) and isinstance(s.test, ast.Constant) and bool(s.test.value) is True
            out = [] if infinite else [(lab_out, s)]
            if s.orelse:
                out = self._seq(s.orelse, out, loop, handlers, finals, (s, "orelse", lab_out))
            return out + ctx["breaks"]
        if isinstance(s, ast.Break):
            if loop is not None:
                loop["breaks"].append((None, s))
            return []
        if isinstance(s, ast.Continue):
            if loop is not None:
                self._edge(s, loop["node"], None)
            return []
        if isinstance(s, ast.Return):
            self.returns.append(s)
            if finals:
                # run the innermost finally (its "return" copy), which then leaves
                self._edge(s, finals[-1]["ret_start"], "return")
                finals[-1]["used"].add("return")
            else:
                self._edge(s, self.exit, None)
            return []
        if isinstance(s, ast.Raise):
            if finals:
                self._edge(s, finals[-1]["exc_start"], "exc")
            # a raise may always escape (a handler may not match)
            self._edge(s, self.raise_exit, None)
            return []
        if isinstance(s, (ast.With, ast.AsyncWith)):
            return self._seq(s.body, [(None, s)], loop, handlers, finals, (s, "body", None))
        if isinstance(s, ast.Try) or type(s).__name__ == "TryStar":
            fin = None
            if s.finalbody:
                fin = {"exc_start": _Syn("FINALLY-EXC"), "ret_start": _Syn("FINALLY-RET"), "used": set()}
                for k in ("exc_start", "ret_start"):
                    fin[k].lineno = s.finalbody[0].lineno
                    self.nodes.append(fin[k])
                    self.parent[fin[k]] = (s, "finalbody", None)
            hnodes = []
            for h in s.handlers:
                hn = _Syn("EXCEPT")
                hn.lineno = h.lineno
                hn.handler = h
                self.nodes.append(hn)
                self.parent[hn] = (s, "handlers", None)
                hnodes.append(hn)
            inner_finals = finals + ([fin] if fin else [])
            b = self._seq(s.body, [(None, s)], loop, hnodes + handlers, inner_finals, (s, "body", None))
            if s.orelse:
                b = self._seq(s.orelse, b, loop, handlers, inner_finals, (s, "orelse", None))
            ends = list(b)
            for hn, h in zip(hnodes, s.handlers):
                ends += self._seq(h.body, [(None, hn)], loop, handlers, inner_finals, (s, "handler", None))
            if not fin:
                return ends
            # normal completion: the original finalbody statements
            out = self._seq(s.finalbody, ends, loop, handlers, finals, (s, "finalbody", None))
            # exceptional completion: a private copy that ends by re-raising
            exc_copy = [copy.deepcopy(x) for x in s.finalbody]
            ee = self._seq(exc_copy, [(None, fin["exc_start"])], loop, handlers, finals, (s, "finalbody", None))
            for lbl, n in ee:
                # keep a branch label (True/False) so that path conditions stay visible to queries
                self._edge(n, self.raise_exit, lbl if lbl is not None else "reraise")
                for h in handlers:
                    self._edge(n, h, lbl if lbl is not None else "exc")
                if finals:
                    self._edge(n, finals[-1]["exc_start"], lbl if lbl is not None else "exc")
            if "return" in fin["used"]:
                ret_copy = [copy.deepcopy(x) for x in s.finalbody]
                re_ = self._seq(ret_copy, [(None, fin["ret_start"])], loop, handlers, finals, (s, "finalbody", None))
                for lbl, n in re_:
                    if finals:
                        self._edge(n, finals[-1]["ret_start"], lbl if lbl is not None else "return")
                        finals[-1]["used"].add("return")
                    else:
                        self._edge(n, self.exit, lbl if lbl is not None else "return")
            return out
        if isinstance(s, ast.Match):
            out = []
            for i, c in enumerate(s.cases):
                out += self._seq(c.body, [(i, s)], loop, handlers, finals, (s, "case", i))
            wildcard = any(
                isinstance(c.pattern, ast.MatchAs) and c.pattern.pattern is None and c.guard is None for c in s.cases
            )
            if not wildcard:
                out.append(("nomatch", s))
            return out
        # simple statement (incl. nested def/class, expr, assign, assert, ...)
        if isinstance(s, ast.Assert):
            self._edge(s, self.raise_exit, "assert")
        return [(None, s)]

    # -- queries ---------------------------------------------------------------
    def reachable(self, start=None, blocked=lambda n: False, blocked_edge=lambda a, lbl, b: False):
        start = start or self.entry
        seen = {start}
        dq = deque([start])
        prev = {}
        while dq:
            n = dq.popleft()
            for lbl, m in self.succ[n]:
                if m in seen or blocked(m) or blocked_edge(n, lbl, m):
                    continue
                seen.add(m)
                prev[m] = n
                dq.append(m)
        return seen, prev

    def path_avoiding(self, target, blocked=lambda n: False, blocked_edge=lambda a, lbl, b: False, start=None):
        """A path start..target that touches no blocked node/edge, or None.

        ``None`` means *every* path to ``target`` passes through a blocked
        node or edge (must-pass-through holds)."""
        start = start or self.entry
        if blocked(start):
            return None
        seen, prev = self.reachable(start, blocked, blocked_edge)
        if target not in seen:
            return None
        path = [target]
        while path[-1] is not start:
            path.append(prev[path[-1]])
        return list(reversed(path))

    def stmts(self):
        return [n for n in self.nodes if isinstance(n, ast.stmt)]

    def guards(self, stmt, with_kind=False):
        """Structural guard chain of ``stmt``: [(test expr, polarity)] from the
        enclosing ``if``/``while`` headers, innermost last, *plus* early-exit
        guards: a preceding sibling ``if c: <always leaves>`` contributes
        ``(c, False)``.  With ``with_kind`` the entries are triples whose third
        element is ``"enclosing"`` or ``"early"``."""
        out = []
        cur = stmt
        while cur in self.parent:
            par, fld, lbl = self.parent[cur]
            # early exits among preceding siblings
            sibs = self._siblings(cur, par, fld)
            for sib in sibs:
                if sib is cur:
                    break
                if isinstance(sib, ast.If) and self._always_leaves(sib.body) and not sib.orelse:
                    out.append((sib.test, False, "early"))
                elif isinstance(sib, ast.If) and sib.orelse and self._always_leaves(sib.orelse) and not self._always_leaves(sib.body):
                    out.append((sib.test, True, "early"))
            if par is None:
                break
            if isinstance(par, (ast.If, ast.While)) and fld in ("body", "orelse"):
                out.append((par.test, True if fld == "body" else False, "enclosing"))
            cur = par
        out = list(reversed(out))
        return out if with_kind else [(t, p) for t, p, _k in out]

    def _siblings(self, stmt, par, fld):
        if par is None:
            return self.func.body
        if fld == "body":
            return par.body
        if fld == "orelse":
            return par.orelse
        if fld == "finalbody":
            return par.finalbody
        if fld == "handler":
            for h in par.handlers:
                if stmt in h.body:
                    return h.body
            return []
        if fld == "case":
            for c in par.cases:
                if stmt in c.body:
                    return c.body
        return []

    @staticmethod
    def _always_leaves(stmts):
        """Conservative: the block's last statement is return/raise/continue/break,
        or an if/else whose both arms always leave."""
        if not stmts:
            return False
        last = stmts[-1]
        if isinstance(last, (ast.Return, ast.Raise, ast.Continue, ast.Break)):
            return True
        if isinstance(last, ast.If) and last.orelse:
            return CFG._always_leaves(last.body) and CFG._always_leaves(last.orelse)
        return False

    def enclosing(self, stmt):
        """Chain of enclosing compound statements, outermost first."""
        out = []
        cur = stmt
        while cur in self.parent and self.parent[cur][0] is not None:
            cur = self.parent[cur][0]
            out.append(cur)
        return list(reversed(out))


def stmt_of(cfg: CFG, node):
    """The CFG statement that contains expression ``node`` (by position)."""
    best = None
    for s in cfg.stmts():
        if not hasattr(s, "lineno"):
            continue
        # header-only containment for compound statements
        for sub in header_nodes(s):
            if sub is node:
                return s
    return best


def header_nodes(stmt):
    """All ast nodes evaluated *by this CFG node itself* (for compound statements
    only the header expressions, not the nested blocks)."""
    if isinstance(stmt, (ast.If, ast.While)):
        yield from ast.walk(stmt.test)
    elif isinstance(stmt, (ast.For, ast.AsyncFor)):
        yield from ast.walk(stmt.target)
        yield from ast.walk(stmt.iter)
    elif isinstance(stmt, (ast.With, ast.AsyncWith)):
        for it in stmt.items:
            yield from ast.walk(it)
    elif isinstance(stmt, ast.Try) or type(stmt).__name__ == "TryStar":
        return
    elif isinstance(stmt, ast.Match):
        yield from ast.walk(stmt.subject)
    elif isinstance(stmt, (ast.FunctionDef, ast.AsyncFunctionDef, ast.ClassDef)):
        for d in stmt.decorator_list:
            yield from ast.walk(d)
    elif isinstance(stmt, ast.stmt):
        yield from ast.walk(stmt)


def build_index(cfg: CFG):
    """Map id(ast node) -> owning CFG statement for every header node."""
    idx = {}
    for s in cfg.stmts():
        for n in header_nodes(s):
            idx.setdefault(id(n), s)
    return idx

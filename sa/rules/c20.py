"""C20 - the layout a block_info / block_id consumer saw is the layout it gets."""

from __future__ import annotations

import ast

from ..dataflow import Defs
from ..model import FuncInfo, body_walk, const_value, dotted, full_walk, idents_in, norm, unparse
from ..report import RuleResult
from .common import callgraph, cfg_index, cfg_of, need, site
from .layout import check_pinned, layout_sources, payload_classes, payload_sites

PROP = "C20"

EXPLANATION = (
    "Decides the structural contract of C20. R20.1 in map_blocks the array inputs are wrapped in ChunksFreeze under a test "
    "that mentions has_keyword(func, K) for every payload keyword K (block_id, block_info) for which a per-block payload "
    "is built, the wrapping condition admits no extra narrowing conjunct, it pins exactly the advertised chunks "
    "(a.expr, a.chunks) and it dominates the computation of the blockwise arguments; R20.2 ChunksFreeze is inert (defines "
    "no rewrite hook, is not rechunk-pushdown capable, no rewrite hook of another class matches on it) and R20.3 it "
    "restores the frozen layout at lowering (= C03 R03.2); R20.4 every pushdown gate returns None or the result of "
    "_preserve_grid_contract, which declines for Blockwise selves and for results whose chunks differ when a "
    "grid-sensitive dependent exists; R20.5 the pushdown entry points (_accept_slice/_accept_shuffle/Rechunk._pushdown*/ "
    "_accept_rechunk) are called only by their gates, and every _simplify_up override dispatches to a gate; R20.6 "
    "un-aligned plain Blockwise and MapBlocksOutput declare grid sensitivity and map_blocks builds its blockwise nodes "
    "with align_arrays=False; R20.7 every per-block payload object (ArrayBlockwiseDep subclasses) is built from the chunks "
    "of a layout-pinned array. The arithmetic inside the payload dictionaries is not decided."
)
ASSUMPTIONS = [
    "dask's simplify framework calls _simplify_up/_simplify_down hooks only (no other rewrite entry point)",
    "a rechunk to the frozen chunks yields blocks of exactly that layout (C14, not decided)",
]
TRUSTED = ["CPython ast", "sa.cfg must-pass / guard chains", "sa.dataflow", "sa.callgraph"]

PAYLOAD_KEYWORDS_EXEMPT = {"_overlap_trim_info": "internal to map_overlap: built over the un-aligned Blockwise it has just created; the trim function only receives (block_id, numblocks) of that very node"}
HOOKS = ("_simplify_down", "_simplify_up", "_accept_slice", "_accept_shuffle", "_accept_rechunk", "_lower")
R207_EXEMPT = {
    ("dask_array/_map_blocks.py::map_blocks", "out"): "`out` is the un-aligned Blockwise map_blocks has just built over its (frozen, R20.1) inputs; the payload describes that node's own grid, which _requires_grid_preservation protects (R20.6)",
}


def _has_keyword_keys(test):
    """keyword names K for which the expression contains has_keyword(func, 'K')."""
    out = set()
    for n in ast.walk(test):
        if isinstance(n, ast.Call) and (dotted(n.func) or "").endswith("has_keyword") and len(n.args) == 2:
            v = const_value(n.args[1])
            if isinstance(v, str):
                out.add(v)
    return out


def _top_disjuncts(test):
    if isinstance(test, ast.BoolOp) and isinstance(test.op, ast.Or):
        return list(test.values)
    return [test]


def r20_1(ctx):
    rr = RuleResult("R20.1", "GUARD", "map_blocks freezes every array input under the same has_keyword tests as the payloads, before building the blockwise arguments", min_instances=4)
    repo = ctx.repo
    f = repo.mod("dask_array._map_blocks").func("map_blocks")
    cfg = cfg_of(ctx, f)
    idx = cfg_index(ctx, f)
    pay = payload_classes(repo)
    # payload keywords
    needed = {}
    for n in body_walk(f.node):
        if isinstance(n, ast.Call) and (dotted(n.func) or "").rsplit(".", 1)[-1] in pay:
            stmt = idx.get(id(n))
            ks = set()
            for t, pol in cfg.guards(stmt):
                if pol:
                    ks |= _has_keyword_keys(t)
            for k in ks:
                needed.setdefault(k, stmt)
    need(needed, "map_blocks no longer builds payloads under has_keyword(func, ...)")
    # the freeze statement: a rebinding of the argument list whose elements are wrapped in ChunksFreeze, either inline
    # (``[Array(ChunksFreeze(a.expr, a.chunks)) if <isinstance tests> else a for a in args]``) or through a same-module
    # helper (``[_freeze(a) for a in args]``)
    m = f.module

    def freeze_helper(call):
        if isinstance(call, ast.Call) and isinstance(call.func, ast.Name) and len(call.args) == 1 and not call.keywords:
            g = m.functions.get(call.func.id)
            if g is not None and g.cls is None and any(isinstance(c, ast.Call) and dotted(c.func) == "ChunksFreeze" for c in ast.walk(g.node)):
                return g
        return None

    freeze = None
    for s_ in cfg.stmts():
        if isinstance(s_, ast.Assign) and (any(isinstance(c, ast.Call) and dotted(c.func) == "ChunksFreeze" for c in ast.walk(s_.value)) or any(freeze_helper(c) for c in ast.walk(s_.value))):
            freeze = s_
    if freeze is None:
        rr.inst(f.construct + "::freeze", present=False)
        ctx.finding(rr, f.construct + "::freeze", "map_blocks no longer wraps its inputs in ChunksFreeze before building per-block payloads: a block_info/block_id consumer is told about a layout that optimization is free to change", func=f)
        return rr
    target = unparse(freeze.targets[0])
    guards = cfg.guards(freeze)
    covered = set()
    for t, pol in guards:
        if pol:
            for d in _top_disjuncts(t):
                ks = _has_keyword_keys(d)
                if len(ks) == 1 and isinstance(d, ast.Call):
                    covered |= ks
    rr.inst(site(f, freeze)[:150], freeze_guard_keywords=sorted(covered), payload_keywords=sorted(needed))
    for k, stmt in sorted(needed.items()):
        c = f"{f.construct}::payload keyword {k}"
        rr.inst(c, built_at=norm(stmt)[:100])
        if k in PAYLOAD_KEYWORDS_EXEMPT:
            rr.exempt(c, PAYLOAD_KEYWORDS_EXEMPT[k])
            continue
        if k not in covered:
            ctx.finding(rr, c, f"a per-block payload is built when func accepts {k!r}, but the input-freezing test does not mention has_keyword(func, {k!r}): inputs of such calls are not layout-pinned", func=f, node=freeze)
    # shape of the wrapping: every Array input becomes ChunksFreeze(a.expr, a.chunks); the only inputs passed through
    # unchanged are those that fail an isinstance test (non-arrays, already frozen expressions)
    comp = freeze.value
    ok_shape = isinstance(comp, ast.ListComp) and len(comp.generators) == 1
    if ok_shape:
        var = unparse(comp.generators[0].target)
        elt = comp.elt
        wrap_args, conds = None, []
        helper = freeze_helper(elt)
        if isinstance(elt, ast.IfExp):
            calls = [c for c in ast.walk(elt.body) if isinstance(c, ast.Call) and dotted(c.func) == "ChunksFreeze"]
            wrap_args = [unparse(a) for a in calls[0].args] if calls else None
            conds = [("wrap-if", cj) for cj in (elt.test.values if isinstance(elt.test, ast.BoolOp) and isinstance(elt.test.op, ast.And) else [elt.test])]
            if unparse(elt.orelse) != var:
                ctx.finding(rr, site(f, freeze)[:150], f"inputs that are not wrapped are replaced by {unparse(elt.orelse)} instead of being passed through", func=f, node=freeze)
        elif helper is not None and unparse(elt.args[0]) == var:
            hv = helper.params[0]
            hcfg = cfg_of(ctx, helper)
            for r in hcfg.returns:
                calls = [c for c in ast.walk(r.value) if isinstance(c, ast.Call) and dotted(c.func) == "ChunksFreeze"] if r.value is not None else []
                if calls:
                    wrap_args = [unparse(a).replace(hv + ".", var + ".") for a in calls[0].args]
                elif r.value is not None and unparse(r.value) == hv:
                    # passed through unchanged under these conditions (each must be an isinstance test)
                    for t, pol in hcfg.guards(r):
                        if r in [x for x in ast.walk(hcfg.func)]:
                            pass
                    own = [(t, pol) for t, pol, kind in hcfg.guards(r, with_kind=True) if kind == "enclosing"]
                    for t, pol in own:
                        conds.append(("pass-if", t))
                else:
                    ctx.finding(rr, site(helper, r)[:150], f"the freeze helper returns {unparse(r.value) if r.value is not None else None}: neither the frozen array nor the unchanged argument", func=helper, node=r)
        else:
            ok_shape = False
        if ok_shape:
            if wrap_args != [f"{var}.expr", f"{var}.chunks"]:
                ctx.finding(rr, site(f, freeze)[:150], f"the freeze does not pin the advertised layout: expected ChunksFreeze({var}.expr, {var}.chunks), found {wrap_args}", func=f, node=freeze)
            for kind, cj in conds:
                t = cj
                while isinstance(t, ast.UnaryOp) and isinstance(t.op, ast.Not):
                    t = t.operand
                if not (isinstance(t, ast.Call) and dotted(t.func) == "isinstance"):
                    ctx.finding(rr, f"{f.construct}::freeze condition {unparse(cj)}", f"the wrapping condition is narrowed by `{unparse(cj)}`: some array inputs of a block_info/block_id consumer are left unpinned", func=f, node=freeze)
            if comp.generators[0].ifs:
                ctx.finding(rr, f"{f.construct}::freeze comprehension filter", "the freeze comprehension filters its inputs: arguments are dropped or left unpinned", func=f, node=freeze)
            if unparse(comp.generators[0].iter) != target:
                ctx.finding(rr, site(f, freeze)[:150], f"the frozen list is built from {unparse(comp.generators[0].iter)} but bound to {target}", func=f, node=freeze)
    if not ok_shape:
        ctx.finding(rr, site(f, freeze)[:150], "unrecognised shape of the freeze statement (expected a list comprehension over args that wraps each element in ChunksFreeze, inline or through a same-module helper)", func=f, node=freeze)
    # ordering: the freeze (or the negative branch of its test) precedes every use of the arguments
    users = [s for s in cfg.stmts() if isinstance(s, ast.Assign) and s is not freeze and target in {n.id for n in ast.walk(s.value) if isinstance(n, ast.Name)}]
    need(users, "no statement derives the blockwise arguments from `args`")
    freeze_if = cfg.parent[freeze][0]
    for u in users:
        c = site(f, u)[:150]
        rr.inst(c, derives_from=target)
        p = cfg.path_avoiding(u, blocked=lambda n: n is freeze, blocked_edge=lambda a, lbl, b: a is freeze_if and lbl is False)
        if p is not None:
            ctx.finding(rr, c, "the blockwise arguments are derived from the inputs before they are frozen", func=f, node=u)
    return rr


def r20_2(ctx):
    rr = RuleResult("R20.2", "COVER", "ChunksFreeze is inert: no rewrite hook, no rechunk pushdown, and no rewrite hook of another class matches on it", min_instances=4)
    repo = ctx.repo
    cf = repo.mod("dask_array._expr").cls("ChunksFreeze")
    for h in HOOKS + ("_pushdown",):
        present = h in cf.methods
        rr.inst(f"{cf.construct}::{h}", defined=present)
        if present:
            ctx.finding(rr, f"{cf.construct}::{h}", f"ChunksFreeze defines {h}: the barrier would rewrite itself or let a pattern cross it during simplify", func=cf.methods[h])
    flag = repo.class_attr(cf, "_can_rechunk_pushdown")
    if flag is not None and not isinstance(flag[1], FuncInfo) and const_value(flag[1]) is True:
        ctx.finding(rr, f"{cf.construct}::_can_rechunk_pushdown", "ChunksFreeze opts into rechunk pushdown", file=cf.module.path, line=cf.node.lineno)
    allowed_refs = {
        "dask_array._map_blocks:map_blocks": "constructs the barrier and skips already-frozen inputs",
        "dask_array._collection:Array.freeze_chunks": "constructs the barrier / idempotence test",
        "dask_array.stacking._concatenate:Concatenate._lower": "freezes inputs of the lowered concatenate",
        "dask_array.stacking._stack:Stack._lower": "freezes inputs of the lowered stack",
    }
    for m in repo.units:
        for f in m.functions.values():
            if f.parent is not None:
                continue
            refs = [n for n in full_walk(f.node) if isinstance(n, ast.Name) and n.id == "ChunksFreeze"]
            if not refs:
                continue
            if f.cls is cf:
                continue
            constructs = any(isinstance(n, ast.Call) and dotted(n.func) == "ChunksFreeze" for n in full_walk(f.node))
            callee_ids = {id(n.func) for n in full_walk(f.node) if isinstance(n, ast.Call)}
            tests = [n for n in refs if id(n) not in callee_ids]  # mentioned other than as the constructor being called
            is_hook = f.name in ("_simplify_down", "_simplify_up", "_lower", "lower_once", "fuse", "_fuse") or f.name.startswith(("_accept_", "_pushdown", "_slice_pushdown", "_rechunk_pushdown", "_shuffle_pushdown")) or f.name in ("optimize_blockwise_fusion_array", "_remove_conflicting_exprs", "_symbolic_mapping", "is_fusable_blockwise")
            rr.inst(site(f), refs=len(refs), constructs=constructs, tests=len(tests), rewrite_hook=is_hook)
            if f.fq in allowed_refs:
                rr.exempt(site(f), allowed_refs[f.fq])
                continue
            if is_hook:
                ctx.finding(rr, site(f), "a rewrite hook names ChunksFreeze: a rewrite that recognises the barrier can move a pattern across it (or rebuild it elsewhere)", func=f, node=refs[0])
            elif tests and not constructs:
                ctx.finding(rr, site(f), "code that does not build the barrier tests for ChunksFreeze: the only sanctioned test is the 'already frozen?' guard next to a construction", func=f, node=tests[0])
    return rr


def r20_3(ctx):
    from .c03 import r03_2

    rr = r03_2(ctx)
    rr.rule = "R20.3"
    for fd in rr.findings:
        fd.rule, fd.prop = "R20.3", PROP
    return rr


def r20_4(ctx):
    rr = RuleResult("R20.4", "PASS", "each pushdown gate returns None or the value that went through _preserve_grid_contract; the contract declines for Blockwise selves and changed chunks", min_instances=4)
    repo = ctx.repo
    ae = repo.mod("dask_array._expr").cls("ArrayExpr")
    for g in ("_slice_pushdown", "_rechunk_pushdown", "_shuffle_pushdown"):
        f = ae.methods.get(g)
        need(f is not None, f"ArrayExpr.{g}")
        cfg = cfg_of(ctx, f)
        gate_stmts = [s for s in cfg.stmts() if isinstance(s, ast.Assign) and isinstance(s.value, ast.Call) and unparse(s.value.func) == "self._preserve_grid_contract"]
        rr.inst(site(f), gate_assignments=len(gate_stmts))
        if not gate_stmts:
            ctx.finding(rr, site(f), f"{g} no longer passes its result through _preserve_grid_contract", func=f)
            continue
        gated = {unparse(s.targets[0]) for s in gate_stmts}
        for s in gate_stmts:
            a = [unparse(x) for x in s.value.args]
            # two-step form: ``r = <rewrite>; r = gate(parent, r, dependents)`` - the gated value must be the returned
            # variable; one-step form: ``r = gate(parent, <rewrite expression>, dependents)`` - any expression
            # what is gated must be the rewrite's own result: the expression (or every non-gate definition of the
            # variable) calls this gate's pushdown entry point
            entry = {v: k for k, v in GATE_OF.items()}[g]

            def from_entry(e):
                return any(isinstance(x, ast.Call) and isinstance(x.func, ast.Attribute) and x.func.attr == entry for x in ast.walk(e))

            ok = len(a) >= 3
            if ok:
                e = s.value.args[1]
                if isinstance(e, ast.Name):
                    ds = [d.value for d in cfg.stmts() if isinstance(d, ast.Assign) and d not in gate_stmts and any(unparse(t) == e.id for t in d.targets)]
                    ok = bool(ds) and all(from_entry(d) for d in ds)
                else:
                    ok = from_entry(e)
            if not ok:
                ctx.finding(rr, site(f, s), f"_preserve_grid_contract is applied to {a[1] if len(a) > 1 else '?'}, which is not the result of {entry}()", func=f, node=s)
        for r in cfg.returns:
            v = unparse(r.value) if r.value is not None else "None"
            if v == "None":
                continue
            c = site(f, r)
            if v not in gated:
                ctx.finding(rr, c, f"{g} returns {v}, which did not go through _preserve_grid_contract", func=f, node=r)
                continue
            p = cfg.path_avoiding(r, blocked=lambda n: n in gate_stmts)
            if p is not None:
                ctx.finding(rr, c, f"a path returns {v} without passing _preserve_grid_contract", func=f, node=r)
            # nothing may rebind the value between the gate and the return
            for gs in gate_stmts:
                seen, _ = cfg.reachable(gs)
                for s in cfg.stmts():
                    if s in seen and s is not gs and isinstance(s, ast.Assign) and any(unparse(t) == v for t in s.targets) and s not in gate_stmts:
                        ctx.finding(rr, site(f, s), f"{v} is rebound after the grid-contract gate", func=f, node=s)
    pg = ae.methods.get("_preserve_grid_contract")
    need(pg is not None, "ArrayExpr._preserve_grid_contract")
    cfg = cfg_of(ctx, pg)
    declines = {"blockwise": False, "chunks": False, "early": False}
    for r in cfg.returns:
        v = unparse(r.value) if r.value is not None else "None"
        g = cfg.guards(r)
        if v == "None" and any(pol and "isinstance" in idents_in(t) and "Blockwise" in idents_in(t) for t, pol in g):
            declines["blockwise"] = True
        if v == "None" and any(pol and "chunks" in idents_in(t) and any(isinstance(x, ast.NotEq) for x in ast.walk(t)) for t, pol in g):
            declines["chunks"] = True
        if v != "None" and any("_has_grid_sensitive_dependent" in idents_in(t) for t, pol in g):
            declines["early"] = True
    rr.inst(site(pg), **declines)
    if not declines["blockwise"]:
        ctx.finding(rr, f"{pg.construct}::decline for Blockwise self", "_preserve_grid_contract no longer declines when self is a Blockwise (nested rewrites could refine its inputs under a grid-sensitive parent)", func=pg)
    if not declines["chunks"]:
        ctx.finding(rr, f"{pg.construct}::decline on changed chunks", "_preserve_grid_contract no longer declines when the rewrite's chunks differ from the parent's", func=pg)
    if not declines["early"]:
        ctx.finding(rr, f"{pg.construct}::sensitivity test", "_preserve_grid_contract no longer consults _has_grid_sensitive_dependent", func=pg)
    # every return of a non-None value other than `result` unchanged is suspicious
    for r in cfg.returns:
        v = unparse(r.value) if r.value is not None else "None"
        if v not in ("None", "result"):
            ctx.finding(rr, site(pg, r), f"_preserve_grid_contract returns {v}", func=pg, node=r)
    return rr


GATE_OF = {"_accept_slice": "_slice_pushdown", "_accept_shuffle": "_shuffle_pushdown", "_pushdown": "_rechunk_pushdown"}


def r20_5(ctx):
    rr = RuleResult("R20.5", "WHO", "pushdown entry points are called only from their gates; every _simplify_up override dispatches to a gate", min_instances=35)
    repo = ctx.repo
    rech = repo.mod("dask_array._rechunk").cls("Rechunk")
    for m in repo.units:
        for f in m.functions.values():
            for n in body_walk(f.node):
                if not (isinstance(n, ast.Call) and isinstance(n.func, ast.Attribute)):
                    continue
                a = n.func.attr
                recv = unparse(n.func.value)
                c = site(f, n)[:170]
                if a in ("_accept_slice", "_accept_shuffle"):
                    rr.inst(c, callee=a)
                    ok = f.name == GATE_OF[a] or (recv == "super()" and f.name == a)
                    if not ok:
                        ctx.finding(rr, c, f"{a} is called from {f.qualname}, bypassing the gate {GATE_OF[a]} (multi-consumer check, block-culling check and the grid contract are skipped)", func=f, node=n)
                elif a == "_pushdown" and "rechunk" in recv.lower():
                    rr.inst(c, callee=a)
                    if f.name != "_rechunk_pushdown":
                        ctx.finding(rr, c, f"Rechunk._pushdown is called from {f.qualname}, bypassing _rechunk_pushdown", func=f, node=n)
                elif a.startswith("_pushdown_") and f.cls is not None and rech in repo.mro(f.cls) and a in rech.methods:
                    rr.inst(c, callee=a)
                    if f.name not in ("_pushdown", "_lower") or not (f.cls is rech or rech in repo.mro(f.cls)):
                        ctx.finding(rr, c, f"Rechunk.{a} is called from {f.qualname} (only Rechunk._pushdown and the documented Rechunk._lower may)", func=f, node=n)
                elif a == "_accept_rechunk":
                    rr.inst(c, callee=a)
                    if f.fq not in ("dask_array._rechunk:Rechunk._pushdown_into_io", "dask_array._rechunk:Rechunk._pushdown_through_concatenate") and not (recv == "super()" and f.name == a):
                        ctx.finding(rr, c, f"_accept_rechunk is called from {f.qualname}", func=f, node=n)
    nover = 0
    for c in repo.expr_classes():
        f = c.methods.get("_simplify_up")
        if f is None:
            continue
        nover += 1
        for r in [n for n in body_walk(f.node) if isinstance(n, ast.Return) and n.value is not None]:
            v = r.value
            if isinstance(v, ast.Constant) and v.value is None:
                continue
            cst = site(f, r)[:170]
            callee = unparse(v.func) if isinstance(v, ast.Call) else unparse(v)
            rr.inst(cst, dispatch=callee)
            if callee in ("self._slice_pushdown", "self._rechunk_pushdown", "self._shuffle_pushdown", "super()._simplify_up"):
                args = [unparse(a) for a in v.args]
                if callee != "super()._simplify_up" and args[:2] != [f.params[1], f.params[2]]:
                    ctx.finding(rr, cst, f"gate called with {args}, not (parent, dependents)", func=f, node=r)
                continue
            # a rewrite that is not a pushdown (SlidingWindowView fuses its reduction parent into the native kernels) builds its
            # replacement itself; it may hand it back only under the grid contract: the return is controlled by a condition that
            # consults _has_grid_sensitive_dependent / _preserve_grid_contract
            from .common import chain_conjuncts

            conj = chain_conjuncts(cfg_of(ctx, f), r, f.node, f.module)
            guarded = any("_has_grid_sensitive_dependent" in x or "_preserve_grid_contract" in x for x in conj) or "_preserve_grid_contract" in callee
            if not guarded and isinstance(v, ast.Call) and isinstance(v.func, ast.Attribute) and isinstance(v.func.value, ast.Name) and v.func.value.id == "self":
                # ``return self._unless_grid_observed(parent, dependents, fused)``: a method of the class that consults the
                # contract and can answer None
                hit = repo.class_attr(c, v.func.attr)
                if hit and hasattr(hit[1], "node"):
                    h = hit[1]
                    consults = any(isinstance(x, ast.Attribute) and x.attr in ("_has_grid_sensitive_dependent", "_preserve_grid_contract") for x in ast.walk(h.node))
                    declines = any(isinstance(x, ast.Return) and (x.value is None or (isinstance(x.value, ast.Constant) and x.value.value is None)) for x in ast.walk(h.node))
                    passes_deps = any(unparse(a) == f.params[2] for a in v.args) and any(unparse(a) == f.params[1] for a in v.args)
                    guarded = consults and declines and passes_deps
            rr.inst(cst + "::grid contract", consulted=guarded)
            if guarded:
                continue
            ctx.finding(rr, cst, f"{c.name}._simplify_up returns {callee} - a replacement it built itself - without consulting the grid contract (_has_grid_sensitive_dependent / a pushdown gate): "
                        "if the replacement runs on another block grid than the parent advertised, a consumer above that holds a per-block literal (map_blocks(chunks=...), repeat, .blocks) raises or reads other blocks", func=f, node=r)
    need(nover >= 10, "fewer than 10 _simplify_up overrides found")
    return rr


def r20_6(ctx):
    rr = RuleResult("R20.6", "COVER", "grid sensitivity is declared by un-aligned plain Blockwise, by a plain Blockwise holding a per-block adjust_chunks tuple, by MapBlocksOutput and by Blocks; map_blocks builds un-aligned blockwise nodes", min_instances=5)
    repo = ctx.repo
    bw = repo.mod("dask_array._blockwise").cls("Blockwise")
    f = bw.methods.get("_requires_grid_preservation")
    need(f is not None, "Blockwise._requires_grid_preservation")
    rets = [unparse(n.value) for n in body_walk(f.node) if isinstance(n, ast.Return)]
    rr.inst(site(f), returns=rets)
    # conditions under which the method answers True: the guard chain of each ``return`` (early exits unified, locals
    # looked through) plus, for ``return <expr>``, the conjuncts of the expression itself
    from ..cfg import CFG
    from ..dataflow import Defs
    from ..refguards import _conjuncts, _inline, _nnf
    from .common import chain_conjuncts

    cfg = CFG(f.node)
    fdefs = Defs(f.node)
    truth_paths = []
    for st in cfg.stmts():
        if not isinstance(st, ast.Return) or st.value is None:
            continue
        if isinstance(st.value, ast.Constant) and not st.value.value:
            continue
        conj = set(chain_conjuncts(cfg, st, f.node, f.module))
        # a ``return True`` inside ``for v in <iterable>: if test(v): return True`` is ``any(test(v) for v in <iterable>)``:
        # the iterable belongs to the condition
        for outer in cfg.enclosing(st):
            if isinstance(outer, ast.For):
                conj.add("for-in " + unparse(_inline(outer.iter, fdefs, module=f.module)))
        if isinstance(st.value, ast.Constant) and st.value.value is True:
            truth_paths.append(conj)
            continue
        # ``return A and (B or C)`` answers True on the paths {A, B} and {A, C}
        import itertools

        from ..refguards import _disjuncts

        choices = []
        for lit in _conjuncts(_nnf(_inline(st.value, fdefs, module=f.module), True)):
            alts = []
            for dj in _disjuncts(lit):
                parts = set()
                for sub in _conjuncts(dj):
                    ast.fix_missing_locations(sub)
                    parts.add(unparse(sub))
                alts.append(parts)
            choices.append(alts)
        for combo in itertools.islice(itertools.product(*choices), 64):
            path = set(conj)
            for parts in combo:
                path |= parts
            truth_paths.append(path)
    # a plain Blockwise observes its inputs' grid (a) when it is not aligned at lowering (map_blocks: block_info payloads)
    # and (b) when adjust_chunks holds a per-block tuple - a literal with one entry per INPUT block
    consults_alignment = any("type(self) is Blockwise" in cj and any("align_arrays" in c and c.startswith("not ") for c in cj) for cj in truth_paths)
    literal_paths = [cj for cj in truth_paths if "adjust_chunks" in " ".join(sorted(cj)) and any(("tuple" in c or "list" in c) and "isinstance" in c for c in cj)]
    consults_literal = bool(literal_paths)
    # subclasses of Blockwise carry per-block tuples too (sliding_window_view builds one per axis): the clause must not be
    # confined to a plain Blockwise
    literal_for_subclasses = any(not any("type(self) is Blockwise" in c for c in cj) for cj in literal_paths)
    if not consults_alignment:
        ctx.finding(rr, site(f), f"Blockwise._requires_grid_preservation returns {rets}; it no longer declares an un-aligned plain Blockwise grid sensitive (`type(self) is Blockwise and not self.align_arrays`)", func=f)
    c2 = site(f) + "::per-block adjust_chunks tuple"
    rr.inst(c2, consulted=consults_literal, also_for_subclasses=literal_for_subclasses)
    if consults_literal and not literal_for_subclasses:
        ctx.finding(
            rr, c2 + " (subclasses)",
            "the per-block adjust_chunks clause of Blockwise._requires_grid_preservation is confined to `type(self) is Blockwise`, but subclasses carry per-block tuples as well: "
            "sliding_window_view builds a SlidingWindowView with one tuple per axis, and nanmax(sliding_window_view(s1, 6, axis=0), axis=-1)[::-1, ::-1] over a rolling sum s1 raised "
            "'Dimension 1 has 4 blocks, adjust_chunks specified with 7 blocks'",
            func=f,
        )
    if not consults_literal:
        ctx.finding(
            rr, c2,
            "Blockwise._requires_grid_preservation does not look at adjust_chunks: a per-block tuple there has one entry per input block, so the node observes its input's grid even when "
            "align_arrays is true (the public blockwise() default) - da.blockwise(f, 'i', s, 'i', adjust_chunks={'i': tuple(2 * c for c in s.chunks[0])}) over a sliding-window "
            "reduction s raised 'Dimension 0 has 4 blocks, adjust_chunks specified with 2 blocks' while being optimized",
            func=f,
        )
    mbo = repo.mod("dask_array._map_blocks").cls("MapBlocksOutput")
    g = mbo.methods.get("_requires_grid_preservation")
    rr.inst(f"{mbo.construct}::_requires_grid_preservation", defined=g is not None)
    if g is None or [unparse(n.value) for n in body_walk(g.node) if isinstance(n, ast.Return)] != ["True"]:
        ctx.finding(rr, f"{mbo.construct}::_requires_grid_preservation", "MapBlocksOutput no longer declares itself grid sensitive", file=mbo.module.path, line=mbo.node.lineno)
    # x.blocks[...] addresses blocks of the advertised grid by position
    blk = repo.mod("dask_array.slicing._blocks").cls("Blocks")
    gb = repo.class_attr(blk, "_requires_grid_preservation")
    own = gb is not None and gb[0] is blk
    rr.inst(f"{blk.construct}::_requires_grid_preservation", defined=own)
    if not own or [unparse(n.value) for n in body_walk(gb[1].node) if isinstance(n, ast.Return)] != ["True"]:
        ctx.finding(rr, f"{blk.construct}::_requires_grid_preservation", "Blocks (x.blocks[...]) indexes its input's blocks by position but does not declare itself grid sensitive: a rewrite below may change the block grid and .blocks[i] then selects other data or raises", file=blk.module.path, line=blk.node.lineno)
    mb = repo.mod("dask_array._map_blocks").func("map_blocks")
    for n in body_walk(mb.node):
        if isinstance(n, ast.Call) and dotted(n.func) == "blockwise":
            kw = {k.arg: unparse(k.value) for k in n.keywords if k.arg}
            c = site(mb, n)[:120]
            rr.inst(c, align_arrays=kw.get("align_arrays"))
            if kw.get("align_arrays") != "False":
                ctx.finding(rr, c, "map_blocks builds an aligned blockwise: unification may rechunk its inputs away from the layout block_info describes, and the node is not grid sensitive", func=mb, node=n)
    hg = repo.mod("dask_array._expr").cls("ArrayExpr").methods.get("_has_grid_sensitive_dependent")
    need(hg is not None, "ArrayExpr._has_grid_sensitive_dependent")
    txt = unparse(hg.node)
    ok = "_requires_grid_preservation" in txt and "dependents.get(expr._name" in txt
    rr.inst(site(hg), consults="_requires_grid_preservation of every dependent" if ok else "?")
    if not ok:
        ctx.finding(rr, site(hg), "_has_grid_sensitive_dependent no longer asks every dependent of the expression for _requires_grid_preservation", func=hg)
    return rr


def r20_7(ctx, only=None, rule="R20.7", prop=PROP):
    rr = RuleResult(rule, "GUARD", "every per-block payload (ArrayBlockwiseDep subclass) is built from the chunks of a layout-pinned array", min_instances=1 if only else 5)
    for f, call, cname in payload_sites(ctx):
        if only and f.fq not in only:
            continue
        defs = Defs(f.node)
        srcs = layout_sources(call, defs)
        c = f"{f.construct}::{cname}({', '.join(unparse(a) for a in call.args)[:60]})"
        rr.inst(c, layout_sources=sorted(srcs))
        for x in sorted(srcs):
            if (f.construct, x) in R207_EXEMPT:
                rr.exempt(c, R207_EXEMPT[(f.construct, x)])
                continue
            w = check_pinned(ctx, f, call, x)
            if w is not None:
                fd = ctx.finding(
                    rr, c,
                    f"the per-block literal is computed from {x}.chunks, but {x} is not layout-pinned on every path (no {x} = {x}.freeze_chunks() / persist / _pinned before it): "
                    "optimization may hand the kernel blocks of a different layout than the literal describes",
                    func=f, node=call, path=w,
                )
                fd.prop = prop
    return rr


RULES = [r20_1, r20_2, r20_3, r20_4, r20_5, r20_6, r20_7]

LEVEL_TEXT = (
    "Static decision of the block_info layout contract: guard/dominance analysis of the freeze in map_blocks (same "
    "has_keyword tests as the payloads, no narrowing conjunct, before the arguments are derived), inertness and "
    "restoration of the ChunksFreeze barrier, must-pass-through of _preserve_grid_contract in the three pushdown gates, "
    "who-may-call on every pushdown entry point and dispatch check of all 17 _simplify_up overrides (27 dispatch sites), "
    "and the payload-layout rule over all ArrayBlockwiseDep construction sites. It quantifies over 'whatever rewrites "
    "optimization applies above or below the call' by covering every rewrite entry point. Payload arithmetic is not decided."
)
LEVEL_NOTE = (
    "Trusted: CPython ast, engine CFG/guards/def-use. Assumes dask's simplify framework reaches rewrites only through "
    "_simplify_up/_simplify_down and that a rechunk to the frozen chunks reproduces that layout. One reasoned exemption "
    "(_overlap_trim_info) and the sanctioned ChunksFreeze reference sites are frozen in sa/rules/c20.py."
)
TECHNIQUE = "static analysis: guard/dominance (CFG) on the freeze, who-may-call + dispatch coverage over rewrite hooks, payload-layout def-use rule (ast)"

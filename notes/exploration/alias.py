import numpy as np, dask_array as da, warnings
warnings.simplefilter('ignore')
def mk():
    return da.from_array(np.arange(1.0, 9.0), chunks=4)
rs = da.random.RandomState(0)
cases = {
 'add': lambda x: x+1,
 'slice': lambda x: x[2:6],
 'where': lambda x: da.where(x>2, x, 0),
 'choose': lambda x: da.choose(da.from_array(np.array([0,1]*4),chunks=4), [x, x*2]),
 'select': lambda x: da.select([x>3], [x], default=0),
 'piecewise': lambda x: da.piecewise(x, [x<3, x>=3], [lambda v: v, lambda v: -v]),
 'block': lambda x: da.block([x, x]),
 'concat': lambda x: da.concatenate([x, x]),
 'stack': lambda x: da.stack([x, x]),
 'mapblocks_kw': lambda x: da.map_blocks(lambda a, b=None: a+b, da.ones(8, chunks=4), b=x),
 'mapblocks_arg': lambda x: da.map_blocks(lambda a, b: a+b, da.ones(8, chunks=4), x),
 'random_gamma': lambda x: rs.gamma(x, size=8, chunks=4)*0 + x.sum(),   # placeholder
 'random_generic_arg': lambda x: rs.gamma(x, 1.0, size=(8,), chunks=4),
 'histogram': lambda x: da.histogram(x, bins=4, range=(0,10))[0],
 'einsum': lambda x: da.einsum('i,i->i', x, x),
 'tensordot': lambda x: da.tensordot(x, x, axes=1),
 'cumsum': lambda x: x.cumsum(axis=0),
 'reshape': lambda x: x.reshape(2,4),
 'vindex': lambda x: x.vindex[[0,3,5]],
 'boolmask': lambda x: x[x>2],
 'setitem_val': lambda x: (lambda y: (y.__setitem__(slice(0,2), x[:2]), y)[1])(da.zeros(8, chunks=4)),
 'isin': lambda x: da.isin(x, x[:2]),
 'searchsorted': lambda x: da.searchsorted(x, x[:3]),
 'apply_gufunc': lambda x: da.apply_gufunc(lambda a, b: a+b, '(),()->()', x, x, output_dtypes=float),
 'percentile': lambda x: da.percentile(x, [50]),
 'pad': lambda x: da.pad(x, 1, mode='constant'),
 'insert': lambda x: da.insert(x, 1, x[:1], axis=0),
 'average_w': lambda x: da.average(x, weights=x),
 'bincount_w': lambda x: da.bincount(da.from_array(np.array([0,1]*4),chunks=4), weights=x, minlength=2),
 'map_overlap': lambda x: da.map_overlap(lambda a,b: a+b, x, x, depth=1, boundary='reflect', dtype=float),
 'ufunc_out': lambda x: np.sin(x),
 'copy': lambda x: x.copy(),
 'persisted': lambda x: x.persist(),
 'optimize': lambda x: x.optimize(),
 'to_delayed_back': lambda x: da.from_delayed(x.to_delayed()[0], shape=(4,), dtype=float),
}
for k,f in cases.items():
    try:
        x = mk()
        d = f(x)
        before = np.asarray(d.compute()) if 'random' not in k else None
        nm = d.name
        x[0] = 100.0
        x[5:7] = -5
        after = np.asarray(d.compute()) if 'random' not in k else None
        if 'random' in k:
            a1 = np.asarray(d.compute()); 
            print(k, 'name-stable', nm==d.name)
            continue
        print(k, 'OK' if np.allclose(before, after, equal_nan=True) and nm==d.name else 'ALIASED!!')
    except Exception as e:
        print(k, 'ERR', type(e).__name__, str(e)[:100])

"""Witness for R11.8 / R03.10 (repaired in /repo 4b02b4d): x[idx] = <dask array with more than one block> computes the
NumPy result of the assignment.  Exit 0 when it does, 1 otherwise (before the repair: TypeError concatenate3() takes 1
positional argument but 2 were given, raised by the task ConcatenateArrayChunks._layer builds)."""
import sys

import numpy as np

import dask_array as da

bad = 0
for ch in [(2, 2), (4, 5), (2, 1), (1, 5)]:
    for vch in [1, 2, (4, 1)]:
        a = np.arange(20.0).reshape(4, 5)
        v = np.arange(4.0).reshape(4, 1) + 100
        d = da.from_array(a, chunks=ch)
        before = d[1:3]
        d[:, 0:1] = da.from_array(v, chunks=vch)
        e = a.copy()
        e[:, 0:1] = v
        try:
            if not (np.array_equal(d.compute(), e) and np.array_equal(before.compute(), a[1:3])):
                bad += 1
                print(ch, vch, "differs")
        except Exception as ex:  # noqa: BLE001
            bad += 1
            print(ch, vch, type(ex).__name__, str(ex)[:80])
a = np.arange(24.0).reshape(2, 3, 4)
v = np.arange(12.0).reshape(2, 3, 2)
d = da.from_array(a, chunks=(1, 2, 2))
d[:, :, 1:3] = da.from_array(v, chunks=(1, 1, 1))
e = a.copy()
e[:, :, 1:3] = v
try:
    bad += not np.array_equal(d.compute(), e)
except Exception as ex:  # noqa: BLE001
    bad += 1
    print("3-d", type(ex).__name__, str(ex)[:80])
sys.exit(1 if bad else 0)

import numpy as np, dask_array as da, warnings
warnings.simplefilter('ignore')
y = da.zeros(8, chunks=4)
idx = da.from_array(np.array([1, 2]), chunks=2)
y[idx] = 7.0
print([type(o).__name__ for o in y.expr.operands], type(y.expr).__name__)
print([type(k).__name__ for k in y.expr.operand('index')] if hasattr(y.expr,'index') else None)
b = y.compute(); nm=y.name
idx[0] = 5
a = y.compute()
print('setitem key aliasing:', 'OK' if np.allclose(a,b) else f'ALIASED {b} -> {a}', nm==y.name)

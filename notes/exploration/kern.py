import ast, os, collections
ROOT='/repo'; PKG='dask_array'
mods={}
for dp,dn,fns in os.walk(os.path.join(ROOT,PKG)):
    if '/tests' in dp: continue
    for f in fns:
        if f.endswith('.py'):
            p=os.path.join(dp,f); rel=os.path.relpath(p,ROOT)[:-3].replace('/','.')
            if rel.endswith('.__init__'): rel=rel[:-9]
            mods[rel]=(p, ast.parse(open(p).read()))
# top-level function defs per module
topfuncs={m:{n.name:n for n in t.body if isinstance(n,(ast.FunctionDef,))} for m,(p,t) in mods.items()}
# import alias maps per module (both top-level and nested imports, flattened)
def imports(m,t,p):
    ispkg=p.endswith('__init__.py'); amap={}
    for n in ast.walk(t):
        if isinstance(n,ast.ImportFrom):
            base=n.module or ''
            if n.level:
                parts=m.split('.')
                if not ispkg: parts=parts[:-1]
                parts=parts[:len(parts)-(n.level-1)]
                base='.'.join(parts+([n.module] if n.module else []))
            for a in n.names:
                amap[a.asname or a.name]=(base,a.name)
        elif isinstance(n,ast.Import):
            for a in n.names:
                amap[a.asname or a.name.split('.')[0]]=(a.name if a.asname else a.name.split('.')[0],None)
    return amap
def resolve_func(m, name, amap, depth=0):
    if name in topfuncs[m]: return (m,name)
    if name in amap and depth<5:
        base,attr=amap[name]
        if attr is None: return None
        if base in mods:
            if attr in topfuncs[base]: return (base,attr)
            # re-export
            p,t=mods[base]
            return resolve_func(base, attr, imports(base,t,p), depth+1)
        if base+'.'+attr in mods: return None
    return None
esc=collections.defaultdict(list)
for m,(p,t) in mods.items():
    amap=imports(m,t,p)
    callfuncs=set()
    for n in ast.walk(t):
        if isinstance(n,ast.Call): callfuncs.add(id(n.func))
    for n in ast.walk(t):
        if isinstance(n,ast.Name) and isinstance(n.ctx,ast.Load) and id(n) not in callfuncs:
            r=resolve_func(m,n.id,amap)
            if r: esc[r].append((m,n.lineno))
        elif isinstance(n,ast.Attribute) and isinstance(n.ctx,ast.Load) and id(n) not in callfuncs and isinstance(n.value,ast.Name):
            base=amap.get(n.value.id)
            if base and base[1] is None and base[0] in mods and n.attr in topfuncs[base[0]]:
                esc[(base[0],n.attr)].append((m,n.lineno))
            elif base and base[1] and (base[0]+'.'+base[1]) in mods and n.attr in topfuncs[base[0]+'.'+base[1]]:
                esc[(base[0]+'.'+base[1],n.attr)].append((m,n.lineno))
print(len(esc),'escaping top-level functions')
for k in sorted(esc): print(k[0].replace('dask_array.',''),k[1],len(esc[k]))

"""C05 - one materialization choke point behind every entry point."""

from __future__ import annotations

import ast

from ..dataflow import Defs
from ..model import body_walk, dotted, full_walk, idents_in, norm, unparse
from ..report import RuleResult
from .common import callgraph, need, site

PROP = "C05"

EXPLANATION = (
    "Decides the structural part of C05: every entry point of a collection draws its graph and keys from the same "
    "materialized expression. R05.1 Array.compute/persist hand dask the pinned collection (self._pinned(), which wraps "
    "self._lowered_expr); R05.2 _materialize is called only from the sanctioned choke points (Array._lowered_expr, "
    "ArrayExpr.__dask_graph__/_layer for dask's generic optimizer, from_graph for embedded dependencies) and the Frisky "
    "walks / to_delayed / __dask_graph__ read collection._lowered_expr; R05.3 __dask_postpersist__ rebuilds with "
    "from_graph passing self.chunks and self._name in the chunks/name positions (persisted and dask-optimized "
    "collections keep name and chunks); R05.4 to_delayed pairs __dask_keys__() with __dask_graph__() of the same "
    "collection; R05.5 Array.optimize() installs the optimized expression it returns as that collection's own lowered "
    "expression under a matching optimize-graph flag. Value agreement between entry points is not decided."
)
ASSUMPTIONS = [
    "DaskMethodsMixin.compute/persist schedule collection.__dask_graph__()/__dask_keys__() of the object they are given",
    "dask.optimize/dask.persist on a raw expression go through ArrayExpr.__dask_graph__ (pinned) - their legacy-graph conversion is outside the package",
]
TRUSTED = ["CPython ast", "sa.callgraph call sites", "sa.dataflow def-use"]


def _arr(ctx):
    return ctx.repo.mod("dask_array._collection").cls("Array")


def r05_1(ctx):
    rr = RuleResult("R05.1", "COVER", "Array.compute/persist delegate with self._pinned(); _pinned wraps self._lowered_expr", min_instances=3)
    arr = _arr(ctx)
    for meth in ("compute", "persist"):
        f = arr.methods.get(meth)
        need(f is not None, f"Array.{meth}")
        rets = [n for n in body_walk(f.node) if isinstance(n, ast.Return)]
        rr.inst(site(f), returns=[norm(r) for r in rets])
        for r in rets:
            v = r.value
            ok = isinstance(v, ast.Call) and unparse(v.func) == f"DaskMethodsMixin.{meth}" and v.args and unparse(v.args[0]) == "self._pinned()"
            if not ok:
                ctx.finding(rr, site(f, r), f"Array.{meth} does not hand the pinned collection to DaskMethodsMixin.{meth}: dask would re-derive keys from the raw expression", func=f, node=r)
        if not rets:
            ctx.finding(rr, site(f), f"Array.{meth} returns nothing", func=f)
    p = arr.methods.get("_pinned")
    need(p is not None, "Array._pinned")
    rets = [n for n in body_walk(p.node) if isinstance(n, ast.Return)]
    rr.inst(site(p), returns=[norm(r) for r in rets])
    for r in rets:
        if unparse(r.value) != "new_collection(self._lowered_expr)":
            ctx.finding(rr, site(p, r), "_pinned does not wrap self._lowered_expr", func=p, node=r)
    return rr


ALLOWED_MATERIALIZE_CALLERS = {
    "dask_array._collection:Array._lowered_expr": "the per-collection cache",
    "dask_array._expr:ArrayExpr.__dask_graph__": "pinned graph for dask's generic optimizer",
    "dask_array._expr:ArrayExpr._layer": "materialize-or-raise default layer",
    "dask_array.io._from_graph:from_graph": "dependencies of a rebuilt collection are embedded in materialized form",
}


def r05_2(ctx):
    rr = RuleResult("R05.2", "WHO", "_materialize is called only from the sanctioned choke points; Frisky walks and Array.__dask_graph__ read _lowered_expr", min_instances=6)
    repo = ctx.repo
    cg = callgraph(ctx)
    mat = repo.mod("dask_array._materialize").func("_materialize")
    for src, e in cg.callers(mat.fq, kinds=("call", "ref")):
        f = cg.funcs.get(src)
        c = f"{f.construct if f else src}::{norm(e.node)}"
        if e.kind == "ref" and isinstance(e.node, ast.Name):
            # the callee Name inside a Call is also recorded as a ref; skip those
            continue
        rr.inst(c, caller=src)
        if src not in ALLOWED_MATERIALIZE_CALLERS:
            ctx.finding(rr, c, f"_materialize called from {src}: a second materialization path can disagree with the collection's cached one", func=f, node=e.node)
    lw = repo.mod("dask_array._collection").cls("Array").methods.get("_lowered_expr")
    need(lw is not None, "Array._lowered_expr")
    rets = [n for n in body_walk(lw.node) if isinstance(n, ast.Return)]
    rr.inst(site(lw), returns=[norm(r) for r in rets], kind=lw.kind)
    if lw.kind != "cached_property":
        ctx.finding(rr, site(lw), "_lowered_expr is no longer a cached_property: each entry point would materialize separately", func=lw)
    for r in rets:
        v = r.value
        ok = isinstance(v, ast.Call) and dotted(v.func) == "_materialize" and v.args and unparse(v.args[0]) in ("self.expr", "self._expr")
        kw = {k.arg: unparse(k.value) for k in v.keywords} if isinstance(v, ast.Call) else {}
        if not ok or kw.get("optimize_graph") != "self._lowered_expr_optimize_graph":
            ctx.finding(rr, site(lw, r), "_lowered_expr is not _materialize(self.expr, optimize_graph=<once-captured flag>)", func=lw, node=r)
    # consumers
    col = repo.mod("dask_array._frisky.collect")
    for fn in ("collect_task_records", "collect_record_chunks"):
        f = col.func(fn)
        uses = [n for n in full_walk(f.node) if isinstance(n, ast.Attribute) and n.attr == "_lowered_expr"]
        other = [n for n in full_walk(f.node) if isinstance(n, ast.Attribute) and n.attr in ("expr", "_expr") and unparse(n.value) == "collection"]
        rr.inst(site(f), reads_lowered=len(uses), reads_raw=len(other))
        if not uses or other:
            ctx.finding(rr, site(f), "Frisky walk does not start from collection._lowered_expr (records would come from a different expression than __dask_graph__)", func=f)
    return rr


def r05_3(ctx):
    rr = RuleResult("R05.3", "COVER", "__dask_postpersist__ rebuilds with from_graph(layer, meta, self.chunks, keys, self._name)", min_instances=1)
    arr = _arr(ctx)
    f = arr.methods.get("__dask_postpersist__")
    need(f is not None, "Array.__dask_postpersist__")
    fg = ctx.repo.mod("dask_array.io._from_graph").func("from_graph")
    params = fg.params  # layer, _meta, chunks, keys, name, ...
    need(params[:5] == ["layer", "_meta", "chunks", "keys", "name"], "from_graph signature (layer, _meta, chunks, keys, name, ...) changed")
    rets = [n for n in body_walk(f.node) if isinstance(n, ast.Return)]
    rr.inst(site(f), returns=[norm(r) for r in rets])
    for r in rets:
        v = r.value
        ok = isinstance(v, ast.Tuple) and len(v.elts) == 2 and dotted(v.elts[0]) == "from_graph" and isinstance(v.elts[1], ast.Tuple)
        if not ok:
            ctx.finding(rr, site(f, r), "__dask_postpersist__ no longer returns (from_graph, (...))", func=f, node=r)
            continue
        extra = [unparse(e) for e in v.elts[1].elts]  # positions after `layer`
        if len(extra) < 4 or extra[1] != "self.chunks" or extra[3] != "self._name":
            ctx.finding(rr, site(f, r), f"rebuild arguments {extra}: chunks/name positions are not self.chunks / self._name (persist would not be name- and chunk-preserving)", func=f, node=r)
    return rr


def r05_4(ctx):
    rr = RuleResult("R05.4", "COVER", "to_delayed pairs self.__dask_keys__() with self.__dask_graph__()", min_instances=1)
    arr = _arr(ctx)
    f = arr.methods.get("to_delayed")
    need(f is not None, "Array.to_delayed")
    d = Defs(f.node)
    keys = {unparse(v) for v in d.defs.get("keys", [])}
    graph = {unparse(v) for v in d.defs.get("graph", [])}
    rr.inst(site(f), keys=sorted(keys), graph=sorted(graph))
    if keys != {"self.__dask_keys__()"}:
        ctx.finding(rr, site(f), f"to_delayed keys come from {sorted(keys)}", func=f)
    if not graph or not all(g == "self.__dask_graph__()" or g.startswith("self.__dask_optimize__(graph") for g in graph):
        ctx.finding(rr, site(f), f"to_delayed graph comes from {sorted(graph)}", func=f)
    return rr


def r05_5(ctx):
    rr = RuleResult("R05.5", "COVER", "Array.optimize installs the optimized expression it wraps as that collection's _lowered_expr, with the optimize-graph flag on", min_instances=1)
    arr = _arr(ctx)
    f = arr.methods.get("optimize")
    need(f is not None, "Array.optimize")
    d = Defs(f.node)
    stores = {}
    for n in body_walk(f.node):
        if isinstance(n, ast.Assign) and isinstance(n.targets[0], ast.Subscript) and "__dict__" in idents_in(n.targets[0].value):
            k = n.targets[0].slice
            stores[k.value if isinstance(k, ast.Constant) else unparse(k)] = (unparse(n.targets[0].value), unparse(n.value), n)
    rr.inst(site(f), dict_stores={k: v[:2] for k, v in stores.items()})
    out_vals = {unparse(v) for v in d.defs.get("out", [])}
    if "_lowered_expr" in stores:
        recv, val, node = stores["_lowered_expr"]
        wrapped = {a for v in d.defs.get("out", []) if isinstance(v, ast.Call) for a in [unparse(x) for x in v.args]}
        if val not in wrapped:
            ctx.finding(rr, site(f, node), f"optimize() caches {val} as _lowered_expr of a collection built over {sorted(wrapped)}", func=f, node=node)
        if "_lowered_expr_optimize_graph" not in stores or stores["_lowered_expr_optimize_graph"][1] != "True":
            ctx.finding(rr, site(f, node), "optimize() pre-seeds _lowered_expr without pinning _lowered_expr_optimize_graph=True", func=f, node=node)
    return rr


def r05_9(ctx):
    rr = RuleResult(
        "R05.9", "GUARD",
        "dask's generic entry points (dask.optimize, dask.persist) walk the RAW expression tree and call _layer on every raw node: a _layer that pairs blocks by position - valid only after _lower has aligned the inputs - first hands back the materialized graph when the node is still unlowered (self._graph_if_unlowered())",
        min_instances=4,
    )
    repo = ctx.repo
    ae = repo.mod("dask_array._expr").cls("ArrayExpr")
    helper = ae.methods.get("_graph_if_unlowered")
    rr.inst(f"{ae.construct}::_graph_if_unlowered", defined=helper is not None)
    if helper is None:
        ctx.finding(rr, f"{ae.construct}::_graph_if_unlowered", "ArrayExpr no longer provides the unlowered-form guard for position-pairing layers", file=ae.module.path, line=ae.node.lineno)
    else:
        txt = unparse(helper.node)
        ok = "self._lower()" in txt and ("_materialize(self)" in txt or "ArrayExpr._layer(self)" in txt)
        if not ok:
            ctx.finding(rr, f"{ae.construct}::_graph_if_unlowered", "_graph_if_unlowered no longer asks self._lower() and hands back the materialized graph of self (ArrayExpr._layer)", func=helper)
    seen = set()
    for c in repo.expr_classes():
        lay = repo.class_attr(c, "_layer")
        low = repo.class_attr(c, "_lower")
        if not lay or not low or not hasattr(lay[1], "node") or not hasattr(low[1], "node"):
            continue
        if not lay[0].module.is_unit or not low[0].module.is_unit or lay[0].name == "ArrayExpr":
            continue
        rewrites = [r for r in body_walk(low[1].node) if isinstance(r, ast.Return) and r.value is not None and not (isinstance(r.value, ast.Constant) and r.value.value is None)]
        if not rewrites:
            continue
        f = lay[1]
        if f.fq in seen:
            continue
        seen.add(f.fq)
        body = [b for b in f.node.body if not (isinstance(b, ast.Expr) and isinstance(b.value, ast.Constant))]
        # ``graph = self._graph_if_unlowered(); if graph is not None: return graph`` (or the walrus / direct-return spellings)
        head = body[:3]
        calls = [n for b in head for n in ast.walk(b) if isinstance(n, ast.Call) and unparse(n.func) == "self._graph_if_unlowered"]
        returns = [n for b in head for n in ast.walk(b) if isinstance(n, ast.Return)]
        guarded = bool(calls) and bool(returns)
        cst = f"{f.construct}::unlowered-form guard"
        rr.inst(cst, guarded=guarded, lowering_rewrites=len(rewrites), used_by=[k.name for k in repo.expr_classes() if (repo.class_attr(k, "_layer") or (None, None))[1] is f][:6])
        if not guarded:
            ctx.finding(
                rr, cst,
                f"{f.qualname} builds its layer by pairing blocks of its inputs by position, while {low[0].name}._lower can still replace the node (unaligned inputs): called on the raw node - as dask.optimize / dask.persist do - "
                "it emits tasks over mismatched blocks (dask.optimize(x + y) with x, y chunked differently raised 'Shapes do not align', or silently computed other values)",
                func=f,
            )
    return rr


def r05_10(ctx):
    rr = RuleResult(
        "R05.10", "PASS",
        "dask.persist(x) optimizes the raw expression itself and rebuilds x from the advertised chunks: either no rewrite may put a root on another block grid, or the generic path passes the root bridge of _materialize",
        min_instances=3,
    )
    from .common import cfg_of, chain_conjuncts

    repo = ctx.repo
    # upstream fact, parsed from the installed source (never imported)
    base = repo.module("dask.base")
    if base is None or "persist" not in base.functions:
        from ..model import AnalysisError

        raise AnalysisError("installed dask/base.py::persist could not be located/parsed")
    up = base.functions["persist"]
    txt = unparse(up.node)
    generic = "collections_to_expr(" in txt and ".optimize()" in txt and "__dask_postpersist__()" in txt and "expr.__dask_keys__()" in txt
    rr.inst("dask/base.py::persist", optimizes_raw_expression_and_rebuilds_by_postpersist=generic)
    if not generic:
        rr.notes.append("upstream dask.persist no longer optimizes the raw expression itself: the root bridge question does not arise on this path")
        return rr
    # the rebuild trusts the advertised chunks
    arr = repo.mod("dask_array._collection").cls("Array")
    pp = arr.methods.get("__dask_postpersist__")
    need(pp is not None, "Array.__dask_postpersist__")
    trusts = "self.chunks" in unparse(pp.node)
    rr.inst(site(pp), rebuilds_from_advertised_chunks=trusts)
    # may a rewrite hand back a replacement on another grid when nobody observes it?
    ae = repo.mod("dask_array._expr").cls("ArrayExpr")
    pg = ae.methods.get("_preserve_grid_contract")
    need(pg is not None, "ArrayExpr._preserve_grid_contract")
    cfg = cfg_of(ctx, pg)
    loose = []
    for r in cfg.returns:
        if r.value is None or unparse(r.value) == "None":
            continue
        conj = chain_conjuncts(cfg, r, pg.node, pg.module)
        if not any("chunks" in c and "==" in c for c in conj):
            loose.append(r)
    rr.inst(site(pg), returns_without_chunk_equality=len(loose))
    if trusts and loose:
        ctx.finding(
            rr, "dask/base.py::persist::root grid not bridged",
            "dask.persist(x) (upstream) optimizes x's raw expression itself, takes the keys of the OPTIMIZED expression and rebuilds x with Array.__dask_postpersist__, which assumes the advertised chunks; "
            "a rewrite may put the root on another block grid when nothing observes it (ArrayExpr._preserve_grid_contract returns the replacement without comparing chunks; the sliding-window fusion likewise), and the only "
            "place that bridges a root back to its advertised grid is _materialize, which this path never passes: dask.persist(da.take(x + y, ix)) and dask.persist(sliding_window_view(x, 3).sum(-1)) raise "
            "'from_graph cannot find output block', where x.persist() works",
            func=pg, node=loose[0],
        )
    return rr


RULES = [r05_1, r05_2, r05_3, r05_4, r05_5, r05_9, r05_10]

LEVEL_TEXT = (
    "Static decision that all entry points (compute, persist, __dask_graph__, to_delayed, Frisky hooks, dask's generic "
    "optimizer via ArrayExpr.__dask_graph__) obtain graph and keys from one cached materialization, and that the "
    "persist rebuild is name- and chunk-preserving: who-may-call on _materialize over the resolved call graph, argument "
    "shape checks of the delegation/rebuild sites, def-use of to_delayed/optimize. Agreement of computed values - "
    "including the dask.optimize legacy-graph conversion noted in DESIGN.md - is not decided."
)
LEVEL_NOTE = (
    "Trusted: CPython ast, engine call graph. Assumes DaskMethodsMixin.compute/persist schedule the graph/keys of the "
    "object they receive and that from_graph's signature (checked) is (layer, _meta, chunks, keys, name)."
)
TECHNIQUE = "static analysis: who-may-call over the resolved call graph + argument-shape/def-use checks at the entry points (ast)"

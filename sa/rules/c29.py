"""C29 - building and inspecting arrays never touches data (structural clauses)."""

from __future__ import annotations

import ast

from ..dataflow import Defs
from ..model import FuncInfo, body_walk, const_value, dotted, unparse
from ..namedeps import params_of
from ..refguards import _inline
from ..report import RuleResult
from ..tagflow import EMPTY, Evaluator, TagFlow
from .common import callgraph, cfg_of, need, site

PROP = "C29"

EXPLANATION = (
    "Decides structurally that build-time code reads no data: R29.1 taint from the user's source object (FromArray's array "
    "operand, the array-like parameter of from_array/asarray/asanyarray/..., followed into package helpers) to every reading "
    "construct - subscript load, np.asarray/np.array/__array__/list/iteration, any method call on the source - in code that "
    "is not a task kernel: each must be an empty selection (all slice(0, 0)), or be control-dependent on an exact-type NumPy "
    "test of that same value that IMPLIES the read (not a disjunct), or be one of the frozen, reasoned idioms; R29.2 a user "
    "function value (func/chunk/aggregate/combine/binop operands and parameters) is CALLED outside task kernels only in the "
    "sanctioned metadata helpers, which build their arguments from empty metas / one-element dummies; R29.3 no call-graph path "
    "from a metadata accessor, repr, or optimizer entry point reaches an eager compute; R29.4 the identity-index shortcut of "
    "take is guarded by `not is_dask_collection(index)`; R29.5 every _meta value that derives from a meta-like operand passes "
    "through meta_from_array (zero-element normalisation) unless the operand is produced only inside the package (frozen "
    "table). Implicit materialisation through operators on values whose type the engine cannot see is not decided."
)
ASSUMPTIONS = [
    "attribute reads on a source (.shape, .dtype, .chunks, .ndim, .shards) do not read data",
    "meta_from_array returns a zero-element array for array-likes (its own reads are empty selections - checked by R29.1)",
    "the kernel set of C10 (functions that escape into tasks) is the run-time side of the partition",
]
TRUSTED = ["CPython ast", "sa.cfg", "sa.tagflow", "sa.callgraph", "kernel set derivation of sa/rules/c10.py", "frozen tables in sa/rules/c29.py"]

# functions whose listed parameters ARE the user's source object
SOURCE_PARAMS = {
    "dask_array.core._conversion:from_array": ["x"],
    "dask_array.core._conversion:asarray": ["a"],
    "dask_array.core._conversion:asanyarray": ["a"],
    "dask_array.core._conversion:array": ["x"],
    "dask_array.io._from_array:_source_storage_chunks": None,  # first parameter
}
SAFE_FUNCS = {"hasattr", "getattr", "isinstance", "type", "is_arraylike", "is_dask_collection", "len", "id", "repr", "str", "callable", "tokenize", "_tokenize_deterministic", "typename", "issubclass", "print", "is_cupy_type", "is_scalar_for_elemwise"}
READ_FUNCS = {"asarray", "asanyarray", "array", "ascontiguousarray", "list", "tuple", "iter", "next", "sum", "min", "max", "sorted", "any", "all", "copy", "deepcopy", "concatenate", "stack", "asarray_safe", "asanyarray_safe"}
# (function construct, normalised reading construct kind) -> reason
R291_ALLOWED = {
    ("dask_array/core/_conversion.py::from_array", "method:copy"): "documented defensive copy inherited from dask.array.from_array: `if is_arraylike(x) and hasattr(x, 'copy'): x = x.copy()` detaches the graph from later user-side writes (C10/C11); lazy stores (h5py, zarr) expose no .copy",
    ("dask_array/core/_conversion.py::asarray", "method:to_dask_array"): "objects that know how to become a dask array (xarray, dask dataframes) convert lazily",
    ("dask_array/core/_conversion.py::asanyarray", "method:to_dask_array"): "objects that know how to become a dask array (xarray, dask dataframes) convert lazily",
    ("dask_array/core/_conversion.py::asarray", "call:asarray_safe"): "documented eager conversion of asarray(a, like=<backend array>) for non-dask input: the NEP-35 like= path turns in-memory data into the backend's array type",
    ("dask_array/core/_conversion.py::asanyarray", "call:asanyarray_safe"): "documented eager conversion of asanyarray(a, like=<backend array>) for non-dask input",
}
USER_FN_NAMES = {"func", "chunk", "aggregate", "combine", "binop", "function", "preprocess", "chunk_func", "agg_func", "pyfunc", "cumfunc", "reduce_func", "ufunc", "_ufunc"}
# build-time functions allowed to CALL a user function value, with the reason the arguments are data-free
R292_ALLOWED = {
    "dask_array/_utils.py::compute_meta": "THE metadata helper: arguments are rebuilt from ._meta / meta_from_array (zero-element arrays)",
    "dask_array/_core_utils.py::apply_infer_dtype": "documented dtype-inference fallback inherited from dask: one-element np.ones dummies, never a block of the array",
    "dask_array/_ufunc.py::ufunc.__call__": "no dask argument present: the NumPy ufunc is applied eagerly to the caller's in-memory values (plain NumPy semantics)",
    "dask_array/_ufunc.py::DoubleOutputs._meta": "NumPy ufunc applied to a one-element dummy of the input dtype",
    "dask_array/_collection.py::Array.__array_function__.handle_nonmatching_names": "documented eager fallback of __array_function__ for NumPy functions dask_array does not implement (warns, then computes)",
    "dask_array/reductions/_cumulative.py::CumReduction.dtype": "called on np.ones((0,)): an empty array",
    "dask_array/reductions/_cumulative.py::CumReductionBlelloch.dtype": "called on np.ones((0,)): an empty array",
    "dask_array/reductions/_reduction.py::PartialReduce._meta": "called on reduced_meta / the child's _meta: zero-element metas by R29.5",
    "dask_array/creation/_utils.py::_parse_wrap_args": "func is a NumPy creation routine (np.ones/zeros/empty/full) fixed by the wrapper, not a user function; only reached when no dtype was given",
    "dask_array/_frisky/blelloch.py::_infer_itemsize_stamps": "records-path stamp inference: binop applied to two-element dummies of the meta dtype",
    "dask_array/creation/_utils.py::_broadcast_trick_inner": "task-side: the @curry'd kernel behind ones/zeros/full; func is the NumPy creation routine",
}
# (class, operand) meta-like operands that are produced only inside the package (never fed from a user meta= argument)
INTERNAL_META = {
    ("FromGraph", "_meta"): "from_graph is the rebuild hook of persist/optimize: the meta is taken from an existing collection",
    ("RandomChoice", "_meta"): "computed by _choice_validate_params (the meta of `a`, or a zero-dimensional draw)",
    ("Concatenate", "meta"): "computed by concatenate() from meta_from_array of the inputs",
    ("Stack", "meta"): "computed by stack() from meta_from_array of the inputs",
    ("PartialReduce", "reduced_meta"): "threaded by Reduction._lower / _build_tree_reduce_expr from the Reduction's own (empty) meta",
    ("MapBlocksOutput", "_meta_provided"): "map_blocks_multi_output is the semi-internal multi-output hook used by the xarray chunk manager; its metas come from the integration (not witnessed otherwise; listed as reviewed)",
    ("BincountChunked", "meta_provided"): "only its dtype is read",
    ("DoubleOutputs", "meta"): "not read by _meta (the result is recomputed on a one-element dummy)",
    ("Reduction", "meta"): "Reduction._meta builds np.empty((0,)*ndim) itself; the operand is a chunk-type hint consulted through meta_from_array in _lower",
}


def _kernel_fqs(ctx):
    from .c10 import kernel_set

    ks = kernel_set(ctx)
    K = ks[0] if isinstance(ks, tuple) else ks
    return set(K)


def _is_empty_selection(idx):
    """tuple/generator of slice(0, 0[, None]) only."""
    def is_zero_slice(e):
        if isinstance(e, ast.Call) and dotted(e.func) == "slice" and len(e.args) >= 2:
            return const_value(e.args[0]) == 0 and const_value(e.args[1]) == 0
        if isinstance(e, ast.Slice):
            return const_value(e.lower) == 0 and const_value(e.upper) == 0
        return False

    if is_zero_slice(idx):
        return True
    if isinstance(idx, ast.Tuple) and idx.elts:
        return all(is_zero_slice(e) for e in idx.elts)
    if isinstance(idx, ast.Call) and dotted(idx.func) == "tuple" and idx.args and isinstance(idx.args[0], (ast.GeneratorExp, ast.ListComp)):
        return is_zero_slice(idx.args[0].elt)
    return False


def _ndarray_test(test, names):
    """Does ``test`` (already alias-inlined) assert that one of ``names`` is exactly a NumPy array?  Returns
    True only when the assertion is IMPLIED by the test being true: the test itself, or a conjunct of it."""
    if isinstance(test, ast.BoolOp) and isinstance(test.op, ast.And):
        return any(_ndarray_test(v, names) for v in test.values)
    if isinstance(test, ast.Compare) and len(test.ops) == 1 and isinstance(test.ops[0], (ast.In, ast.Is, ast.Eq)):
        l = test.left
        if isinstance(l, ast.Call) and dotted(l.func) == "type" and l.args and _mentions(l.args[0], names):
            return "ndarray" in unparse(test.comparators[0]) or "MaskedArray" in unparse(test.comparators[0])
    if isinstance(test, ast.Call) and dotted(test.func) == "isinstance" and len(test.args) == 2 and _mentions(test.args[0], names):
        t = unparse(test.args[1])
        return "ndarray" in t and "Array" not in t.replace("ndarray", "").replace("MaskedArray", "")
    return False


def _mentions(e, names):
    return unparse(e) in names


def _lazy_or_plain_test(test, names):
    """Other implied facts under which touching the value reads no lazy source: it IS a dask Array (its methods are
    lazy), or it has no array interface at all (``not isinstance(getattr(v, "shape", None), Iterable)``: lists, scalars)."""
    if isinstance(test, ast.BoolOp) and isinstance(test.op, ast.And):
        return any(_lazy_or_plain_test(v, names) for v in test.values)
    if isinstance(test, ast.Call) and dotted(test.func) == "isinstance" and len(test.args) == 2 and _mentions(test.args[0], names):
        t = unparse(test.args[1])
        if t == "Array":
            return True
        parts = [x.strip() for x in t.replace("(", "").replace(")", "").replace("+", ",").split(",") if x.strip()]
        if parts and all(x in ("list", "tuple", "memoryview", "np.ScalarType", "int", "float", "str", "Number", "numbers.Number") for x in parts):
            return True  # in-memory Python data, not an array-like source
    if isinstance(test, ast.UnaryOp) and isinstance(test.op, ast.Not):
        t = test.operand
        if isinstance(t, ast.Call) and dotted(t.func) == "isinstance" and len(t.args) == 2 and "Iterable" in unparse(t.args[1]):
            g = t.args[0]
            if isinstance(g, ast.Call) and dotted(g.func) == "getattr" and len(g.args) >= 2 and _mentions(g.args[0], names) and const_value(g.args[1]) == "shape":
                return True
    return False


class SrcEval(Evaluator):
    """Tag ``SRC:<root>``: the value may be the user's source object itself (not data derived from it)."""

    def __init__(self, ctx, f: FuncInfo, self_array: bool):
        super().__init__()
        self.ctx, self.f, self.self_array = ctx, f, self_array

    def attribute(self, n, st):
        if self.self_array and isinstance(n.value, ast.Name) and n.value.id == "self" and n.attr == "array":
            return frozenset({"SRC:self.array"})
        return EMPTY  # attributes of a source (.shape, .dtype, .chunks ...) are metadata

    def subscript(self, n, st):
        return EMPTY  # the result of a read is data, judged at the read

    def call(self, n, st):
        d = dotted(n.func) or ""
        if self.self_array and d == "self.operand" and n.args and const_value(n.args[0]) == "array":
            return frozenset({"SRC:self.array"})
        return EMPTY  # results of calls are new values (reads are judged as sinks)

    def compare(self, n, st):
        return EMPTY

    def store_tags(self, target, base_tags, value_tags):
        return EMPTY  # a container that holds the source is not the source

    def mutator_tags(self, call, st):
        return EMPTY

    def ev(self, e, st):
        if isinstance(e, (ast.Dict, ast.List, ast.Tuple, ast.Set, ast.ListComp, ast.SetComp, ast.DictComp, ast.GeneratorExp, ast.JoinedStr)):
            return EMPTY
        return super().ev(e, st)


def _source_flows(ctx, f: FuncInfo, init, self_array, depth=0, stack=()):
    """[(function, node, kind, description, via-path)] reading constructs applied to the source in f and its package callees."""
    key = ("c29src", f.fq, tuple(sorted(init)), self_array)
    if key in ctx._cache:
        return ctx._cache[key]
    ctx._cache[key] = []
    repo = ctx.repo
    evr = SrcEval(ctx, f, self_array)
    cfg = cfg_of(ctx, f)
    flow = TagFlow(f.node, evr, init={p: frozenset({f"SRC:{p}"}) for p in init}, cfg=cfg)
    defs = Defs(f.node)
    out = []

    def src_names(st):
        names = {k for k, v in st.items() if v}
        if self_array:
            names |= {"self.array", "self.operand('array')"}
        return names

    def guarded(stmt, st):
        names = src_names(st)
        for t, pol in cfg.guards(stmt):
            it = _inline(t, defs, module=f.module)
            if pol and (_ndarray_test(it, names) or _lazy_or_plain_test(it, names)):
                return True
        return False

    def visit(stmt, n, st):
        def is_src(e):
            return bool(evr.ev(e, st))

        if isinstance(n, ast.Subscript) and isinstance(n.ctx, ast.Load) and is_src(n.value):
            if _is_empty_selection(n.slice) or guarded(stmt, st):
                return
            out.append((f, n, "subscript", f"indexes the source: {unparse(n)[:80]}", []))
        elif isinstance(n, (ast.For, ast.comprehension)) and is_src(n.iter):
            if not guarded(stmt, st):
                out.append((f, n.iter, "iterate", f"iterates over the source: {unparse(n.iter)[:60]}", []))
        elif isinstance(n, ast.Call):
            fn = n.func
            tail = (dotted(fn) or "").rsplit(".", 1)[-1]
            if isinstance(fn, ast.Attribute) and is_src(fn.value):
                if not guarded(stmt, st):
                    out.append((f, n, f"method:{fn.attr}", f"calls .{fn.attr}(...) on the source", []))
                return
            argsrc = [a for a in list(n.args) + [k.value for k in n.keywords] if is_src(a.value if isinstance(a, ast.Starred) else a)]
            if not argsrc:
                return
            if tail in SAFE_FUNCS:
                return
            r = repo.resolve_expr(fn, f.module, f) if isinstance(fn, (ast.Name, ast.Attribute)) else None
            if r and r[0] == "class":
                return  # handing the source to an expression constructor stores it; nothing is read
            if r and r[0] == "func" and r[1].module.is_unit:
                callee = r[1]
                if depth >= 3 or callee.fq in stack:
                    return
                from .c07 import _bind

                binding = _bind(callee, n)
                params = sorted(p for p, exprs in binding.items() if any(is_src(x) for x in exprs))
                if params:
                    for g, node, kind, what, via in _source_flows(ctx, callee, tuple(params), False, depth + 1, stack + (f.fq,)):
                        if guarded(stmt, st):
                            continue
                        out.append((g, node, kind, what, [f"{f.construct}:{n.lineno} {unparse(n)[:80]}"] + via))
                return
            if tail in READ_FUNCS or (dotted(fn) or "").startswith(("np.", "numpy.")):
                if not guarded(stmt, st):
                    out.append((f, n, f"call:{tail}", f"passes the source to {dotted(fn)}(...), which reads it", []))

    flow.visit(visit)
    # ``for x in <src>`` statements are CFG nodes themselves
    ctx._cache[key] = out
    return out


def r29_1(ctx):
    rr = RuleResult("R29.1", "GUARD", "build-time code reads the user's source only through empty selections or under an implying exact-NumPy-type test", min_instances=18)
    repo = ctx.repo
    K = _kernel_fqs(ctx)
    fa = repo.find_class("FromArray")
    roots = []
    for mf in fa.methods.values():
        roots.append((mf, (), True))
    for fq, params in SOURCE_PARAMS.items():
        modname, qual = fq.split(":")
        m = repo.mod(modname)
        f = m.functions.get(qual)
        need(f is not None, f"source entry point {fq}")
        ps = params if params is not None else f.params[:1]
        for p in ps:
            need(p in f.params, f"parameter {p!r} of {fq}")
        roots.append((f, tuple(ps), False))
    seen = set()
    for f, init, self_array in roots:
        flows = _source_flows(ctx, f, init, self_array)
        reads = sum(1 for n in ast.walk(f.node) if isinstance(n, ast.Attribute) and n.attr == "array" and isinstance(n.value, ast.Name) and n.value.id == "self") if self_array else len(init)
        rr.inst(f.construct, source_roots=list(init) or ["self.array"], source_mentions=reads, unguarded_reads=len(flows))
        for g, node, kind, what, via in flows:
            if g.fq in K and g is not f:
                continue  # a task kernel: run time
            cst = f"{g.construct}::{kind}"
            if (cst, tuple(via)) in seen:
                continue
            seen.add((cst, tuple(via)))
            reason = R291_ALLOWED.get((g.construct, kind))
            if reason:
                rr.exempt(cst, reason)
                continue
            ctx.finding(
                rr, cst,
                f"{g.qualname} {what} at build time, neither as an empty selection nor under a test that implies the source is exactly a NumPy array: "
                f"a lazy source (zarr/h5py/recording array-like) is read before any graph is executed",
                func=g, node=node, path=via,
            )
    return rr


def _user_fn_call(n: ast.Call, f: FuncInfo):
    fn = n.func
    if isinstance(fn, ast.Name) and fn.id in USER_FN_NAMES and (fn.id in f.params or fn.id in f.local_names):
        return fn.id
    if isinstance(fn, ast.Attribute) and isinstance(fn.value, ast.Name) and fn.value.id == "self" and fn.attr in USER_FN_NAMES:
        return "self." + fn.attr
    return None


def r29_2(ctx):
    rr = RuleResult("R29.2", "WHO", "outside task kernels a user function value is called only inside the sanctioned, data-free metadata helpers", min_instances=8)
    repo = ctx.repo
    K = _kernel_fqs(ctx)
    for f in repo.all_functions():
        top = f
        while top.parent is not None:
            top = top.parent
        if f.fq in K or top.fq in K:
            continue
        hits = [(n, _user_fn_call(n, f)) for n in body_walk(f.node) if isinstance(n, ast.Call)]
        hits = [(n, w) for n, w in hits if w]
        if not hits:
            continue
        # a local that is bound only to package functions / lambdas is not a user function
        defs = Defs(f.node)
        real = []
        for n, w in hits:
            if not w.startswith("self.") and w not in f.params:
                vals = defs.defs.get(w, [])
                if vals and all(isinstance(v, ast.Lambda) or (isinstance(v, (ast.Name, ast.Attribute)) and (repo.resolve_expr(v, f.module, f) or (None,))[0] in ("func", "ext", "module")) for v in vals):
                    continue
            real.append((n, w))
        if not real:
            continue
        cst = f.construct
        rr.inst(cst, calls=[f"{w}(...)@{n.lineno}" for n, w in real][:6])
        if cst in R292_ALLOWED:
            rr.exempt(cst, R292_ALLOWED[cst])
            continue
        n, w = real[0]
        ctx.finding(
            rr, f"{cst}::{w}",
            f"{f.qualname} calls the user function value {w} outside a task kernel and outside the sanctioned metadata helpers (compute_meta / apply_infer_dtype): "
            f"a user block function may run on real, non-empty data while the array is only being built or inspected",
            func=f, node=n,
        )
    for cst in R292_ALLOWED:
        if not any(i["construct"] == cst for i in rr.instances):
            rr.notes.append(f"allow-list entry no longer matches a call site: {cst}")
    # the two central helpers build their arguments from metas / dummies
    cm = repo.mod("dask_array._utils").functions.get("compute_meta")
    need(cm is not None, "dask_array/_utils.py::compute_meta")
    src = ast.get_source_segment(cm.module.src, cm.node) or ""
    ok = "meta_from_array" in src or "_meta" in src
    rr.inst(cm.construct + "::arguments", rebuilt_from_meta=ok)
    if not ok:
        ctx.finding(rr, cm.construct + "::arguments", "compute_meta no longer rebuilds its arguments from ._meta / meta_from_array", func=cm)
    calls = [n for n in body_walk(cm.node) if isinstance(n, ast.Call) and isinstance(n.func, ast.Name) and n.func.id == "func"]
    for c in calls:
        argnames = {x.id for a in list(c.args) + [k.value for k in c.keywords] for x in ast.walk(a) if isinstance(x, ast.Name)}
        bad = [a for a in argnames if a in ("args", "kwargs")]
        rr.inst(site(cm, c), argument_names=sorted(argnames))
        if bad:
            ctx.finding(rr, site(cm, c), f"compute_meta calls func with the raw {bad} (the real collections / user values) instead of the meta-converted arguments", func=cm, node=c)
    return rr


ACCESSORS = ["shape", "chunks", "dtype", "name", "_name", "__dask_keys__", "__repr__", "_repr_html_", "__len__", "numblocks", "npartitions", "nbytes", "ndim", "size", "chunksize", "itemsize", "_cached_dask_keys", "__dask_tokenize__", "__dask_postpersist__", "__frisky_output_keys__", "to_svg", "optimize", "simplify", "_chunks"]
EAGER = {"compute", "persist", "__array__", "__bool__", "__int__", "__float__", "__index__", "__complex__", "compute_chunk_sizes", "to_zarr", "to_hdf5", "store"}


def r29_3(ctx):
    rr = RuleResult("R29.3", "NOREACH", "no call-graph path from a metadata accessor / repr / optimizer entry point of Array reaches an eager compute", min_instances=15)
    repo = ctx.repo
    cg = callgraph(ctx)
    arr = repo.mod("dask_array._collection").cls("Array")
    ae = repo.mod("dask_array._expr").cls("ArrayExpr")

    def is_eager(g):
        if not isinstance(g, FuncInfo):
            g = cg.funcs.get(g)
        if g is None:
            return False
        if g.name in EAGER and (g.cls is not None and g.cls.name in ("Array", "ArrayExpr") or g.cls is None and g.module.name.startswith("dask_array") and g.name in ("compute", "persist", "store")):
            return True
        return False

    for owner in (arr, ae):
        for a in ACCESSORS:
            mf = owner.methods.get(a)
            if mf is None:
                continue
            path, _prev = cg.reach([mf.fq], is_eager, kinds=("call", "prop", "construct"), exact_only=True)
            rr.inst(mf.construct, reaches_eager=bool(path))
            if path:
                ctx.finding(
                    rr, mf.construct,
                    f"{owner.name}.{a} can reach an eager computation ({path[-1] if path else ''}): reading metadata / optimizing would execute a graph",
                    func=mf, path=[getattr(p, 'fq', str(p)) for p in path],
                )
    # the eager dunder conversions must not be called implicitly inside metadata accessors: list the eager API
    eager_sites = sorted(g.construct for g in cg.funcs.values() if g.cls is not None and g.cls.name == "Array" and g.name in EAGER)
    rr.notes.append("documented eager API of Array: " + ", ".join(eager_sites))
    return rr


def r29_4(ctx):
    rr = RuleResult("R29.4", "REF", "take's identity-index shortcut is guarded by `not is_dask_collection(index)`", min_instances=1)
    repo = ctx.repo
    cands = [f for f in repo.all_functions() if f.name == "take" and f.cls is None and f.parent is None]
    need(cands, "a module-level take function")
    found = False
    for f in cands:
        cfg = cfg_of(ctx, f)
        defs = Defs(f.node)
        for r in cfg.returns:
            if r.value is None:
                continue
            gs = [(unparse(_inline(t, defs)), pol) for t, pol in cfg.guards(r)]
            txt = " ".join(g for g, _p in gs)
            if ("arange" in txt or "array_equal" in txt or "identity" in txt.lower()) and isinstance(r.value, ast.Name):
                found = True
                ok = any("is_dask_collection" in g for g, _p in gs)
                rr.inst(site(f, r), guards=[("" if p else "not ") + g[:90] for g, p in gs])
                if not ok:
                    ctx.finding(rr, site(f, r), "take's identity-index shortcut compares the index with arange without first excluding dask collections: comparing a dask index materialises it at build time", func=f, node=r)
    if not found:
        rr.inst("take::no identity shortcut", present=False)
        rr.notes.append("no identity-index shortcut found in take (nothing to guard)")
    return rr


def r29_5(ctx):
    rr = RuleResult("R29.5", "COVER", "every _meta value derived from a meta-like operand passes through meta_from_array unless the operand is package-internal (frozen table)", min_instances=14)
    repo = ctx.repo
    seen = set()
    for c in repo.expr_classes():
        P = [p for p in params_of(repo, c) if "meta" in p]
        hit = repo.class_attr(c, "_meta")
        if not P or hit is None or not isinstance(hit[1], FuncInfo) or not hit[0].module.is_unit:
            continue
        owner, mf = hit
        if (mf.fq, tuple(P)) in seen:
            continue
        seen.add((mf.fq, tuple(P)))
        defs = Defs(mf.node)

        def raw_reads(expr, depth=0, _seen=None):
            """meta-like operands read by ``expr`` (following locals) outside a meta_from_array(...) argument."""
            _seen = _seen if _seen is not None else set()
            out = set()

            def walk(n, sanitized):
                if isinstance(n, ast.Call):
                    tail = (dotted(n.func) or "").rsplit(".", 1)[-1]
                    if tail in ("meta_from_array", "empty_like", "zeros_like"):
                        return  # normalised to zero elements
                    if tail in ("getattr", "hasattr", "isinstance", "type", "len"):
                        return
                    if dotted(n.func) in ("self.operand",) and n.args and const_value(n.args[0]) in P:
                        out.add(const_value(n.args[0]))
                        return
                if isinstance(n, ast.Attribute):
                    if isinstance(n.value, ast.Name) and n.value.id == "self" and n.attr in P:
                        out.add(n.attr)
                        return
                    if n.attr in ("dtype", "ndim", "shape"):
                        return  # metadata of the meta
                if isinstance(n, (ast.GeneratorExp, ast.ListComp, ast.SetComp)):
                    # elements matter, not the act of iterating the operand: bind the targets to their iterables
                    for g in n.generators:
                        for tn in ast.walk(g.target):
                            if isinstance(tn, ast.Name):
                                defs.defs.setdefault(tn.id, [])
                                if g.iter not in defs.defs[tn.id]:
                                    defs.defs[tn.id].append(g.iter)
                    walk(n.elt, sanitized)
                    return
                if isinstance(n, ast.Name) and n.id not in ("self",) and n.id not in _seen:
                    _seen.add(n.id)
                    for v in defs.defs.get(n.id, []):
                        walk(v, sanitized)
                    return
                for ch in ast.iter_child_nodes(n):
                    walk(ch, sanitized)

            walk(expr, False)
            return out

        rets = [r for r in body_walk(mf.node) if isinstance(r, ast.Return) and r.value is not None]
        for p in P:
            raw = [r for r in rets if p in raw_reads(r.value)]
            cst = f"{c.construct}::{p}"
            rr.inst(cst, meta_defined_in=owner.name, raw_returns=[unparse(r.value)[:60] for r in raw])
            if not raw:
                continue
            decl = p
            key = None
            for k in repo.mro(c):
                if not isinstance(k, str) and (k.name, p) in INTERNAL_META:
                    key = (k.name, p)
                    break
            if key:
                rr.exempt(cst, INTERNAL_META[key])
                continue
            ctx.finding(
                rr, cst,
                f"{owner.name}._meta can return the {p!r} operand without normalising it through meta_from_array (`{unparse(raw[0].value)[:60]}`): a non-empty sample passed as meta= "
                f"becomes the node's meta, and metadata inference of downstream operations then calls user block functions on that non-empty block at construction time",
                func=mf, node=raw[0],
            )
    return rr


RULES = [r29_1, r29_2, r29_3, r29_4, r29_5]

LEVEL_TEXT = (
    "Static decision that build-time code is data-free: a source-object taint (FromArray's array operand and the array-like "
    "parameters of the conversion entry points, followed into package helpers) to every reading construct outside task kernels, "
    "each of which must be an empty selection or be implied-guarded by an exact NumPy-type test of the same value; a who-may-call "
    "rule for user function values outside task kernels; call-graph non-reachability from metadata accessors and optimizer entry "
    "points to eager computation; the guard of take's identity shortcut; and zero-element normalisation of every user-suppliable "
    "meta operand. An eager slice of a duck/lazy source, a weakened NumPy-type guard, a user function invoked while building, a "
    "metadata accessor that computes, or a meta operand returned verbatim is reported at its site."
)
LEVEL_NOTE = (
    "Trusted: CPython ast, sa.cfg, sa.tagflow, the kernel set of C10, frozen allow-lists in sa/rules/c29.py (each with its reason). "
    "Reads hidden behind operators on values of unknown type are not seen."
)
TECHNIQUE = "static analysis: source-object taint to read sinks with implied-guard checking over a statement CFG, who-may-call for user function values, call-graph non-reachability, sanitizer coverage of meta operands (ast)"

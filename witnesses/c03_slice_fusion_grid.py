"""Witness for the R03.8 defect (repaired in /repo): Slice(Slice(x)) fusion changed the advertised block grid.
Exit 0 when the optimized computation agrees with NumPy, 1 when it raises or differs (ValueError before the repair)."""
import sys

import numpy as np

import dask_array as da

n = np.arange(12.0)
bad = 0
for sl in (slice(2, None, 5), slice(1, None, 3), slice(None, None, 4)):
    for rc in (1, 2, 3):
        d = da.from_array(n, chunks=2)
        y = da.pad(da.repeat(d[sl], 2, axis=0).rechunk(rc), [(0, 1)]) * 2 + 1
        want = np.pad(np.repeat(n[sl], 2), [(0, 1)]) * 2 + 1
        try:
            if not np.allclose(y.compute(), want):
                bad += 1
        except Exception as e:  # noqa: BLE001
            bad += 1
            print(sl, rc, type(e).__name__, str(e)[:80])
sys.exit(1 if bad else 0)

#!/bin/sh
# tools/confirm_mutant.sh <worktree> <MUTANTdir> <seed-id>
# Confirms in the scratch worktree: demo passes clean, fails patched; suite passes patched.
# On success copies patch.diff, demo.py, meta.json to /verif/seeded/<seed-id>/ and records what was run.
wt="$1"; md="$2"; id="$3"
cd "$wt" || exit 2
export PYTHONPATH="$wt"
git checkout -q -- dask_array 2>/dev/null
/venv/bin/python "$md/demo.py" >/tmp/confirm_$id.clean 2>&1; c=$?
git apply "$md/patch.diff" || { echo "$id: patch does not apply"; exit 2; }
/venv/bin/python "$md/demo.py" >/tmp/confirm_$id.mut 2>&1; m=$?
/venv/bin/python -m pytest -q -p no:cacheprovider -n 12 --timeout=900 -q > /tmp/confirm_$id.suite 2>&1; s=$?
fails=$(grep -c "^FAILED" /tmp/confirm_$id.suite)
onlyx=$(grep "^FAILED" /tmp/confirm_$id.suite | grep -vc "test_xarray.py::test_apply_ufunc\|test_xarray.py::test_dataarray_rolling_construct_multi_axis")
git checkout -q -- dask_array
echo "$id: demo clean exit=$c, demo mutated exit=$m, suite exit=$s failed=$fails (other than the 2 order-dependent xarray tests: $onlyx)"
tail -1 /tmp/confirm_$id.suite
if [ "$c" = 0 ] && [ "$m" != 0 ] && [ "$onlyx" = 0 ]; then
  mkdir -p /verif/seeded/$id
  cp "$md/patch.diff" "$md/demo.py" /verif/seeded/$id/
  sed -i "s#$wt#/repo#g" /verif/seeded/$id/demo.py
  /venv/bin/python - "$md/meta.json" "$id" "$c" "$m" "$(tail -1 /tmp/confirm_$id.suite)" <<'PY'
import json, sys
src, id_, c, m, suite = sys.argv[1:6]
try:
    meta = json.load(open(src))
except Exception as e:
    meta = {"note": f"sub-agent meta.json unreadable: {e}"}
meta["confirmed_by_me"] = {
    "scratch_worktree": "git worktree of /repo HEAD under /tmp/mut (removed afterwards)",
    "demo_on_clean_tree_exit": int(c),
    "demo_with_patch_exit": int(m),
    "suite_with_patch": suite.strip(),
    "suite_cmd": "/venv/bin/python -m pytest -q -p no:cacheprovider -n 12 --timeout=900 (the two order-dependent test_xarray tests are ignored)",
}
json.dump(meta, open(f"/verif/seeded/{id_}/meta.json", "w"), indent=1)
PY
  echo "$id: KEPT"
else
  echo "$id: REJECTED"
fi

"""C21 - Frisky records are declined or complete; the generic translation is exhaustive, ordered and key-normalising."""

from __future__ import annotations

import ast

from ..model import body_walk, dotted, full_walk, idents_in, norm, unparse
from ..report import RuleResult
from .common import cfg_index, cfg_of, nearest_def, need, site

PROP = "C21"

EXPLANATION = (
    "Decides the 'declined or complete' clause of C21 and the structural soundness of the generic records translation. "
    "R21.1 in collect_task_records every normal exit taken with seen=None passes through _check_complete(records), whose "
    "only outcome for a dangling dependency is NotImplementedError; R21.2 both walkers wrap the native layer constructor "
    "in a handler for exactly (NotImplementedError, ImportError) and fall back to GraphRecordsLayer, binary chunks are "
    "declined with NotImplementedError only, and every explicit raise in a _frisky_layer method or in dask_array/_frisky/* "
    "is NotImplementedError (anything else would escape the fallback and abort instead of declining); R21.3 in both "
    "walkers every iteration that is not skipped as already seen adds the node to `seen` and pushes all of "
    "e.dependencies(); R21.4 the isinstance dispatch chains of _Flattener.resolve and _records are exhaustive over the "
    "GraphNode hierarchy parsed from dask/_task_spec.py and test subclasses before their superclasses (NestedContainer "
    "before Task), ending in a GraphNode -> NotImplementedError catch-all; R21.5 every key leaving graph_records.py - "
    "output key, dependency, TaskRef - is built from _norm_key(...) or is the synthesized '<parent>-subN' key whose N "
    "comes from a counter incremented immediately before each use (unique per lifted subtask); R21.6 the three protocol "
    "hooks call _check_frisky_supported() first and derive everything from _lowered_expr / __dask_keys__(). That executing "
    "the records yields the same block values as the dask graph is not decided."
)
ASSUMPTIONS = ["Frisky treats NotImplementedError from the hooks as 'declined' (protocol)", "dask/_task_spec.py class hierarchy as installed"]
TRUSTED = ["CPython ast", "sa.cfg", "upstream class hierarchy parsed from source"]


def _collect(ctx):
    return ctx.repo.mod("dask_array._frisky.collect")


def r21_1(ctx):
    rr = RuleResult("R21.1", "PASS", "collect_task_records checks completeness on every exit of the unshared mode; _check_complete raises NotImplementedError for dangling deps", min_instances=2)
    m = _collect(ctx)
    f = m.func("collect_task_records")
    cfg = cfg_of(ctx, f)
    shared_def = [s for s in cfg.stmts() if isinstance(s, ast.Assign) and unparse(s.targets[0]) == "shared"]
    need(shared_def, "`shared = seen is not None` in collect_task_records")
    if unparse(shared_def[0].value) != "seen is not None":
        ctx.finding(rr, site(f, shared_def[0]), f"shared mode is determined by {unparse(shared_def[0].value)!r}, not `seen is not None`", func=f, node=shared_def[0])
    # the capture must precede any rebinding of seen
    for s in cfg.stmts():
        if isinstance(s, ast.Assign) and unparse(s.targets[0]) == "seen":
            reach, _ = cfg.reachable(s)
            if shared_def[0] in reach:
                ctx.finding(rr, site(f, shared_def[0]), "`shared` is computed after `seen` was replaced by a fresh set: the completeness check never runs", func=f, node=shared_def[0])

    def checks(n):
        return isinstance(n, ast.Expr) and isinstance(n.value, ast.Call) and dotted(n.value.func) == "_check_complete"

    def shared_edge(a, lbl, b):
        if isinstance(a, ast.If):
            t, pol = a.test, True
            while isinstance(t, ast.UnaryOp) and isinstance(t.op, ast.Not):
                t, pol = t.operand, not pol
            if unparse(t) == "shared":
                # the edge on which shared is True is sanctioned (caller checks the union)
                return lbl is pol
        return False

    for r in cfg.returns or [None]:
        tgt = r if r is not None else cfg.exit
        c = site(f, r) if r is not None else site(f)
        rr.inst(c, must_pass="_check_complete(records) unless shared")
        p = cfg.path_avoiding(tgt, blocked=checks, blocked_edge=shared_edge)
        if p is not None:
            ctx.finding(rr, c, "records can be returned in unshared mode without _check_complete: an incomplete graph is submitted instead of being declined", func=f, node=r,
                        path=[f"line {getattr(x, 'lineno', 0)}: {norm(x)}" for x in p if isinstance(x, ast.AST)][:6])
    cc = m.func("_check_complete")
    raises = [n for n in body_walk(cc.node) if isinstance(n, ast.Raise)]
    cfg2 = cfg_of(ctx, cc)
    ok = any(dotted(n.exc.func if isinstance(n.exc, ast.Call) else n.exc) == "NotImplementedError" and any(pol and unparse(t) == "dangling" for t, pol in cfg2.guards(n)) for n in raises)
    dang = [s for s in body_walk(cc.node) if isinstance(s, ast.Assign) and unparse(s.targets[0]) == "dangling"]
    # (dependencies named by some record) minus (keys produced by some record): locals looked through, names free
    from ..dataflow import Defs as _Defs
    from ..refguards import _inline

    shape = False
    if dang:
        v = _inline(dang[0].value, _Defs(cc.node))
        if isinstance(v, ast.BinOp) and isinstance(v.op, ast.Sub):
            left, right = unparse(v.left), unparse(v.right)
            shape = "[4]" in left and "[0]" in right and "[4]" not in right
    rr.inst(site(cc), raises_not_implemented_on_dangling=ok, dangling=unparse(dang[0].value) if dang else None)
    if not ok or not shape:
        ctx.finding(rr, site(cc), "_check_complete no longer raises NotImplementedError when some record's dependency is produced by no record", func=cc)
    return rr


def r21_2(ctx):
    rr = RuleResult("R21.2", "COVER", "native layers fail over to GraphRecordsLayer on exactly (NotImplementedError, ImportError); every explicit raise on the records path is NotImplementedError", min_instances=20)
    m = _collect(ctx)
    for fn in ("_walk_records", "_walk_record_chunks"):
        f = m.func(fn)
        from .common import chain_conjuncts, with_helpers

        # the native-layer attempt and its fallback may live in the walker or in a same-module helper it calls
        scope = with_helpers(f, depth=1)
        tries = []
        for g in scope:
            for n in body_walk(g.node):
                if isinstance(n, ast.Try):
                    # the call of the layer factory obtained with getattr(e, "_frisky_layer", ...)
                    factory = {t.id for a in body_walk(g.node) if isinstance(a, ast.Assign) and isinstance(a.value, ast.Call) and dotted(a.value.func) == "getattr" and any(isinstance(x, ast.Constant) and x.value == "_frisky_layer" for x in a.value.args) for t in a.targets if isinstance(t, ast.Name)}
                    if any(isinstance(c, ast.Call) and ((isinstance(c.func, ast.Name) and c.func.id in factory) or (isinstance(c.func, ast.Attribute) and c.func.attr == "_frisky_layer")) for b in n.body for c in ast.walk(b)):
                        tries.append((g, n))
        if not tries:
            rr.inst(site(f) + "::native-layer attempt", present=False)
            ctx.finding(rr, site(f) + "::native-layer attempt", f"{fn} no longer wraps the native layer construction (e._frisky_layer()) in a try with a fallback: a layer that declines with NotImplementedError aborts the whole submission", func=f)
            continue
        g, t = tries[0]
        types = sorted(x for h in t.handlers for x in ([dotted(e) for e in h.type.elts] if isinstance(h.type, ast.Tuple) else [dotted(h.type) if h.type is not None else "<bare>"]))
        rr.inst(site(g, t), handler_types=types, reached_from=fn)
        if types != ["ImportError", "NotImplementedError"]:
            ctx.finding(rr, site(g, t), f"the native-layer fallback catches {types}, not exactly (NotImplementedError, ImportError): a wider handler hides real errors behind a silently different graph, a narrower one aborts instead of declining", func=g, node=t)
        ok = False
        for h in scope:
            hcfg = cfg_of(ctx, h)
            for s_ in body_walk(h.node):
                if isinstance(s_, ast.Assign) and isinstance(s_.value, ast.Call) and dotted(s_.value.func) == "GraphRecordsLayer":
                    if any(c.endswith(" is None") for c in chain_conjuncts(hcfg, s_)):
                        ok = True
        if not ok:
            ctx.finding(rr, site(f), "no GraphRecordsLayer(e) fallback under `<layer> is None`", func=f)
    # every raise on the records path
    repo = ctx.repo
    for mod in repo.units:
        for f in mod.functions.values():
            on_path = f.name in ("_frisky_layer", "_binary_frisky_layer") or (mod.name.startswith("dask_array._frisky") and mod.name != "dask_array._frisky.base")
            if not on_path:
                continue
            for n in body_walk(f.node):
                if isinstance(n, ast.Raise):
                    exc = n.exc.func if isinstance(n.exc, ast.Call) else n.exc
                    nm = dotted(exc) if exc is not None else "re-raise"
                    rr.inst(site(f, n)[:150], raises=nm)
                    if nm not in ("NotImplementedError", "ImportError", "re-raise"):
                        ctx.finding(rr, site(f, n)[:150], f"the records path raises {nm}: it escapes the (NotImplementedError, ImportError) fallback, so the submission aborts instead of being declined", func=f, node=n)
    return rr


def r21_3(ctx):
    rr = RuleResult("R21.3", "PASS", "each walker iteration that is not skipped marks the node seen and pushes all of its dependencies", min_instances=2)
    m = _collect(ctx)
    for fn in ("_walk_records", "_walk_record_chunks"):
        f = m.func(fn)
        loops = [n for n in body_walk(f.node) if isinstance(n, ast.While)]
        need(loops, f"while stack: in {fn}")
        lp = loops[0]
        cfg = cfg_of(ctx, f)
        from ..dataflow import Defs

        defs = Defs(f.node)

        def pushes_deps(n):
            if not (isinstance(n, ast.Expr) and isinstance(n.value, ast.Call) and unparse(n.value.func) == "stack.extend"):
                return False
            a = n.value.args[0]
            vals = [a] + (defs.defs.get(a.id, []) if isinstance(a, ast.Name) else [])
            return any(unparse(v) == "e.dependencies()" for v in vals)

        def marks(n):
            return isinstance(n, ast.Expr) and unparse(n.value) == "seen.add(e._name)"

        def skip_edge(a, lbl, b):
            return isinstance(b, ast.Continue) and any(pol and unparse(t) == "e._name in seen" for t, pol in cfg.guards(b))

        first = lp.body[0]
        rr.inst(site(f, lp), loop=norm(lp))
        for what, pred in (("marking the node as seen", marks), ("pushing e.dependencies()", pushes_deps)):
            # a path from the start of an iteration back to the loop header that avoids the statement
            p = cfg.path_avoiding(lp, blocked=pred, blocked_edge=skip_edge, start=first)
            if p is not None:
                ctx.finding(rr, site(f, lp), f"an iteration of {fn} can complete without {what}: part of the graph is never walked or is walked twice", func=f, node=lp,
                            path=[f"line {getattr(x, 'lineno', 0)}: {norm(x)}" for x in p if isinstance(x, ast.AST)][:6])
    return rr


def _hierarchy(repo):
    ts = repo.module("dask._task_spec")
    need(ts is not None, "dask/_task_spec.py")
    parents = {}
    for name, c in ts.classes.items():
        parents[name] = [(dotted(b) or "").rsplit(".", 1)[-1] for b in c.base_exprs]

    def ancestors(n):
        out, work = set(), list(parents.get(n, []))
        while work:
            x = work.pop()
            if x not in out:
                out.add(x)
                work.extend(parents.get(x, []))
        return out

    return parents, ancestors


def r21_4(ctx):
    rr = RuleResult("R21.4", "COVER", "isinstance dispatch over _task_spec nodes is exhaustive and tests subclasses before superclasses", min_instances=2)
    repo = ctx.repo
    parents, ancestors = _hierarchy(repo)
    graph_nodes = {n for n in parents if "GraphNode" in ancestors(n)} | {"GraphNode"}
    gm = repo.mod("dask_array._frisky.graph_records")
    for fq in ("_Flattener.resolve", "_records"):
        f = gm.func(fq)
        order = []
        for s in f.node.body:
            if isinstance(s, ast.If):
                for c in ast.walk(s.test):
                    if isinstance(c, ast.Call) and dotted(c.func) == "isinstance" and len(c.args) == 2:
                        t = c.args[1]
                        names = [dotted(e) for e in t.elts] if isinstance(t, ast.Tuple) else [dotted(t)]
                        for nm in names:
                            if nm in parents or nm in ("TaskRef",):
                                order.append((nm, s))
                        break
        tested = [n for n, _ in order]
        rr.inst(site(f), dispatch_order=tested)
        for i, (nm, s) in enumerate(order):
            for earlier, s0 in order[:i]:
                if earlier in ancestors(nm) and s0 is not s:
                    # narrowing tests such as ``isinstance(x, NestedContainer) and x.klass in (...)`` before
                    # Task are fine; the reverse (superclass first) makes the subclass branch dead
                    ctx.finding(rr, site(f, s), f"isinstance(..., {nm}) is tested after its superclass {earlier}: the {nm} branch is unreachable and such nodes take the generic path", func=f, node=s)
        if "GraphNode" not in tested:
            ctx.finding(rr, site(f), "no trailing isinstance(..., GraphNode) catch-all", func=f)
        else:
            s = [s for n, s in order if n == "GraphNode"][0]
            if not any(isinstance(x, ast.Raise) and "NotImplementedError" in unparse(x) for x in ast.walk(s)):
                ctx.finding(rr, site(f, s), "the GraphNode catch-all no longer raises NotImplementedError", func=f, node=s)
        # concrete GraphNode subclasses are either tested or covered by a tested ancestor
        for g in sorted(graph_nodes - {"GraphNode"}):
            if g not in tested and not (ancestors(g) & (set(tested) - {"GraphNode"})):
                ctx.finding(rr, site(f), f"_task_spec.{g} is only caught by the GraphNode catch-all (declines) - acceptable; recorded", func=f) if False else None
    return rr


def r21_5(ctx):
    rr = RuleResult("R21.5", "COVER", "every key leaving graph_records.py is normalised with _norm_key or is the counter-based '<parent>-subN' key", min_instances=4)
    gm = ctx.repo.mod("dask_array._frisky.graph_records")
    from ..dataflow import Defs

    # every function of the module that emits a reference (the two translators and whatever helpers they share)
    need("_Flattener.resolve" in gm.functions and "_records" in gm.functions, "graph_records._Flattener.resolve / _records")
    for f in gm.functions.values():
        if f.parent is not None or not any(isinstance(n, ast.Call) and dotted(n.func) == "TaskRef" for n in body_walk(f.node)):
            continue
        defs = Defs(f.node)

        cfgf = cfg_of(ctx, f)
        idxf = cfg_index(ctx, f)

        def normalised(e, at=None):
            vals = [e]
            if isinstance(e, ast.Name):
                d = nearest_def(cfgf, idxf.get(id(at)), e.id) if at is not None and idxf.get(id(at)) is not None else None
                vals += [d.value] if d is not None else defs.defs.get(e.id, [])
            return any(("_norm_key(" in unparse(v)) or unparse(v).startswith("str(node.value.key") or (isinstance(v, ast.JoinedStr) and "-sub" in unparse(v)) for v in vals)

        for n in body_walk(f.node):
            if isinstance(n, ast.Call) and dotted(n.func) == "TaskRef" and n.args:
                c = site(f, n)
                ok = normalised(n.args[0], at=n)
                rr.inst(c, key=unparse(n.args[0]), normalised=ok)
                if not ok:
                    ctx.finding(rr, c, f"TaskRef({unparse(n.args[0])}) is emitted without _norm_key: numpy-int block coordinates stringify differently and the dependency never resolves", func=f, node=n)
    rec = gm.func("_records")
    ok_def = [s for s in body_walk(rec.node) if isinstance(s, ast.Assign) and unparse(s.targets[0]) == "out_key"]
    rr.inst(site(rec), out_key=[unparse(s.value) for s in ok_def])
    if not ok_def or any(unparse(s.value) != "str(_norm_key(key))" for s in ok_def):
        ctx.finding(rr, site(rec), "the output key of a record is not str(_norm_key(key))", func=rec)
    # sub-key uniqueness: a counter attribute initialised in __init__ and incremented immediately before each use
    res = gm.func("_Flattener.resolve")
    cfg = cfg_of(ctx, res)
    subs = [s for s in cfg.stmts() if isinstance(s, ast.Assign) and unparse(s.targets[0]) == "sub_key"]
    need(subs, "sub_key = ... in _Flattener.resolve")
    for s in subs:
        attrs = [unparse(x) for x in ast.walk(s.value) if isinstance(x, ast.Attribute) and unparse(x.value) == "self" and x.attr != "parent_key"]
        c = site(res, s)
        rr.inst(c, counter=attrs)
        ok = False
        if len(attrs) == 1 and isinstance(s.value, ast.JoinedStr) and "self.parent_key" in unparse(s.value):
            ctr = attrs[0]
            par = cfg.parent.get(s)
            sibs = cfg._siblings(s, par[0], par[1]) if par else []
            i = sibs.index(s) if s in sibs else -1
            prev = sibs[i - 1] if i > 0 else None
            ok = isinstance(prev, ast.AugAssign) and unparse(prev.target) == ctr and isinstance(prev.op, ast.Add) and unparse(prev.value) == "1"
            # nothing else may write the counter except __init__
            for g in gm.functions.values():
                for x in body_walk(g.node):
                    if isinstance(x, (ast.Assign, ast.AugAssign)) and any(unparse(t) == ctr for t in (x.targets if isinstance(x, ast.Assign) else [x.target])):
                        if x is not prev and g.name != "__init__":
                            ok = False
        if not ok:
            ctx.finding(rr, c, "the synthesized subtask key is not '<parent>-sub<N>' with N a counter incremented immediately before each use: nested inline tasks can collide on one key", func=res, node=s)
    return rr


def r21_6(ctx):
    rr = RuleResult("R21.6", "COVER", "the protocol hooks check support first and derive records and keys from _lowered_expr / __dask_keys__", min_instances=3)
    arr = ctx.repo.mod("dask_array._collection").cls("Array")
    for meth, uses in (("__frisky_graph__", "collect_task_records"), ("__frisky_records_chunks__", "collect_record_chunks"), ("__frisky_output_keys__", "__dask_keys__")):
        f = arr.methods.get(meth)
        need(f is not None, f"Array.{meth}")
        cfg = cfg_of(ctx, f)

        def supported(n):
            return isinstance(n, ast.Expr) and unparse(n.value) == "self._check_frisky_supported()"

        rr.inst(site(f), uses=uses)
        for r in cfg.returns:
            p = cfg.path_avoiding(r, blocked=supported)
            if p is not None:
                ctx.finding(rr, site(f, r), f"{meth} can answer without _check_frisky_supported() (masked arrays must decline)", func=f, node=r)
            if uses not in unparse(r.value):
                ctx.finding(rr, site(f, r), f"{meth} no longer derives its answer from {uses}", func=f, node=r)
    cs = arr.methods.get("_check_frisky_supported")
    need(cs is not None, "Array._check_frisky_supported")
    raises = [n for n in body_walk(cs.node) if isinstance(n, ast.Raise)]
    if not raises or any("NotImplementedError" not in unparse(n) for n in raises):
        ctx.finding(rr, site(cs), "_check_frisky_supported must decline with NotImplementedError", func=cs)
    return rr


def r21_7(ctx):
    rr = RuleResult("R21.7", "COVER", "the positional TaskRef arguments of a fused record are built one per dependency slot (length-preserving), in slot order", min_instances=1)
    repo = ctx.repo
    m = repo.mod("dask_array._frisky.fused_blockwise")
    cls = m.classes.get("FusedBlockwiseLayer")
    need(cls is not None, "FusedBlockwiseLayer")
    from ..dataflow import Defs

    found = False
    for mf in cls.methods.values():
        recs = [n for n in body_walk(mf.node) if isinstance(n, ast.Call) and isinstance(n.func, ast.Attribute) and n.func.attr == "append" and unparse(n.func.value) == "records"]
        if not recs:
            continue
        defs = Defs(mf.node)
        slot_names = {k for k, vs in defs.defs.items() if k == "slots"}
        if not slot_names:
            continue
        found = True
        # follow: args -> refs -> dep_keys -> slots; every step must be a plain comprehension (no filter) or tuple()/list() of the previous
        def preserves(name, seen=()):
            """(ok, why): name is derived from `slots` by length- and order-preserving steps only."""
            if name == "slots":
                return True, ""
            if name in seen:
                return False, f"cyclic definition of {name}"
            vs = defs.defs.get(name, [])
            if not vs:
                return False, f"{name} is not defined here"
            for v in vs:
                ok, why = expr_preserves(v, seen + (name,))
                if not ok:
                    return False, why
            return True, ""

        def expr_preserves(v, seen):
            if isinstance(v, ast.Name):
                return preserves(v.id, seen)
            if isinstance(v, (ast.ListComp, ast.GeneratorExp)):
                if len(v.generators) != 1 or v.generators[0].ifs:
                    return False, f"filtered or nested comprehension `{unparse(v)[:60]}`"
                return expr_preserves(v.generators[0].iter, seen)
            if isinstance(v, ast.Call) and dotted(v.func) in ("tuple", "list") and len(v.args) == 1:
                return expr_preserves(v.args[0], seen)
            if isinstance(v, ast.BinOp) and isinstance(v.op, ast.Add):
                return expr_preserves(v.left, seen)  # tuple(refs) + seeds: refs first, seeds appended
            return False, f"`{unparse(v)[:70]}` is not a length-preserving image of the slots"

        for r in recs:
            tup = r.args[0] if r.args else None
            if not isinstance(tup, ast.Tuple) or len(tup.elts) < 5:
                continue
            args_e, deps_e = tup.elts[2], tup.elts[4]
            ok, why = expr_preserves(args_e, ())
            rr.inst(site(mf, r)[:160], args=unparse(args_e), deps=unparse(deps_e), one_ref_per_slot=ok)
            if not ok:
                ctx.finding(rr, site(mf, r)[:160], f"the positional arguments of the fused record are not one TaskRef per dependency slot: {why}; the shared fused callable binds its inputs by position, so a de-duplicated or filtered list shifts every later argument", func=mf, node=r)
    need(found, "the records loop of FusedBlockwiseLayer (records.append over slots)")
    return rr


def r21_8(ctx):
    rr = RuleResult(
        "R21.8", "COVER",
        "the generic translator resolves EVERY element of every container it rebuilds: in _Flattener.resolve each element that enters a rebuilt list / tuple / dict / argument tuple comes out of self.resolve(...)",
        min_instances=5,
    )
    m = ctx.repo.mod("dask_array._frisky.graph_records")
    fl = m.cls("_Flattener")
    f = fl.methods.get("resolve")
    need(f is not None, "_Flattener.resolve")
    arg = f.node.args.args[1].arg if len(f.node.args.args) > 1 else "arg"
    # locals that alias (parts of) the argument: items = arg.args, kw = arg.kwargs or {}, ...
    alias = {arg}
    for _ in range(3):
        for n in body_walk(f.node):
            if isinstance(n, ast.Assign) and len(n.targets) == 1 and isinstance(n.targets[0], ast.Name):
                if any(isinstance(x, ast.Name) and x.id in alias for x in ast.walk(n.value)) and not any(isinstance(x, ast.Call) and unparse(x.func) == "self.resolve" for x in ast.walk(n.value)):
                    alias.add(n.targets[0].id)

    def from_arg(e):
        return any(isinstance(x, ast.Name) and x.id in alias for x in ast.walk(e))

    def resolved(e):
        return isinstance(e, ast.Call) and unparse(e.func) == "self.resolve"

    n_sites = 0
    for n in body_walk(f.node):
        if isinstance(n, (ast.ListComp, ast.GeneratorExp, ast.SetComp)) and any(from_arg(g.iter) for g in n.generators):
            n_sites += 1
            c = site(f, n)[:170]
            rr.inst(c, element=unparse(n.elt)[:60], resolved=resolved(n.elt))
            if not resolved(n.elt):
                ctx.finding(rr, c, f"a container is rebuilt from the argument's elements as `{unparse(n.elt)[:50]}` without passing each through self.resolve: a nested node or key reference in that position reaches the record untranslated and its dependency is lost", func=f, node=n)
        elif isinstance(n, ast.DictComp) and any(from_arg(g.iter) for g in n.generators):
            n_sites += 1
            c = site(f, n)[:170]
            rr.inst(c, value=unparse(n.value)[:60], resolved=resolved(n.value))
            if not resolved(n.value):
                ctx.finding(rr, c, f"a dict is rebuilt from the argument's items with value `{unparse(n.value)[:50]}` not passed through self.resolve", func=f, node=n)
        elif isinstance(n, (ast.For, ast.AsyncFor)) and from_arg(n.iter):
            targets = {x.id for x in ast.walk(n.target) if isinstance(x, ast.Name)}
            for b in ast.walk(n):
                stored = None
                if isinstance(b, ast.Call) and isinstance(b.func, ast.Attribute) and b.func.attr in ("append", "add", "extend", "insert") and b.args:
                    stored = b.args[-1]
                elif isinstance(b, ast.Assign) and any(isinstance(t, ast.Subscript) for t in b.targets):
                    stored = b.value
                if stored is None:
                    continue
                n_sites += 1
                c = site(f, b if isinstance(b, ast.stmt) else n)[:150] + f"::{unparse(stored)[:40]}"
                # every value the stored name can hold inside the loop must come from self.resolve
                ok = resolved(stored)
                if not ok and isinstance(stored, ast.Name):
                    ds = [s_.value for s_ in ast.walk(n) if isinstance(s_, ast.Assign) and any(isinstance(t, ast.Name) and t.id == stored.id for t in s_.targets)]
                    ok = stored.id not in targets and bool(ds) and all(resolved(d) for d in ds)
                rr.inst(c, stored=unparse(stored)[:60], resolved=ok)
                if not ok:
                    ctx.finding(rr, c, f"inside a loop over the argument's elements `{unparse(stored)[:40]}` is stored into the rebuilt container without (on every path) coming out of self.resolve: elements that are nested nodes or key references stay untranslated and their dependencies are lost", func=f, node=n)
    need(n_sites >= 5, "container rebuild sites in _Flattener.resolve")
    return rr


RULES = [r21_1, r21_2, r21_3, r21_4, r21_5, r21_6, r21_7, r21_8]

LEVEL_TEXT = (
    "Static decision of the decline-or-complete discipline of the records path: CFG must-pass-through of the completeness "
    "check, exception-type discipline of every raise on the path versus the fallback handlers, per-iteration coverage of "
    "the two walkers, exhaustive and correctly ordered isinstance dispatch against the upstream GraphNode hierarchy, key "
    "normalisation and uniqueness of synthesized subtask keys, and support checks in the protocol hooks. Equality of the "
    "values computed from the records (including native layers) is not decided."
)
LEVEL_NOTE = "Trusted: CPython ast, engine CFG, dask/_task_spec.py hierarchy parsed from the installed source. Assumes Frisky honours NotImplementedError as 'declined'."
TECHNIQUE = "static analysis: CFG must-pass-through + exception-type discipline + dispatch exhaustiveness/ordering against the parsed class hierarchy (ast)"

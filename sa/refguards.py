"""REF rules: guards confirmed on the reference tree must still exist and still control their exit.

A *guard instance* is an exit statement of a function (``raise X``, ``return None``, ``return <const>``,
``continue``) together with its controlling condition chain (``CFG.guards``: enclosing tests with
polarity plus preceding early-exit tests).  Its *fingerprint* is computed from the chain after
inlining single-level local definitions, as a multiset of structural features (AST node kinds,
attribute names, called function names, constants, comparison/boolean operators and polarity).
Local variable *names* are not part of the fingerprint, operand order of and/or is irrelevant:
renaming a local or reordering conjuncts does not change it; dropping a conjunct, turning ``or``
into ``and``, comparing against another constant, or changing what a tested local is computed from does.
"""

from __future__ import annotations

import ast
import hashlib
import json
import os
from collections import Counter

from .cfg import CFG
from .dataflow import Defs
from .model import AnalysisError, FuncInfo, body_walk, dotted, unparse

FIXTURE = os.path.join(os.path.dirname(os.path.dirname(os.path.abspath(__file__))), "fixtures", "ref_guards.json")


def _inline(test, defs: Defs, depth=2, _seen=None):
    """Copy of ``test`` with locals that have exactly one definition replaced by it."""
    _seen = _seen or set()

    class T(ast.NodeTransformer):
        def visit_Name(self, n):
            if isinstance(n.ctx, ast.Load) and n.id not in defs.params and n.id not in _seen:
                vs = defs.defs.get(n.id, [])
                if len(vs) == 1 and depth > 0 and not isinstance(vs[0], (ast.Lambda,)):
                    inner = _inline(vs[0], defs, depth - 1, _seen | {n.id})
                    return inner
            return n

    import copy

    return T().visit(copy.deepcopy(test))


_NEG_CMP = {ast.Eq: ast.NotEq, ast.NotEq: ast.Eq, ast.In: ast.NotIn, ast.NotIn: ast.In, ast.Is: ast.IsNot, ast.IsNot: ast.Is}


def _nnf(test, positive=True):
    """Negation normal form of ``test`` (negated when ``positive`` is False): negations are pushed through
    and/or (De Morgan), double negations vanish, and ==/!=, in/not in, is/is not absorb a negation.  Order
    comparisons are NOT flipped (``not a < b`` differs from ``a >= b`` for NaN)."""
    if isinstance(test, ast.UnaryOp) and isinstance(test.op, ast.Not):
        return _nnf(test.operand, not positive)
    if isinstance(test, ast.BoolOp):
        vals = [_nnf(v, positive) for v in test.values]
        op = test.op if positive else (ast.Or() if isinstance(test.op, ast.And) else ast.And())
        return ast.BoolOp(op=op, values=vals)
    if positive:
        return test
    if isinstance(test, ast.Compare) and len(test.ops) == 1 and type(test.ops[0]) in _NEG_CMP:
        return ast.Compare(left=test.left, ops=[_NEG_CMP[type(test.ops[0])]()], comparators=test.comparators)
    if isinstance(test, ast.Constant) and isinstance(test.value, bool):
        return ast.Constant(value=not test.value)
    return ast.UnaryOp(op=ast.Not(), operand=test)


def _conjuncts(test):
    if isinstance(test, ast.BoolOp) and isinstance(test.op, ast.And):
        out = []
        for v in test.values:
            out.extend(_conjuncts(v))
        return out
    return [test]


def _features(node, local_names) -> Counter:
    c = Counter()
    for n in ast.walk(node):
        t = type(n).__name__
        if isinstance(n, ast.Name):
            if n.id in local_names:
                c["Local"] += 1
            else:
                c[f"Name:{n.id}"] += 1
        elif isinstance(n, ast.Attribute):
            c[f"Attr:{n.attr}"] += 1
        elif isinstance(n, ast.Constant):
            c[f"Const:{n.value!r}"] += 1
        elif isinstance(n, (ast.Load, ast.Store, ast.Del, ast.expr_context)):
            continue
        elif isinstance(n, ast.keyword):
            c[f"kw:{n.arg}"] += 1
        else:
            c[t] += 1
    return c


def exit_kind(stmt):
    if isinstance(stmt, ast.Raise):
        exc = stmt.exc
        if isinstance(exc, ast.Call):
            exc = exc.func
        return "raise " + (dotted(exc) or "?") if exc is not None else "raise"
    if isinstance(stmt, ast.Return):
        v = stmt.value
        if v is None or (isinstance(v, ast.Constant) and v.value is None):
            return "return None"
        if isinstance(v, ast.Constant):
            return f"return {v.value!r}"
        return "return <value>"
    if isinstance(stmt, ast.Continue):
        return "continue"
    return type(stmt).__name__


def stmt_kind(s):
    """Kind label for non-exit statements tracked by REF rules: assignments by target, calls by callee."""
    if isinstance(s, ast.Assign):
        return "assign " + ", ".join(sorted(unparse(t).split("[")[0] for t in s.targets))
    if isinstance(s, ast.AugAssign):
        return "assign " + unparse(s.target).split("[")[0]
    if isinstance(s, ast.Expr) and isinstance(s.value, ast.Call):
        return "call " + (dotted(s.value.func) or "?")
    return None


def guard_instances(f: FuncInfo, kinds=("raise", "return None", "return", "continue"), extra=None):
    """[(stmt, exit kind, fingerprint, human text)] for the exits of ``f`` (and, with ``extra``,
    for other statements: ``extra(stmt) -> bool``)."""
    cfg = CFG(f.node)
    defs = Defs(f.node)
    local_names = set(defs.defs) | set(defs.params)
    out = []
    for s in cfg.stmts():
        if isinstance(s, (ast.Raise, ast.Return, ast.Continue)):
            ek = exit_kind(s)
            if not any(ek.startswith(k) for k in kinds):
                continue
        elif extra is not None and extra(s) and stmt_kind(s):
            ek = stmt_kind(s)
        else:
            continue
        chain = cfg.guards(s)
        total = Counter()
        texts = []
        for t, pol in chain:
            # the chain is a conjunction; normalise every element to negation normal form and split it into its
            # conjuncts, so that nested-if vs `and`, early-return vs else-branch, De Morgan and `not a == b` vs
            # `a != b` spellings of the same condition give the same multiset
            for lit in _conjuncts(_nnf(_inline(t, defs), pol)):
                ast.fix_missing_locations(lit)
                total.update(_features(lit, local_names))
                total["<conjunct>"] += 1
            for lit in _conjuncts(_nnf(t, pol)):
                texts.append(unparse(lit))
        canon = ";".join(f"{k}={v}" for k, v in sorted(total.items()))
        fp = hashlib.sha256(canon.encode()).hexdigest()[:16]
        out.append((s, ek, fp, " AND ".join(f"({x})" for x in sorted(texts)) if texts else "<unconditional>"))
    return out


def load_reference(prop):
    if not os.path.isfile(FIXTURE):
        raise AnalysisError(f"reference guard table missing: {FIXTURE}")
    with open(FIXTURE) as fh:
        data = json.load(fh)
    return data.get(prop, [])


def check_reference(ctx, rr, prop, selector=None):
    """Every reference guard of ``prop`` (optionally filtered) must still exist with the same
    exit kind and fingerprint in its function."""
    repo = ctx.repo
    ref = load_reference(prop)
    if selector:
        ref = [e for e in ref if selector(e)]
    cache = {}
    for e in ref:
        modname, qual = e["func"].split(":")
        m = repo.mod(modname)
        if qual not in m.functions and "." in qual and qual.rsplit(".", 1)[0] in m.classes:
            # the class is still there but the method is gone: attribute lookup now resolves to a base
            # class implementation, i.e. the guarded behaviour was removed, not renamed away
            cls = m.classes[qual.rsplit(".", 1)[0]]
            c = f"{cls.construct}::{qual.rsplit('.', 1)[1]}"
            if not any(i["construct"] == c for i in rr.instances):
                rr.inst(c, present=False)
                hit = repo.class_attr(cls, qual.rsplit(".", 1)[1])
                ctx.finding(rr, c, f"{qual} carried reference guards but is no longer defined; lookups now resolve to {hit[0].name + '.' + qual.rsplit('.', 1)[1] if hit else 'nothing'}", file=m.path, line=cls.node.lineno)
            continue
        f = m.func(qual)  # raises AnalysisError when a module-level anchor vanished
        if f.fq not in cache:
            cache[f.fq] = guard_instances(f, extra=lambda s: True)
        insts = cache[f.fq]
        same_exit = [i for i in insts if i[1] == e["exit"]]
        hit = [i for i in same_exit if i[2] == e["fp"]]
        c = f"{f.construct}::{e['exit']} when {e['text'][:140]}"
        rr.inst(c, why=e.get("why", ""), present=bool(hit))
        if hit:
            continue
        ref_fps = {x["fp"] for x in ref if x["func"] == e["func"] and x["exit"] == e["exit"]}
        unmatched = [i for i in same_exit if i[2] not in ref_fps]
        now = "; ".join(sorted({i[3][:160] for i in (unmatched or same_exit)})[:3]) or "no such statement left"
        ctx.finding(
            rr, c,
            f"reference guard changed or removed in {f.qualname}: expected `{e['exit']}` under {e['text']!r}; now: {now}",
            func=f, node=(unmatched[0][0] if unmatched else (same_exit[0][0] if same_exit else f.node)),
        )
    return rr

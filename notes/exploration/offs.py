import numpy as np, dask_array as da, warnings, dask
warnings.simplefilter('ignore')
xn = np.arange(40.0).reshape(4,10)
x = da.from_array(xn, chunks=(2,5))
y = da.sliding_window_view(x, 3, axis=1).sum(axis=-1)
yn = np.lib.stride_tricks.sliding_window_view(xn, 3, axis=1).sum(axis=-1)
idx = da.from_array(np.array([3,0,2]), chunks=2)
for nm, f, g in [('int-dask-index axis0', lambda y: y[idx], lambda yn: yn[[3,0,2]]),
                 ('int-dask-index axis1', lambda y: y[:, idx], lambda yn: yn[:, [3,0,2]]),
                 ('blocks', lambda y: y.blocks[1], lambda yn: yn[1:2]),
                 ('map_blocks block_info', lambda y: y.map_blocks(lambda b, block_info=None: b*0+block_info[0]['chunk-location'][0], dtype=float), lambda yn: np.repeat(np.arange(4.0),8).reshape(4,8)),
                 ('to_delayed', lambda y: da.from_delayed(y.to_delayed()[3,0], shape=(1,5), dtype=float), lambda yn: yn[3:4,:5]),
                 ('vindex', lambda y: y.vindex[[0,3],[1,7]], lambda yn: yn[[0,3],[1,7]]),
                 ('bool mask', lambda y: y[y>50], lambda yn: yn[yn>50]),
                 ]:
    try:
        r = f(y).compute()
        print(nm, 'OK' if np.allclose(r, g(yn)) else f'MISMATCH\n{r}\n{g(yn)}')
    except Exception as e:
        print(nm, 'RAISES', type(e).__name__, str(e)[:100])
    try:
        with dask.config.set({'array.optimize-graph': False}):
            r = f(da.Array(y.expr)).compute(); print('    (no-opt)', 'OK' if np.allclose(r, g(yn)) else 'MISMATCH')
    except Exception as e: print('    (no-opt) RAISES', type(e).__name__, str(e)[:80])

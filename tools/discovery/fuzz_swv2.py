import numpy as np, warnings, sys
warnings.simplefilter("ignore")
import dask, dask_array as da
sw=np.lib.stride_tricks.sliding_window_view
a2=(np.arange(40.).reshape(20,2)*7)%13-4
def S2(ch=(3,2)): return da.sliding_window_view(da.from_array(a2,chunks=ch),5,axis=0).sum(axis=-1)
n2=sw(a2,5,axis=0).sum(axis=-1)   # (16,2)
b2=np.arange(32.).reshape(16,2)
def B2(ch=None): return da.from_array(b2,chunks=ch or S2().chunks)
bad=0
def check(label,f,want):
    global bad
    try:
        g=f(); g=g.compute() if hasattr(g,'compute') else g
        g=np.asarray(g)
        if g.shape!=np.shape(want) or not np.allclose(g,want,equal_nan=True): bad+=1; print('MISMATCH',label)
    except Exception as e:
        bad+=1; print('RAISE',label,type(e).__name__,str(e)[:90])
C={
 'concat1':(lambda: da.concatenate([S2(),B2()],axis=1), np.concatenate([n2,b2],axis=1)),
 'concat1 unaligned':(lambda: da.concatenate([S2(),B2((5,2))],axis=1), np.concatenate([n2,b2],axis=1)),
 'concat0':(lambda: da.concatenate([S2(),B2((5,1))],axis=0), np.concatenate([n2,b2],axis=0)),
 'stack2':(lambda: da.stack([S2(),B2()],axis=2), np.stack([n2,b2],axis=2)),
 'stack0 unaligned':(lambda: da.stack([S2(),B2((5,1))],axis=0), np.stack([n2,b2],axis=0)),
 'hstack':(lambda: da.hstack([S2(),B2()]), np.hstack([n2,b2])),
 'block2':(lambda: da.block([[S2(),B2()],[B2(),S2()]]), np.block([[n2,b2],[b2,n2]])),
 'where':(lambda: da.where(B2()>10,S2(),B2()), np.where(b2>10,n2,b2)),
 'tensordot':(lambda: da.tensordot(S2(),B2(),axes=((0,),(0,))), np.tensordot(n2,b2,axes=((0,),(0,)))),
 'matmul':(lambda: S2().T@B2(), n2.T@b2),
 'einsum':(lambda: da.einsum('ij,ik->jk',S2(),B2()), np.einsum('ij,ik->jk',n2,b2)),
 'map_blocks2':(lambda: da.map_blocks(lambda p,q:p-q,S2(),B2(),dtype=float), n2-b2),
 'blockwise T':(lambda: da.blockwise(lambda p,q:p+q.T,'ij',S2(),'ij',B2().T,'ji',dtype=float), n2+b2),
 'blockwise adj':(lambda: da.blockwise(lambda p,q:np.repeat(p+q,2,axis=0),'ij',S2(),'ij',B2(),'ij',dtype=float,adjust_chunks={'i':lambda n:2*n}), np.repeat(n2+b2,2,axis=0)),
 'blockwise concat':(lambda: da.blockwise(lambda p,q:(p*q).sum(axis=0,keepdims=False),'j',S2(),'ij',B2(),'ij',dtype=float,concatenate=True), (n2*b2).sum(axis=0)),
 'histogramdd w':(lambda: da.histogramdd(S2().rechunk({1:-1}),bins=(3,3),range=((-20,40),(-20,40)),weights=da.from_array(np.ones(16),chunks=S2().chunks[0]))[0], np.histogramdd(n2,bins=(3,3),range=((-20,40),(-20,40)))[0]),
 'setitem 2d':(lambda: (lambda d:(d.__setitem__((slice(2,8),slice(None)),S2()[2:8]),d)[1])(B2()), (lambda w:(w.__setitem__((slice(2,8),slice(None)),n2[2:8]),w)[1])(b2.copy())),
 'setitem idx':(lambda: (lambda d:(d.__setitem__(da.from_array(np.array([1,5,9]),chunks=2),0.),d)[1])(S2()), (lambda w:(w.__setitem__([1,5,9],0.),w)[1])(n2.copy())),
 'vindex2':(lambda: S2().vindex[[0,5,15],[1,0,1]]+B2().vindex[[0,5,15],[1,0,1]], n2[[0,5,15],[1,0,1]]+b2[[0,5,15],[1,0,1]]),
 'take dask idx':(lambda: S2()[da.from_array(np.array([3,0,15]),chunks=2)], n2[[3,0,15]]),
 'bool row mask':(lambda: S2()[B2()[:,0]>10].compute(), n2[b2[:,0]>10]),
 'store 2':(lambda: (lambda t1,t2:(da.store([S2(),B2()],[t1,t2],lock=False),t1+t2)[1])(np.zeros((16,2)),np.zeros((16,2))), n2+b2),
 'dask.compute two':(lambda: sum(dask.compute(S2(),B2()+S2())), n2+b2+n2),
 'persist then add':(lambda: S2().persist()+B2(), n2+b2),
 'map_overlap2 2d':(lambda: da.map_overlap(lambda p,q:p+np.roll(q,1,axis=0),S2().rechunk((4,2)),B2((4,2)),depth={0:1},boundary='periodic',dtype=float), n2+np.roll(b2,1,axis=0)),
 'cumsum axis0':(lambda: S2().cumsum(axis=0), n2.cumsum(axis=0)),
 'coarsen':(lambda: da.coarsen(np.sum,S2().rechunk((4,2)),{0:2}), n2.reshape(8,2,2).sum(axis=1)),
 'reshape':(lambda: S2().reshape(8,4), n2.reshape(8,4)),
 'reshape merge':(lambda: S2().reshape(32), n2.reshape(32)),
 'blocks':(lambda: S2().blocks[1], None),
 'T blocks':(lambda: (S2().T+B2().T), (n2+b2).T),
 'broadcast 3d':(lambda: S2()[None]+B2()[:,None,:][:1], None),
 'svd':(lambda: da.linalg.svd(S2())[1], np.linalg.svd(n2,compute_uv=False)),
 'qr':(lambda: (lambda q,r:q@r)(*da.linalg.qr(S2())), n2),
 'tsqr u':(lambda: (lambda u,s,v:(u*s)@v)(*da.linalg.tsqr(S2(),compute_svd=True)), n2),
 'norm':(lambda: da.linalg.norm(S2(),axis=0), np.linalg.norm(n2,axis=0)),
 'apply_gufunc 2':(lambda: da.apply_gufunc(lambda u,v:(u*v).sum(axis=-1),'(i),(i)->()',S2(),B2(),output_dtypes=float), (n2*b2).sum(axis=-1)),
 'cov 2':(lambda: da.cov(S2().T,B2().T), np.cov(n2.T,b2.T)),
 'average 2d w':(lambda: da.average(S2(),axis=0,weights=B2()+1), np.average(n2,axis=0,weights=b2+1)),
 'choose':(lambda: da.choose((B2()>10).astype(int),[S2(),B2()]), np.choose((b2>10).astype(int),[n2,b2])),
 'select':(lambda: da.select([S2()>10,B2()>10],[S2(),B2()],default=0.), np.select([n2>10,b2>10],[n2,b2],default=0.)),
 'piecewise':(lambda: da.piecewise(S2(),[B2()>10],[lambda v:-v, lambda v:v]), np.piecewise(n2,[b2>10],[lambda v:-v, lambda v:v])),
}
for k,(f,w) in C.items():
    if w is None: continue
    check(k,f,w)
print('bad',bad)
